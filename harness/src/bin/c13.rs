//! C13 correspondence harness: fuel thresholds.
//!
//! For every program (a set of templates or an expression, plus a context) the REAL engine is run
//!   * without fuel twice (result + executed instruction trace through the `verif_hooks`
//!     instruction callback, which fires for every instruction right before fuel is charged),
//!   * with fuel: the threshold is located by bisection, then every budget in `[0, thr+8]` and
//!     the extremes (2^16-1, 2^16, 2^16+1, 2^24, 2^31-1, 2^31, 2^32-1, 2^32, 2^32+1, 2^53+1, 2^63-1, 2^63, 2^63+1, 2^64-2,
//!     2^64-1) are rendered through
//!     `render_captured`, reading `State::fuel_levels`, the number of dispatched instructions,
//!     whether they are a prefix of the unlimited trace, and the levels seen by `probe()` calls
//!     inside the templates (top level, loops, macros, includes, blocks, super).
//!
//! One line per program:  `<hex of the JSON program>\t<JSON result>`.
//!
//! usage: c13 gen <quick|thorough>   — generate programs and print their result lines
//!        c13 one <hex>              — run one program (replay)
use minijinja::machinery::{get_compiled_template, Instruction};
use minijinja::value::Serde;
use minijinja::{Environment, Error, State, Value};
use mjh::*;
use serde::{Deserialize, Serialize};
use serde_json::json;
use std::cell::RefCell;
use std::collections::HashMap;
use std::io::Write;

#[derive(Serialize, Deserialize, Clone)]
struct Prog {
    /// family and parameters (informational, used for histograms)
    id: String,
    /// metamorphic group: programs of one group differ only in `k` units of extra work placed
    /// inside a nested evaluation (or loop); "" = none
    group: String,
    k: i64,
    /// "template" (render the first template) or "expr" (evaluate the source of the first)
    mode: String,
    templates: Vec<(String, String)>,
    ctx: serde_json::Value,
    /// the program uses Rust callbacks that swallow the error of a nested evaluation: a limited
    /// run may then dispatch instructions the unlimited run did not (the fallback path)
    #[serde(default)]
    swallow: bool,
    /// install a custom formatter that calls the macro `fm` for the value "FMT"
    #[serde(default)]
    reenter_formatter: bool,
    /// public `State` methods (method, argument) called after the render on the captured state
    /// (`Captured::with_state_mut`), or — modes "new_state" / "empty_state" — on a stand-alone state
    /// instead of a render; they are part of the evaluation: its trace, its budget, its result
    #[serde(default)]
    post: Vec<(String, String)>,
    /// structured program (loops over the data, instructions that fail depending on the data): for
    /// every `for` loop in source order the context variable it walks and how many enclosing loops
    /// over the same variable there are, the same for every `//` whose divisor comes from the data;
    /// the compiled instruction list is then printed with its jump targets
    #[serde(default)]
    skel: Option<serde_json::Value>,
}

#[derive(Default)]
struct Rec {
    cache: HashMap<usize, u16>,
    names: Vec<String>,
    by_name: HashMap<String, u16>,
    collect: bool,
    trace: Vec<u16>,
    reference: Vec<u16>,
    count: usize,
    mismatch: bool,
    probes: Vec<(usize, Option<(u64, u64)>)>,
    /// swallowed out-of-fuel errors after which the tank was not empty
    sticky_bad: usize,
    swallowed: usize,
}

thread_local! {
    static REC: RefCell<Rec> = RefCell::new(Rec::default());
}

fn instr_name(instr: &Instruction<'_>) -> String {
    match serde_json::to_value(instr) {
        Ok(v) => v.get("op").and_then(|x| x.as_str()).unwrap_or("?").to_string(),
        Err(_) => "?".to_string(),
    }
}

fn install_hook() {
    minijinja::verif_hooks::instructions::set_hook(Some(Box::new(|instr: &Instruction<'_>| {
        REC.with(|r| {
            let mut r = r.borrow_mut();
            let key = instr as *const Instruction<'_> as usize;
            let id = match r.cache.get(&key) {
                Some(id) => *id,
                None => {
                    let name = instr_name(instr);
                    let id = match r.by_name.get(&name) {
                        Some(id) => *id,
                        None => {
                            let id = r.names.len() as u16;
                            r.names.push(name.clone());
                            r.by_name.insert(name, id);
                            id
                        }
                    };
                    r.cache.insert(key, id);
                    id
                }
            };
            if r.collect {
                r.trace.push(id);
            } else {
                let c = r.count;
                if r.reference.get(c) != Some(&id) {
                    r.mismatch = true;
                }
            }
            r.count += 1;
        })
    })));
}

/// `{{ probe() }}`: records the fuel levels visible to code running inside the render
fn probe(state: &State) -> String {
    let lv = state.fuel_levels();
    REC.with(|r| {
        let mut r = r.borrow_mut();
        let c = r.count;
        r.probes.push((c, lv));
    });
    String::new()
}

/// `{{ apply(m, x) }}`: calls a template macro from Rust (nested evaluation entered from a function)
fn apply(state: &mut State, f: Value, x: Value) -> Result<Value, Error> {
    f.call(state, &[x])
}

fn root_is_out_of_fuel(e: &Error) -> bool {
    let mut cur: &dyn std::error::Error = e;
    while let Some(next) = cur.source() {
        cur = next;
    }
    match cur.downcast_ref::<Error>() {
        Some(me) => me.kind() == minijinja::ErrorKind::OutOfFuel,
        None => false,
    }
}

/// a Rust callback that recovers from the error of a nested evaluation
fn swallow(state: &mut State, r: Result<String, Error>) -> String {
    match r {
        Ok(s) => s,
        Err(e) => {
            let lv = state.fuel_levels();
            let oof = root_is_out_of_fuel(&e);
            REC.with(|r| {
                let mut r = r.borrow_mut();
                r.swallowed += 1;
                if oof && lv.map_or(true, |x| x.1 != 0) {
                    r.sticky_bad += 1;
                }
                let c = r.count;
                r.probes.push((c, lv));
            });
            "FALLBACK".to_string()
        }
    }
}

/// `{{ try_macro('m') }}`: `call_macro(..).unwrap_or(fallback)`
fn try_macro(state: &mut State, name: String) -> String {
    let r = state.call_macro(&name, &[]);
    swallow(state, r)
}

/// `{{ try_block('a') }}`: `render_block(..).unwrap_or(fallback)`
fn try_block(state: &mut State, name: String) -> String {
    let r = state.render_block(&name);
    swallow(state, r)
}

/// `{{ try_apply(m, x) }}`: `value.call(..)` with the error swallowed
fn try_apply(state: &mut State, f: Value, x: Value) -> String {
    let r = f.call(state, &[x]).map(|v| v.to_string());
    swallow(state, r)
}

/// `{{ dbgstate() }}` / `{{ dbgstate(true) }}`: a Rust callable that formats the `State`
fn dbgstate(state: &State, pretty: Option<bool>) -> String {
    if pretty.unwrap_or(false) {
        format!("{state:#?}")
    } else {
        format!("{state:?}")
    }
}

/// `{{ dbgenv() }}`: a Rust callable that formats the `Environment`
fn dbgenv(state: &State) -> String {
    format!("{:?}", state.env())
}

/// `{{ rblock('a') }}`: `State::render_block` from a Rust function
fn rblock(state: &mut State, name: String) -> Result<Value, Error> {
    state.render_block(&name).map(Value::from)
}

/// `{{ cmacro('m') }}`: `State::call_macro` from a Rust function
fn cmacro(state: &mut State, name: String) -> Result<Value, Error> {
    state.call_macro(&name, &[]).map(Value::from)
}

/// test `x is t_macro('m')` / `xs|select('t_macro', 'm')`: a Rust test that re-enters the VM
fn t_macro(state: &mut State, v: Value, name: String) -> Result<bool, Error> {
    state.call_macro(&name, &[v]).map(|s| !s.is_empty())
}

fn t_block(state: &mut State, _v: Value, name: String) -> Result<bool, Error> {
    state.render_block(&name).map(|s| !s.is_empty())
}

/// filter `x|f_macro('m')` / `xs|map('f_macro', 'm')`: a Rust filter that re-enters the VM
fn f_macro(state: &mut State, v: Value, name: String) -> Result<String, Error> {
    state.call_macro(&name, &[v])
}

fn f_block(state: &mut State, v: Value, name: String) -> Result<String, Error> {
    state.render_block(&name).map(|s| format!("{}{}", v, s))
}

/// `{{ af('f_macro', 1, 'm') }}`: `State::apply_filter` from a Rust function
fn af(state: &mut State, filter: String, v: Value, arg: Value) -> Result<Value, Error> {
    state.apply_filter(&filter, &[v, arg])
}

fn af3(state: &mut State, filter: String, v: Value, a: Value, b: Value) -> Result<Value, Error> {
    state.apply_filter(&filter, &[v, a, b])
}

/// `{{ pt('t_macro', 1, 'm') }}`: `State::perform_test` from a Rust function
fn pt(state: &mut State, test: String, v: Value, arg: Value) -> Result<bool, Error> {
    state.perform_test(&test, &[v, arg])
}

/// `{{ obj('m') }}` / `{{ obj.run('m') }}`: an object whose call and method re-enter the VM
#[derive(Debug)]
struct ReObj;

impl minijinja::value::Object for ReObj {
    fn call(self: &std::sync::Arc<Self>, state: &mut State<'_, '_>, args: &[Value]) -> Result<Value, Error> {
        let name = args.first().and_then(|v| v.as_str()).unwrap_or("m").to_string();
        state.call_macro(&name, &[Value::from(1)]).map(Value::from)
    }

    fn call_method(self: &std::sync::Arc<Self>, state: &mut State<'_, '_>, method: &str, args: &[Value]) -> Result<Value, Error> {
        if method == "run" {
            let name = args.first().and_then(|v| v.as_str()).unwrap_or("m").to_string();
            state.call_macro(&name, &[Value::from(2)]).map(Value::from)
        } else {
            Err(Error::from(minijinja::ErrorKind::UnknownMethod))
        }
    }
}

/// render-local extension used by the API stream
struct ApiCounter(usize);

/// every public method of `State`, by name; the evaluating ones enter a nested evaluation
fn api_call(state: &mut State, method: &str, arg: &str) -> Result<String, Error> {
    Ok(match method {
        "env" => state.env().debug().to_string(),
        "name" => state.name().to_string(),
        "auto_escape" => format!("{:?}", state.auto_escape()),
        "undefined_behavior" => format!("{:?}", state.undefined_behavior()),
        "current_block" => format!("{:?}", state.current_block()),
        "lookup" => format!("{:?}", state.lookup(arg).map(|v| v.kind())),
        "exports" => state.exports().len().to_string(),
        "known_variables" => (state.known_variables().len() > 3).to_string(),
        "get_template" => state.get_template(arg).map(|t| t.name().to_string())?,
        "fuel_levels" => {
            let _ = state.fuel_levels();
            String::new()
        }
        "temps" => {
            let old = state.set_temp(arg, Value::from(1));
            format!("{:?}{:?}", old.is_some(), state.get_temp(arg).is_some())
        }
        "extension" => {
            state.get_or_insert_extension(ApiCounter(0)).0 += 1;
            state.get_or_insert_extension_with(|| ApiCounter(100)).0 += 1;
            if let Some(c) = state.get_extension_mut::<ApiCounter>() {
                c.0 += 1;
            }
            state.get_extension::<ApiCounter>().map_or(0, |c| c.0 % 3).to_string()
        }
        "call_macro" => state.call_macro(arg, &[])?,
        "render_block" => state.render_block(arg)?,
        "render_block_to_write" => {
            let mut buf: Vec<u8> = vec![];
            state.render_block_to_write(arg, &mut buf)?;
            String::from_utf8_lossy(&buf).to_string()
        }
        "apply_filter" => state.apply_filter("f_macro", &[Value::from(1), Value::from(arg)])?.to_string(),
        "apply_filter_block" => state.apply_filter("f_block", &[Value::from(1), Value::from(arg)])?.to_string(),
        "perform_test" => state.perform_test("t_macro", &[Value::from(1), Value::from(arg)])?.to_string(),
        "perform_test_block" => state.perform_test("t_block", &[Value::from(1), Value::from(arg)])?.to_string(),
        "format" => state.format(Value::from(arg))?,
        "value_call" => {
            let f = state.lookup(arg).ok_or_else(|| Error::from(minijinja::ErrorKind::UnknownFunction))?;
            f.call(state, &[])?.to_string()
        }
        "object_method" => Value::from_object(ReObj).call_method(state, "run", &[Value::from(arg)])?.to_string(),
        _ => return Err(Error::new(minijinja::ErrorKind::InvalidOperation, "harness: unknown api method")),
    })
}

fn api_probe(state: &State) {
    let lv = state.fuel_levels();
    REC.with(|r| {
        let mut r = r.borrow_mut();
        let c = r.count;
        r.probes.push((c, lv));
    });
}

/// `{{ api('render_block', 'a') }}`: one public `State` method called from inside the running
/// render, with the levels recorded right before and right after
fn api(state: &mut State, method: String, arg: String) -> Result<String, Error> {
    api_probe(state);
    let rv = api_call(state, &method, &arg);
    api_probe(state);
    rv
}

/// `{{ api_retry('call_macro', 'm', 'render_block', 'a') }}`: a Rust callback that recovers from a
/// failing nested evaluation by trying another one.  When the first ran out of fuel the tank is
/// empty: the second must be refused as well (it costs something).
fn api_retry(state: &mut State, m1: String, a1: String, m2: String, a2: String) -> String {
    match api_call(state, &m1, &a1) {
        Ok(s) => s,
        Err(e1) => {
            let oof = root_is_out_of_fuel(&e1);
            let lv = state.fuel_levels();
            api_probe(state);
            let second = api_call(state, &m2, &a2);
            let lv2 = state.fuel_levels();
            api_probe(state);
            REC.with(|r| {
                let mut r = r.borrow_mut();
                r.swallowed += 1;
                if oof && (lv.map_or(true, |x| x.1 != 0) || lv2.map_or(true, |x| x.1 != 0) || second.is_ok()) {
                    r.sticky_bad += 1;
                }
            });
            match second {
                Ok(s) => format!("RETRIED:{s}"),
                Err(_) => "FALLBACK2".to_string(),
            }
        }
    }
}

#[derive(Clone, PartialEq, Debug)]
enum Outcome {
    /// output, Debug form of the `Captured` (contains the state)
    Ok(String, String),
    Err(String, String),
    Panic(String),
}

#[derive(Clone, PartialEq, Debug)]
struct RunOut {
    outcome: Outcome,
    levels: Option<(u64, u64)>,
    n: usize,
    mismatch: bool,
    probes: Vec<(usize, Option<(u64, u64)>)>,
    sticky_bad: usize,
    swallowed: usize,
}

/// the chain of kinds from the reported error down to its root cause (`source()`), and every
/// text form of the error: Display, alternate Display (with debug info), Debug
fn err_outcome(e: &Error) -> Outcome {
    let mut kinds = vec![format!("{:?}", e.kind())];
    let mut msgs = vec![e.to_string(), format!("{:#}", e), format!("{:?}", e)];
    let mut cur: &dyn std::error::Error = e;
    while let Some(next) = cur.source() {
        match next.downcast_ref::<Error>() {
            Some(me) => kinds.push(format!("{:?}", me.kind())),
            None => kinds.push("Foreign".to_string()),
        }
        msgs.push(next.to_string());
        cur = next;
    }
    Outcome::Err(kinds.join(">"), msgs.join(" <- "))
}

fn build_env(prog: &Prog) -> Result<Environment<'static>, String> {
    build_env_variant(prog, "")
}

const VARIANTS: [&str; 8] = ["debug_off", "undefined_chainable", "undefined_semistrict", "formatter", "autoescape_html",
                             "autoescape_none", "whitespace", "recursion_limit"];

/// the same program in an environment with other settings that do not change what it executes
/// (when they do, the traces differ and only the general oracle applies)
fn build_env_variant(prog: &Prog, variant: &str) -> Result<Environment<'static>, String> {
    let mut env = Environment::new();
    match variant {
        "debug_off" => env.set_debug(false),
        "undefined_chainable" => env.set_undefined_behavior(minijinja::UndefinedBehavior::Chainable),
        "undefined_semistrict" => env.set_undefined_behavior(minijinja::UndefinedBehavior::SemiStrict),
        "formatter" => env.set_formatter(|out, state, value| minijinja::escape_formatter(out, state, value)),
        "autoescape_html" => env.set_auto_escape_callback(|_| minijinja::AutoEscape::Html),
        "autoescape_none" => env.set_auto_escape_callback(|_| minijinja::AutoEscape::None),
        "whitespace" => {
            env.set_keep_trailing_newline(true);
            env.set_trim_blocks(true);
            env.set_lstrip_blocks(true);
        }
        "recursion_limit" => env.set_recursion_limit(120),
        _ => {}
    }
    env.add_function("probe", probe);
    env.add_function("apply", apply);
    env.add_function("rblock", rblock);
    env.add_function("cmacro", cmacro);
    env.add_test("t_macro", t_macro);
    env.add_test("t_block", t_block);
    env.add_filter("f_macro", f_macro);
    env.add_filter("f_block", f_block);
    env.add_function("af", af);
    env.add_function("pt", pt);
    env.add_function("af3", af3);
    env.add_global("obj", Value::from_object(ReObj));
    if prog.reenter_formatter {
        // a formatter that re-enters the VM for one marker value
        env.set_formatter(|out, state, value| {
            if value.as_str() == Some("FMT") {
                let s = state.call_macro("fm", &[])?;
                return minijinja::escape_formatter(out, state, &Value::from(s));
            }
            minijinja::escape_formatter(out, state, value)
        });
    }
    env.add_function("api", api);
    env.add_function("api_retry", api_retry);
    // `{{ 1.reenter('m') }}`: the unknown-method callback re-enters the VM
    env.set_unknown_method_callback(|state, _value, method, args| {
        if method == "reenter" {
            let name = args.first().and_then(|v| v.as_str()).unwrap_or("m").to_string();
            state.call_macro(&name, &[Value::from(3)]).map(Value::from)
        } else {
            Err(Error::from(minijinja::ErrorKind::UnknownMethod))
        }
    });
    env.add_function("dbgstate", dbgstate);
    env.add_function("dbgenv", dbgenv);
    env.add_function("try_macro", try_macro);
    env.add_function("try_block", try_block);
    env.add_function("try_apply", try_apply);
    if prog.mode != "expr" {
        for (name, src) in &prog.templates {
            env.add_template_owned(name.clone(), src.clone())
                .map_err(|e| format!("{:?}: {}", e.kind(), e))?;
        }
    }
    Ok(env)
}

fn run(env: &mut Environment<'static>, prog: &Prog, fuel: Option<u64>, collect: bool) -> RunOut {
    env.set_fuel(fuel);
    REC.with(|r| {
        let mut r = r.borrow_mut();
        r.collect = collect;
        r.count = 0;
        r.mismatch = false;
        r.sticky_bad = 0;
        r.swallowed = 0;
        r.probes.clear();
        if collect {
            r.trace.clear();
        }
    });
    let ctx = Value::from(Serde(&prog.ctx));
    let env_ref: &Environment<'static> = env;
    // the post calls run on a state that survives a failing call: the levels are read in any case
    let res = guarded(|| -> (Result<(String, String), Error>, Option<(u64, u64)>) {
        let mut lv_out = None;
        let r = (|| -> Result<(String, String), Error> {
            if prog.mode == "expr" {
                let e = env_ref.compile_expression(&prog.templates[0].1)?;
                let v = e.eval(ctx)?;
                Ok((format!("{:?}:{}", v.kind(), v), format!("{:?}", v)))
            } else if prog.mode == "new_state" || prog.mode == "empty_state" {
                let t;
                let mut st = if prog.mode == "new_state" {
                    t = env_ref.get_template(&prog.templates[0].0)?;
                    t.new_state()
                } else {
                    env_ref.empty_state()
                };
                let mut out = String::new();
                let mut failed = None;
                api_probe(&st);
                for (m, a) in &prog.post {
                    match api_call(&mut st, m, a) {
                        Ok(s) => {
                            out.push_str(&s);
                            out.push('|');
                        }
                        Err(e) => {
                            failed = Some(e);
                            break;
                        }
                    }
                    api_probe(&st);
                }
                lv_out = Some(st.fuel_levels());
                match failed {
                    Some(e) => Err(e),
                    None => Ok((out, format!("{:?}", st))),
                }
            } else {
                let t = env_ref.get_template(&prog.templates[0].0)?;
                let mut cap = t.render_captured(ctx)?;
                let mut out = cap.output().to_string();
                let mut failed = None;
                for (m, a) in &prog.post {
                    let r = cap.with_state_mut(|st| {
                        let r = api_call(st, m, a);
                        api_probe(st);
                        r
                    });
                    match r {
                        Ok(s) => {
                            out.push('|');
                            out.push_str(&s);
                        }
                        Err(e) => {
                            failed = Some(e);
                            break;
                        }
                    }
                }
                lv_out = Some(cap.state().fuel_levels());
                match failed {
                    Some(e) => Err(e),
                    None => Ok((out, format!("{:?}", cap))),
                }
            }
        })();
        (r, lv_out.flatten())
    });
    let (outcome, levels) = match res {
        Ok((Ok((s, d)), lv)) => (Outcome::Ok(s, d), lv),
        Ok((Err(e), lv)) => (err_outcome(&e), lv),
        Err(msg) => (Outcome::Panic(msg), None),
    };
    REC.with(|r| {
        let r = r.borrow();
        RunOut { outcome, levels, n: r.count, mismatch: r.mismatch, probes: r.probes.clone(), sticky_bad: r.sticky_bad, swallowed: r.swallowed }
    })
}

fn tag(o: &Outcome, target: &Outcome) -> String {
    if o == target {
        return "same".into();
    }
    match o {
        Outcome::Ok(s, _) => match target {
            Outcome::Ok(s2, _) if s == s2 => "diff-captured-debug".into(),
            _ => "diff-output".into(),
        },
        Outcome::Err(k, m) => match target {
            Outcome::Err(k2, _) if k == k2 => format!("err:{}:diff-message:{}", k, m),
            _ => format!("err:{}", k),
        },
        Outcome::Panic(m) => format!("panic:{}", m),
    }
}

/// other ways to run the same program; the budget semantics must be the same
const TEMPLATE_ENTRIES: [&str; 10] = [
    "render", "render_captured_to", "render_str", "render_named_str", "template_from_str.render",
    "template_from_named_str.render_captured", "clone.render", "clone_then_change_original", "set_other_then_this",
    "set_this_then_none",
];
const EXPR_ENTRIES: [&str; 3] = ["compile_expression_owned.eval", "clone.compile_expression.eval", "set_this_then_none"];

fn run_entry(env: &mut Environment<'static>, prog: &Prog, entry: &str, fuel: Option<u64>) -> RunOut {
    REC.with(|r| {
        let mut r = r.borrow_mut();
        r.cache.clear(); // temporary templates reuse addresses
        r.collect = false;
        r.count = 0;
        r.mismatch = false;
        r.sticky_bad = 0;
        r.swallowed = 0;
        r.probes.clear();
    });
    let ctx = Value::from(Serde(&prog.ctx));
    let name = prog.templates[0].0.clone();
    let src = prog.templates[0].1.clone();
    let is_expr = prog.mode == "expr";
    // configuration path
    let mut other: Option<Environment<'static>> = None;
    match entry {
        "set_other_then_this" => {
            env.set_fuel(Some(1));
            env.set_fuel(None);
            env.set_fuel(fuel);
        }
        "set_this_then_none" => {
            env.set_fuel(fuel);
            env.set_fuel(None);
        }
        "clone_then_change_original" => {
            env.set_fuel(fuel);
            other = Some(env.clone());
            env.set_fuel(Some(0));
        }
        "clone.render" | "clone.compile_expression.eval" => {
            env.set_fuel(fuel);
            other = Some(env.clone());
        }
        _ => env.set_fuel(fuel),
    }
    let e: &Environment<'static> = other.as_ref().unwrap_or(env);
    let show = |v: Value| format!("{:?}:{}", v.kind(), v);
    let res = guarded(|| -> Result<(String, Option<(u64, u64)>), Error> {
        if is_expr {
            return match entry {
                "compile_expression_owned.eval" => e.compile_expression_owned(src.clone())?.eval(ctx).map(|v| (show(v), None)),
                _ => e.compile_expression(&src)?.eval(ctx).map(|v| (show(v), None)),
            };
        }
        match entry {
            "render_captured_to" => {
                let mut buf: Vec<u8> = vec![];
                let cap = e.get_template(&name)?.render_captured_to(ctx, &mut buf)?;
                let lv = cap.state().fuel_levels();
                Ok((String::from_utf8_lossy(&buf).to_string() + cap.output(), lv))
            }
            "render_str" => e.render_str(&src, ctx).map(|s| (s, None)),
            "render_named_str" => e.render_named_str(&name, &src, ctx).map(|s| (s, None)),
            "template_from_str.render" => e.template_from_str(&src)?.render(ctx).map(|s| (s, None)),
            "template_from_named_str.render_captured" => {
                let cap = e.template_from_named_str(&name, &src)?.render_captured(ctx)?;
                let lv = cap.state().fuel_levels();
                Ok((cap.output().to_string(), lv))
            }
            _ => e.get_template(&name)?.render(ctx).map(|s| (s, None)),
        }
    });
    let (outcome, levels) = match res {
        Ok(Ok((s, lv))) => (Outcome::Ok(s, String::new()), lv),
        Ok(Err(e)) => (err_outcome(&e), None),
        Err(msg) => (Outcome::Panic(msg), None),
    };
    REC.with(|r| {
        let r = r.borrow();
        RunOut { outcome, levels, n: r.count, mismatch: r.mismatch, probes: r.probes.clone(), sticky_bad: r.sticky_bad, swallowed: r.swallowed }
    })
}

/// `Template::new_state()` + `State::render_block(name)`: an evaluation of its own
fn run_block_entry(env: &mut Environment<'static>, prog: &Prog, block: &str, fuel: Option<u64>, collect: bool) -> RunOut {
    env.set_fuel(fuel);
    REC.with(|r| {
        let mut r = r.borrow_mut();
        r.collect = collect;
        r.count = 0;
        r.mismatch = false;
        r.sticky_bad = 0;
        r.swallowed = 0;
        r.probes.clear();
        if collect {
            r.trace.clear();
        }
    });
    let e: &Environment<'static> = env;
    let res = guarded(|| -> Result<(Result<String, Error>, Option<(u64, u64)>), Error> {
        let t = e.get_template(&prog.templates[0].0)?;
        let mut st = t.new_state();
        let out = st.render_block(block);
        let lv = st.fuel_levels();
        Ok((out, lv))
    });
    let (outcome, levels) = match res {
        Ok(Ok((Ok(s), lv))) => (Outcome::Ok(s, String::new()), lv),
        Ok(Ok((Err(e), lv))) => (err_outcome(&e), lv),
        Ok(Err(e)) => (err_outcome(&e), None),
        Err(msg) => (Outcome::Panic(msg), None),
    };
    REC.with(|r| {
        let r = r.borrow();
        RunOut { outcome, levels, n: r.count, mismatch: r.mismatch, probes: r.probes.clone(), sticky_bad: r.sticky_bad, swallowed: r.swallowed }
    })
}

/// smallest budget in [0, 2^22] for which `f` gives the target (assuming monotonicity)
fn bisect(mut same: impl FnMut(u64) -> bool) -> Option<u64> {
    if same(0) {
        return Some(0);
    }
    let mut hi: u64 = 1;
    while !same(hi) {
        hi *= 2;
        if hi > (1 << 22) {
            return None;
        }
    }
    let mut lo = hi / 2;
    while hi - lo > 1 {
        let mid = lo + (hi - lo) / 2;
        if same(mid) {
            hi = mid;
        } else {
            lo = mid;
        }
    }
    Some(hi)
}

fn few_budgets(thr: u64) -> Vec<u64> {
    let mut b = vec![0, thr.saturating_sub(1), thr, thr + 5, 1 << 63, u64::MAX];
    b.sort();
    b.dedup();
    b
}

fn extras(env: &mut Environment<'static>, prog: &Prog, thr: u64, t0: &[u16], res: &mut serde_json::Value) {
    // --- entry points and configuration path (same trace, hence the same threshold)
    let mut entries = vec![];
    let list: &[&str] = if prog.mode == "expr" { &EXPR_ENTRIES } else { &TEMPLATE_ENTRIES };
    for entry in list {
        REC.with(|r| r.borrow_mut().reference = t0.to_vec());
        let target = run_entry(env, prog, entry, None);
        if matches!(target.outcome, Outcome::Panic(_)) {
            continue;
        }
        let mut runs = vec![];
        for b in few_budgets(thr) {
            let r = run_entry(env, prog, entry, Some(b));
            runs.push(json!([b, tag(&r.outcome, &target.outcome), r.levels.map(|x| x.0), r.levels.map(|x| x.1), r.n, r.mismatch as u8]));
        }
        entries.push(json!({"name": entry, "unmetered": *entry == "set_this_then_none",
                            "lv": matches!(*entry, "render_captured_to" | "template_from_named_str.render_captured"),
                            "unl_n": target.n, "unl_mismatch": target.mismatch, "runs": runs}));
    }
    res["entries"] = json!(entries);
    REC.with(|r| r.borrow_mut().cache.clear());

    // --- blocks rendered through a stand-alone state
    let mut blocks = vec![];
    if prog.mode == "template" {
        let names: Vec<String> = match env.get_template(&prog.templates[0].0) {
            Ok(t) => get_compiled_template(&t).blocks.keys().map(|k| k.to_string()).collect(),
            Err(_) => vec![],
        };
        for name in names.iter().take(3) {
            let u = run_block_entry(env, prog, name, None, true);
            if matches!(u.outcome, Outcome::Panic(_)) {
                continue;
            }
            let tb: Vec<u16> = REC.with(|r| r.borrow().trace.clone());
            REC.with(|r| r.borrow_mut().reference = tb.clone());
            let names_tbl: Vec<String> = REC.with(|r| r.borrow().names.clone());
            let trace: Vec<&str> = tb.iter().map(|i| names_tbl[*i as usize].as_str()).collect();
            let target = u.outcome.clone();
            let bthr = bisect(|b| run_block_entry(env, prog, name, Some(b), false).outcome == target);
            let mut runs = vec![];
            if let Some(bthr) = bthr {
                let mut bs: Vec<u64> = (0..=bthr.min(60) + 3).collect();
                bs.extend(few_budgets(bthr));
                bs.sort();
                bs.dedup();
                for b in bs {
                    let r = run_block_entry(env, prog, name, Some(b), false);
                    runs.push(json!([b, tag(&r.outcome, &target), r.levels.map(|x| x.0), r.levels.map(|x| x.1), r.n, r.mismatch as u8]));
                }
            }
            blocks.push(json!({"name": name, "thr": bthr, "trace": trace.join(" "), "runs": runs, "unl_ok": matches!(target, Outcome::Ok(..))}));
        }
    }
    res["blocks"] = json!(blocks);
    REC.with(|r| r.borrow_mut().reference = t0.to_vec());

    // --- the same program under other environment settings
    let mut variants = vec![];
    for v in VARIANTS {
        let Ok(mut env2) = build_env_variant(prog, v) else { continue };
        REC.with(|r| r.borrow_mut().cache.clear());
        let u = run(&mut env2, prog, None, true);
        if matches!(u.outcome, Outcome::Panic(_)) {
            continue;
        }
        let tv: Vec<u16> = REC.with(|r| r.borrow().trace.clone());
        let same_trace = tv == t0;
        REC.with(|r| r.borrow_mut().reference = tv.clone());
        let names_tbl: Vec<String> = REC.with(|r| r.borrow().names.clone());
        let trace: Vec<&str> = tv.iter().map(|i| names_tbl[*i as usize].as_str()).collect();
        let target = u.outcome.clone();
        let vthr = bisect(|b| {
            let t = tag(&run(&mut env2, prog, Some(b), false).outcome, &target);
            t == "same" || t == "diff-captured-debug"
        });
        let mut runs = vec![];
        if let Some(vthr) = vthr {
            for b in few_budgets(vthr) {
                let r = run(&mut env2, prog, Some(b), false);
                runs.push(json!([b, tag(&r.outcome, &target), r.levels.map(|x| x.0), r.levels.map(|x| x.1), r.n, r.mismatch as u8]));
            }
        }
        variants.push(json!({"name": v, "same_trace": same_trace, "unl_ok": matches!(target, Outcome::Ok(..)), "trace": if same_trace { String::new() } else { trace.join(" ") },
                             "thr": vthr, "runs": runs}));
    }
    res["variants"] = json!(variants);
    REC.with(|r| {
        let mut r = r.borrow_mut();
        r.cache.clear();
        r.reference = t0.to_vec();
    });
}

const EXTREMES: [u64; 15] = [
    // the boundaries of narrower integer types and of exact f64 integers (a budget or a level that
    // passes through such a type somewhere wraps, truncates or rounds there)
    (1 << 16) - 1,
    1 << 16,
    (1 << 16) + 1,
    1 << 24,
    (1 << 31) - 1,
    1 << 31,
    (1 << 32) - 1,
    1 << 32,
    (1 << 32) + 1,
    (1 << 53) + 1,
    (1 << 63) - 1,
    1 << 63,
    (1 << 63) + 1,
    u64::MAX - 1,
    u64::MAX,
];

fn run_prog(prog: &Prog, thorough: bool, with_extras: bool) -> serde_json::Value {
    REC.with(|r| {
        let mut r = r.borrow_mut();
        r.cache.clear();
        r.reference.clear();
    });
    let mut env = match build_env(prog) {
        Ok(env) => env,
        Err(e) => return json!({"compile_error": e}),
    };
    // unlimited, twice
    let u1 = run(&mut env, prog, None, true);
    let t1: Vec<u16> = REC.with(|r| r.borrow().trace.clone());
    let u2 = run(&mut env, prog, None, true);
    let t2: Vec<u16> = REC.with(|r| r.borrow().trace.clone());
    let unl_same = u1.outcome == u2.outcome && t1 == t2;
    REC.with(|r| r.borrow_mut().reference = t1.clone());
    let target = u1.outcome.clone();
    let names: Vec<String> = REC.with(|r| r.borrow().names.clone());
    let trace_names: Vec<&str> = t1.iter().map(|i| names[*i as usize].as_str()).collect();

    let stat: Vec<String> = if prog.mode == "template" {
        match env.get_template(&prog.templates[0].0) {
            Ok(t) => {
                let ct = get_compiled_template(&t);
                let mut v = vec![];
                let mut i = 0u32;
                while let Some(ins) = ct.instructions.get(i) {
                    v.push(instr_name(ins));
                    i += 1;
                }
                v
            }
            Err(_) => vec![],
        }
    } else {
        vec![]
    };

    let static_full: Vec<serde_json::Value> = if prog.skel.is_some() {
        match env.get_template(&prog.templates[0].0) {
            Ok(t) => {
                let ct = get_compiled_template(&t);
                let mut v = vec![];
                let mut i = 0u32;
                while let Some(ins) = ct.instructions.get(i) {
                    v.push(serde_json::to_value(ins).unwrap_or(json!(null)));
                    i += 1;
                }
                v
            }
            Err(_) => vec![],
        }
    } else {
        vec![]
    };
    let unl = match &target {
        Outcome::Ok(s, _) => json!({"t": "ok", "out": s}),
        Outcome::Err(k, m) => json!({"t": "err", "kind": k, "msg": m}),
        Outcome::Panic(m) => json!({"t": "panic", "msg": m}),
    };
    let mut res = json!({
        "unl": unl, "unl_repeat_same": unl_same, "trace": trace_names.join(" "),
        "static": stat, "ntemplates": prog.templates.len(),
        "unl_probes": u1.probes.len(),
    });
    if prog.skel.is_some() {
        res["static_full"] = json!(static_full);
    }
    if matches!(target, Outcome::Panic(_)) {
        return res;
    }

    // threshold by bisection (assumes monotone; the scan below checks it)
    let same = |env: &mut Environment<'static>, b: u64| {
        // the threshold is located on the result proper; a Debug form of the captured state that
        // differs is reported by the scan as its own finding
        let t = tag(&run(env, prog, Some(b), false).outcome, &target);
        t == "same" || t == "diff-captured-debug"
    };
    let mut hi: u64 = 1;
    let mut found = same(&mut env, 0);
    let thr: Option<u64> = if found {
        Some(0)
    } else {
        while !same(&mut env, hi) {
            hi *= 2;
            if hi > (1 << 22) {
                break;
            }
        }
        if hi > (1 << 22) {
            None
        } else {
            found = true;
            let mut lo = hi / 2; // fails (or 0 which fails)
            while hi - lo > 1 {
                let mid = lo + (hi - lo) / 2;
                if same(&mut env, mid) {
                    hi = mid;
                } else {
                    lo = mid;
                }
            }
            Some(hi)
        }
    };
    let _ = found;
    res["thr"] = json!(thr);
    let Some(thr) = thr else {
        // what a very large budget gives instead (e.g. an output that depends on the budget)
        let big = run(&mut env, prog, Some(1 << 40), false);
        let big2 = run(&mut env, prog, Some((1 << 40) + 1), false);
        res["no_thr_tag"] = json!(tag(&big.outcome, &target));
        res["no_thr_budget_dependent"] = json!(big.outcome != big2.outcome);
        return res;
    };

    // budgets to scan
    let mut budgets: Vec<u64> = vec![];
    let mut partial = false;
    if thr <= 1500 {
        budgets.extend(0..=thr + 8);
    } else {
        partial = true;
        budgets.extend(0..=64);
        let mut rng = Rng::new(seed_from_env() ^ thr);
        for _ in 0..200 {
            budgets.push(65 + rng.below(thr - 130));
        }
        budgets.extend(thr - 64..=thr + 8);
    }
    if thorough {
        let mut rng = Rng::new(seed_from_env() ^ (thr << 8));
        for _ in 0..16 {
            budgets.push(thr + 9 + rng.below(1 << 20));
            budgets.push((rng.next() | (1 << 63)) as u64);
            budgets.push(rng.next() >> rng.below(40));
        }
    }
    budgets.extend(EXTREMES);
    budgets.sort();
    budgets.dedup();
    res["partial_scan"] = json!(partial);

    let pb = thr + 5;
    let mut runs = vec![];
    let mut probes_pb = vec![];
    for &b in &budgets {
        let r = run(&mut env, prog, Some(b), false);
        let mut pbad = 0;
        let mut pmono = true;
        let mut last = 0u64;
        for (_, lv) in &r.probes {
            match lv {
                Some((c, rem)) => {
                    if c.checked_add(*rem) != Some(b) {
                        pbad += 1;
                    }
                    if *c < last {
                        pmono = false;
                    }
                    last = *c;
                }
                None => pbad += 1,
            }
        }
        if let Some((c, _)) = r.levels {
            if c < last {
                pmono = false;
            }
        }
        if b == pb {
            probes_pb = r.probes.iter().map(|(k, lv)| json!([k, lv.map(|x| x.0), lv.map(|x| x.1)])).collect();
        }
        runs.push(json!([b, tag(&r.outcome, &target), r.levels.map(|x| x.0), r.levels.map(|x| x.1),
                         r.n, r.mismatch as u8, r.probes.len(), pbad, pmono as u8, r.swallowed, r.sticky_bad]));
    }
    res["runs"] = json!(runs);
    res["pb"] = json!(pb);
    res["probes"] = json!(probes_pb);

    // repetition: the same budget gives the same everything
    let mut rep = "ok".to_string();
    for b in [thr, thr + 3, thr.saturating_sub(1), 1 << 63] {
        let a = run(&mut env, prog, Some(b), false);
        let c = run(&mut env, prog, Some(b), false);
        // a fresh environment as well; the Debug forms of the environment list the templates in
        // the order of a randomly seeded hash map, so the fresh environment's render is compared
        // with the fresh environment's own unlimited render
        let fresh_ok = match build_env(prog) {
            Ok(mut env2) => {
                REC.with(|r| r.borrow_mut().cache.clear());
                let u = run(&mut env2, prog, None, true);
                let d = run(&mut env2, prog, Some(b), false);
                REC.with(|r| r.borrow_mut().cache.clear());
                tag(&d.outcome, &u.outcome) == tag(&a.outcome, &target) && d.levels == a.levels && d.n == a.n
            }
            Err(_) => true,
        };
        if a != c || !fresh_ok {
            rep = format!("diff:{}", b);
            break;
        }
        // the plain `render` entry point agrees with `render_captured`
        if prog.mode == "template" && prog.post.is_empty() {
            env.set_fuel(Some(b));
            let ctx = Value::from(Serde(&prog.ctx));
            let env_ref: &Environment<'static> = &env;
            let plain = guarded(|| env_ref.get_template(&prog.templates[0].0).and_then(|t| t.render(ctx)));
            let agrees = match (&plain, &a.outcome) {
                (Ok(Ok(s)), Outcome::Ok(s2, _)) => s == s2,
                (Ok(Err(e)), Outcome::Err(k, _)) => k.split('>').next() == Some(format!("{:?}", e.kind()).as_str()),
                (Err(_), Outcome::Panic(_)) => true,
                _ => false,
            };
            if !agrees {
                rep = format!("render-vs-render_captured:{}", b);
                break;
            }
        }
    }
    res["rep"] = json!(rep);
    if with_extras && !matches!(target, Outcome::Panic(_)) && prog.post.is_empty() && (prog.mode == "template" || prog.mode == "expr") {
        extras(&mut env, prog, thr, &t1, &mut res);
    }
    res
}

// ------------------------------------------------------------------------------------------------
// program families

fn default_ctx() -> serde_json::Value {
    json!({
        "xs": [1, 2, 3], "n": 3, "c": true, "d": false, "name": "World", "a": 7, "b": 5,
        "s": "<b>hi</b>", "items": [{"a": 1, "b": "x"}, {"a": 2, "b": "y"}, {"a": 3, "b": "z"}],
        "tree": [{"v": 1, "ch": [{"v": 2, "ch": []}, {"v": 3, "ch": [{"v": 4, "ch": []}]}]}],
        "empty": [],
    })
}

fn prog(id: &str, group: &str, k: i64, tpls: &[(&str, String)]) -> Prog {
    Prog {
        id: id.to_string(),
        group: group.to_string(),
        k,
        mode: "template".into(),
        templates: tpls.iter().map(|(n, s)| (n.to_string(), s.clone())).collect(),
        ctx: default_ctx(),
        swallow: false,
        reenter_formatter: false,
        post: vec![],
        skel: None,
    }
}

fn single(id: &str, src: &str) -> Prog {
    prog(id, "", 0, &[("main", src.to_string())])
}

fn expr(id: &str, src: &str) -> Prog {
    let mut p = single(id, src);
    p.mode = "expr".into();
    p
}

fn work(k: i64) -> String {
    "{{ 1 }}".repeat(k as usize)
}


/// every syntactic position in which the value of a nested evaluation `e` can be demanded
/// (statement/emit position and expression/captured positions)
fn positions(e: &str) -> Vec<(&'static str, String)> {
    vec![
        ("emit", format!("{{{{ {e} }}}}")),
        ("filter", format!("{{{{ {e}|upper }}}}")),
        ("set", format!("{{% set x = {e} %}}{{{{ x }}}}{{{{ x }}}}")),
        ("concat", format!("{{{{ {e} ~ \"x\" }}}}")),
        ("if", format!("{{% if {e} %}}y{{% else %}}n{{% endif %}}")),
        ("setblock", format!("{{% set x %}}{{{{ {e} }}}}{{% endset %}}{{{{ x }}}}{{{{ x }}}}")),
        ("filterblock", format!("{{% filter upper %}}{{{{ {e} }}}}{{% endfilter %}}")),
        ("list", format!("{{{{ [{e}, {e}]|join(\"-\") }}}}")),
        ("test", format!("{{{{ {e} is string }}}}{{{{ {e}|length }}}}")),
        ("ternary", format!("{{{{ {e} if c else 'n' }}}}{{{{ 'n' if d else {e} }}}}")),
        ("with", format!("{{% with q = {e} %}}{{{{ q }}}}{{% endwith %}}")),
        ("arg", format!("{{{{ 'z'|default({e}) }}}}{{{{ dict(v={e}).v }}}}")),
        ("twice-in-loop", format!("{{% for i in range(2) %}}{{{{ {e}|lower }}}}{{% endfor %}}")),
    ]
}

/// nested-evaluation edges x positions x work parameter k (placed inside the nested body together
/// with a `probe()`; another `probe()` follows in the caller)
fn edge_programs(v: &mut Vec<Prog>) {
    for k in 0..=3 {
        let w = work(k);
        let mut add = |edge: &str, pos: &str, tpls: &[(&str, String)]| {
            v.push(prog(&format!("edge:{}:{}:{}", edge, pos, k), &format!("edge-{}-{}", edge, pos), k, tpls));
        };
        for (pos, p) in positions("m()") {
            add("macro", pos, &[("main", format!("{{% macro m() %}}n{w}{{{{ probe() }}}}{{% endmacro %}}{p}{{{{ probe() }}}}"))]);
        }
        for (pos, p) in positions("lib.m()") {
            add("import", pos, &[("main", format!("{{% import 'lib' as lib %}}{p}{{{{ probe() }}}}")),
                                 ("lib", format!("{{% macro m() %}}n{w}{{{{ probe() }}}}{{% endmacro %}}"))]);
        }
        for (pos, p) in positions("caller()") {
            add("caller", pos, &[("main", format!("{{% macro m() %}}[{p}]{{{{ probe() }}}}{{% endmacro %}}{{% call m() %}}c{w}{{{{ probe() }}}}{{% endcall %}}{{{{ probe() }}}}"))]);
        }
        for (pos, p) in positions("super()") {
            add("super", pos, &[("main", format!("{{% extends 'base' %}}{{% block a %}}[{p}]{{{{ probe() }}}}{{% endblock %}}")),
                                ("base", format!("<{{% block a %}}A{w}{{{{ probe() }}}}{{% endblock %}}>{{{{ probe() }}}}"))]);
            add("super3", pos, &[("main", format!("{{% extends 'mid' %}}{{% block a %}}[{p}]{{{{ probe() }}}}{{% endblock %}}")),
                                 ("mid", format!("{{% extends 'base' %}}{{% block a %}}({p}){{{{ probe() }}}}{{% endblock %}}")),
                                 ("base", format!("<{{% block a %}}A{w}{{{{ probe() }}}}{{% endblock %}}>{{{{ probe() }}}}"))]);
        }
        for (pos, p) in positions("self.a()") {
            add("selfblock", pos, &[("main", format!("{{% block a %}}a{w}{{{{ probe() }}}}{{% endblock %}}|{p}{{{{ probe() }}}}"))]);
        }
        for (pos, p) in positions("rblock('a')") {
            add("render_block", pos, &[("main", format!("{{% block a %}}a{w}{{{{ probe() }}}}{{% endblock %}}|{p}{{{{ probe() }}}}"))]);
        }
        for (pos, p) in positions("cmacro('m')") {
            add("call_macro", pos, &[("main", format!("{{% macro m() %}}n{w}{{{{ probe() }}}}{{% endmacro %}}{p}{{{{ probe() }}}}"))]);
        }
        for (pos, p) in positions("apply(m, 1)") {
            add("apply", pos, &[("main", format!("{{% macro m(x) %}}n{{{{ x }}}}{w}{{{{ probe() }}}}{{% endmacro %}}{p}{{{{ probe() }}}}"))]);
        }
        for (pos, p) in positions("loop(t.ch)") {
            if pos == "twice-in-loop" {
                continue; // `loop` would refer to the inner, non-recursive loop
            }
            add("recurse", pos, &[("main", format!("{{% for t in tree recursive %}}{{{{ t.v }}}}{w}{{{{ probe() }}}}({p}){{% endfor %}}{{{{ probe() }}}}"))]);
        }
        // statements that enter a nested evaluation, in plain and in captured surroundings
        let inc = ("inc", format!("i{{{{ a }}}}{w}{{{{ probe() }}}}"));
        let stmts: Vec<(&str, String, Vec<(&str, String)>)> = vec![
            ("include", "{% include 'inc' %}".to_string(), vec![inc.clone()]),
            ("callblock", format!("{{% call m() %}}c{w}{{{{ probe() }}}}{{% endcall %}}"), vec![]),
            ("fastsuper", "{{ super() }}".to_string(), vec![]),
        ];
        for (edge, stmt, extra) in stmts {
            let surround: Vec<(&str, String)> = vec![
                ("plain", stmt.clone()),
                ("setblock", format!("{{% set x %}}{stmt}{{% endset %}}{{{{ x }}}}{{{{ x|upper }}}}")),
                ("filterblock", format!("{{% filter upper %}}{stmt}{{% endfilter %}}")),
                ("autoescape", format!("{{% autoescape true %}}{stmt}{{% endautoescape %}}")),
                ("loop", format!("{{% for i in range(2) %}}{stmt}{{% endfor %}}")),
                ("with", format!("{{% with a = 2 %}}{stmt}{{% endwith %}}")),
                ("if", format!("{{% if c %}}{stmt}{{% endif %}}")),
                ("setblock-in-loop", format!("{{% for i in range(2) %}}{{% set x %}}{stmt}{{% endset %}}{{{{ x }}}}{{% endfor %}}")),
            ];
            for (pos, body) in surround {
                let mdef = "{% macro m() %}[{{ caller() }}]{% endmacro %}";
                let mut tpls: Vec<(&str, String)> = match edge {
                    "fastsuper" => vec![
                        ("main", format!("{{% extends 'base' %}}{{% block a %}}{body}{{{{ probe() }}}}{{% endblock %}}")),
                        ("base", format!("<{{% block a %}}A{w}{{{{ probe() }}}}{{% endblock %}}>{{{{ probe() }}}}")),
                    ],
                    "callblock" => vec![("main", format!("{mdef}{body}{{{{ probe() }}}}"))],
                    _ => vec![("main", format!("{body}{{{{ probe() }}}}"))],
                };
                tpls.extend(extra.clone());
                add(edge, pos, &tpls);
                if edge == "include" {
                    // the include itself inside a macro, a block, a call body, a parent block
                    let wrap: Vec<(&str, Vec<(&str, String)>)> = vec![
                        ("in-macro", vec![("main", format!("{{% macro mm() %}}{body}{{% endmacro %}}{{{{ mm() }}}}{{{{ mm()|upper }}}}{{{{ probe() }}}}"))]),
                        ("in-block", vec![("main", format!("{{% block b %}}{body}{{% endblock %}}{{{{ self.b()|upper }}}}{{{{ probe() }}}}"))]),
                        ("in-callbody", vec![("main", format!("{mdef}{{% call m() %}}{body}{{% endcall %}}{{{{ probe() }}}}"))]),
                        ("in-parent-block", vec![
                            ("main", "{% extends 'base' %}{% block a %}{{ super()|upper }}{{ super() }}{{ probe() }}{% endblock %}".to_string()),
                            ("base", format!("<{{% block a %}}{body}{{% endblock %}}>{{{{ probe() }}}}"))]),
                    ];
                    for (wname, mut wt) in wrap {
                        wt.extend(extra.clone());
                        add("include", &format!("{}-{}", pos, wname), &wt);
                    }
                }
            }
        }
        // blocks that are themselves rendered inside a capture / filter block of the parent
        add("block", "in-setblock", &[
            ("main", format!("{{% extends 'base' %}}{{% block a %}}c{w}{{{{ probe() }}}}{{% endblock %}}")),
            ("base", "{% set x %}{% block a %}A{% endblock %}{% endset %}[{{ x }}{{ x }}]{{ probe() }}".to_string())]);
        add("block", "in-filterblock", &[
            ("main", format!("{{% extends 'base' %}}{{% block a %}}c{w}{{{{ probe() }}}}{{% endblock %}}")),
            ("base", "{% filter upper %}{% block a %}A{% endblock %}{% endfilter %}{{ probe() }}".to_string())]);
        add("block", "in-macro-of-parent", &[
            ("main", format!("{{% extends 'base' %}}{{% block a %}}c{w}{{{{ probe() }}}}{{% endblock %}}")),
            ("base", "{% macro mm() %}{{ self.a() }}{% endmacro %}{% block a %}A{% endblock %}{{ mm()|upper }}{{ probe() }}".to_string())]);
    }
}

/// Rust callbacks that swallow the error of a nested evaluation (fallback value): running out of
/// fuel inside must still end the render out of fuel
fn swallow_programs(v: &mut Vec<Prog>) {
    for k in 0..=3 {
        let w = work(k);
        let calls: Vec<(&str, &str, String)> = vec![
            ("try_macro", "try_macro('m')", format!("{{% macro m() %}}n{w}{{{{ probe() }}}}{{% endmacro %}}")),
            ("try_apply", "try_apply(m, 1)", format!("{{% macro m(x) %}}n{{{{ x }}}}{w}{{{{ probe() }}}}{{% endmacro %}}")),
            ("try_block", "try_block('a')", format!("{{% block a %}}a{w}{{{{ probe() }}}}{{% endblock %}}|")),
        ];
        for (edge, e, def) in calls {
            for (pos, p) in positions(e) {
                let tails = [("tail-emit", "after{{ 1 }}{{ probe() }}"), ("tail-loop", "{% for i in range(3) %}{{ i }}{% endfor %}"), ("tail-raw", "after")];
                for (tname, tail) in tails {
                    let mut pr = prog(&format!("swallow:{}:{}-{}:{}", edge, pos, tname, k), &format!("swallow-{}-{}-{}", edge, pos, tname), k,
                                      &[("main", format!("{def}{p}{tail}"))]);
                    pr.swallow = true;
                    v.push(pr);
                }
            }
        }
        // the swallowing callback inside a nested evaluation itself, and twice in a row
        let extra = [
            ("in-include", vec![("main", "x{% include 'inc' %}y{{ 1 }}".to_string()),
                                ("inc", format!("{{% macro m() %}}n{w}{{% endmacro %}}[{{{{ try_macro('m') }}}}]{{{{ probe() }}}}"))]),
            ("twice", vec![("main", format!("{{% macro m() %}}n{w}{{% endmacro %}}{{{{ try_macro('m') }}}}{{{{ try_macro('m') }}}}{{{{ try_macro('m')|upper }}}}z"))]),
            ("in-super", vec![("main", "{% extends 'base' %}{% block a %}[{{ super()|upper }}]{% endblock %}".to_string()),
                              ("base", format!("{{% macro m() %}}n{w}{{% endmacro %}}<{{% block a %}}{{{{ try_macro('m') }}}}A{{% endblock %}}>{{{{ 1 }}}}"))]),
            ("nested-swallow", vec![("main", format!("{{% macro inner(x) %}}i{w}{{% endmacro %}}{{% macro m() %}}({{{{ try_apply(inner, 1) }}}}){{% endmacro %}}{{{{ try_macro('m') }}}}end{{{{ 1 }}}}"))]),
        ];
        for (name, tpls) in extra {
            let t: Vec<(&str, String)> = tpls;
            let mut pr = prog(&format!("swallow:misc:{}:{}", name, k), &format!("swallow-misc-{}", name), k, &t);
            pr.swallow = true;
            v.push(pr);
        }
    }
}

/// programs that put every observable rendering of the engine's own objects into the output:
/// nothing of it may depend on the budget
fn observer_programs(v: &mut Vec<Prog>) {
    let obs = [
        "{{ debug() }}", "<pre>{{ debug() }}</pre>{{ 1 }}{{ debug() }}", "{{ debug(a) }}{{ debug(a, xs) }}{{ debug(items) }}",
        "{{ dbgstate() }}", "{{ dbgstate(true) }}", "{{ dbgenv() }}", "{{ dbgstate()|length }}{{ debug()|length }}",
        "{% block a %}x{% endblock %}{{ self }}{{ self.a }}{{ debug() }}", "{% for x in xs %}{{ loop }}{{ debug(loop) }}{% endfor %}",
        "{% for x in xs %}{{ debug() }}{% endfor %}", "{% set ns = namespace(q=1) %}{% set ns.r = 2 %}{{ ns }}{{ namespace() }}{{ debug(ns) }}",
        "{% macro m(x, y=2) %}{{ debug() }}{{ caller }}{% endmacro %}{{ m }}{{ debug(m) }}{{ m(1) }}{% call m(2) %}c{% endcall %}",
        "{{ range }}{{ debug(range, dict, debug) }}{{ debug }}", "{{ xs }}{{ debug(xs|map('string')) }}{{ debug(range(3)) }}{{ debug(s|safe) }}",
        "{% set z %}{{ debug() }}{% endset %}{{ z|length }}{{ z }}", "{% with q = 1 %}{{ debug() }}{% endwith %}{% filter upper %}{{ dbgstate() }}{% endfilter %}",
        "{{ debug(missing) }}{{ debug(none) }}{{ debug(true) }}{{ debug(1.5) }}{{ debug('s') }}{{ debug({'k': [1, {'n': none}]}) }}",
        "{% autoescape true %}{{ debug() }}{{ dbgstate() }}{% endautoescape %}",
    ];
    for (i, src) in obs.iter().enumerate() {
        v.push(single(&format!("observer:single:{}", i), src));
    }
    v.push(prog("observer:include", "", 0, &[("main", "{% include 'inc' %}{{ debug() }}".to_string()), ("inc", "{{ debug() }}{{ dbgstate() }}".to_string())]));
    v.push(prog("observer:inherit", "", 0, &[
        ("main", "{% extends 'base' %}{% block a %}{{ debug() }}[{{ super() }}]{{ self }}{% endblock %}".to_string()),
        ("base", "<{% block a %}{{ dbgstate(true) }}{% endblock %}>{{ debug() }}".to_string())]));
    v.push(prog("observer:import", "", 0, &[("main", "{% import 'lib' as lib %}{{ lib }}{{ debug(lib) }}{{ lib.m }}{{ lib.m() }}".to_string()),
                                           ("lib", "{% macro m() %}{{ debug() }}{% endmacro %}{% set exported = 1 %}".to_string())]));
    // errors raised under a budget: every text form must equal the unlimited run's
    let failing = [
        "line1\n{{ 1 }}\n{{ nofn() }}\nline4", "{% for x in xs %}\n  {{ x }}\n  {% if x == 2 %}{{ x // 0 }}{% endif %}\n{% endfor %}",
        "{% macro m(v) %}\n{{ v + 'x' }}{% endmacro %}\n{{ m(1) }}", "{{ debug() }}{{ name.x.y }}", "{{ xs|join(1, 2, 3) }}", "{{ 'a'|int }}",
    ];
    for (i, src) in failing.iter().enumerate() {
        v.push(single(&format!("observer:error:{}", i), src));
    }
    v.push(prog("observer:error:include", "", 0, &[("main", "a\n{% include 'inc' %}".to_string()), ("inc", "x\n{{ 1 // 0 }}".to_string())]));
    v.push(prog("observer:error:super", "", 0, &[("main", "{% extends 'base' %}{% block a %}{{ super()|upper }}{% endblock %}".to_string()),
                                                 ("base", "{% block a %}\n{{ nofn() }}{% endblock %}".to_string())]));
}

/// nested evaluations reached through builtins that call user tests/filters per item, through
/// `State::apply_filter`/`perform_test`, object calls/methods and a re-entering formatter
fn reenter_programs(v: &mut Vec<Prog>) {
    let forms: [(&str, &str); 17] = [
        ("select", "xs|select('t_macro', 'm')|list"), ("reject", "xs|reject('t_macro', 'm')|list"),
        ("selectattr", "items|selectattr('a', 't_macro', 'm')|map(attribute='a')|list"),
        ("rejectattr", "items|rejectattr('a', 't_macro', 'm')|list|length"),
        ("select-block", "xs|select('t_block', 'a')|list"), ("is-test", "(1 is t_macro('m'))"), ("is-test-block", "(1 is t_block('a'))"),
        ("map-filter", "xs|map('f_macro', 'm')|join('-')"), ("map-filter-block", "xs|map('f_block', 'a')|join('-')"),
        ("filter", "1|f_macro('m')"), ("apply_filter", "af('f_macro', 1, 'm')"), ("perform_test", "pt('t_macro', 1, 'm')"),
        ("apply_filter-builtin-select", "af3('select', xs, 't_macro', 'm')|list|length"),
        ("object-call", "obj('m')"), ("object-method", "obj.run('m')"), ("select-in-map", "[xs, xs]|map('select', 't_macro', 'm')|map('list')|list"),
        ("object-callobject", "[obj][0]('m')"),
    ];
    for k in 0..=3 {
        let w = work(k);
        let defs = format!("{{% macro m(x=0) %}}n{{{{ x }}}}{w}{{{{ probe() }}}}{{% endmacro %}}{{% block a %}}a{w}{{{{ probe() }}}}{{% endblock %}}|");
        for (fname, e) in forms {
            let pos: Vec<(&str, String)> = vec![
                ("emit", format!("{{{{ {e} }}}}")), ("set", format!("{{% set x = {e} %}}{{{{ x }}}}")),
                ("if", format!("{{% if {e} %}}y{{% else %}}n{{% endif %}}")),
                ("setblock", format!("{{% set x %}}{{{{ {e} }}}}{{% endset %}}{{{{ x }}}}")),
                ("loop", format!("{{% for q in [{e}] %}}{{{{ q }}}}{{% endfor %}}")),
            ];
            for (pname, p) in pos {
                v.push(prog(&format!("reenter:{}:{}:{}", fname, pname, k), &format!("reenter-{}-{}", fname, pname), k,
                            &[("main", format!("{defs}{p}{{{{ probe() }}}}"))]));
            }
        }
        v.push(prog(&format!("reenter:filterblock:plain:{}", k), "reenter-filterblock", k,
                    &[("main", format!("{defs}{{% filter f_macro('m') %}}x{{% endfilter %}}{{{{ probe() }}}}"))]));
        v.push(prog(&format!("reenter:for-select:plain:{}", k), "reenter-for-select", k,
                    &[("main", format!("{defs}{{% for q in xs|select('t_macro', 'm') %}}{{{{ q }}}}{{% endfor %}}{{{{ probe() }}}}"))]));
        v.push(prog(&format!("reenter:select-in-include:plain:{}", k), "reenter-select-in-include", k,
                    &[("main", "{% include 'inc' %}{{ probe() }}".to_string()),
                      ("inc", format!("{defs}{{{{ xs|select('t_macro', 'm')|list }}}}"))]));
        v.push(prog(&format!("reenter:select-in-super:plain:{}", k), "reenter-select-in-super", k,
                    &[("main", "{% extends 'base' %}{% block b %}[{{ super()|upper }}]{% endblock %}".to_string()),
                      ("base", format!("{{% macro m(x=0) %}}n{w}{{% endmacro %}}<{{% block b %}}{{{{ xs|reject('t_macro', 'm')|list }}}}{{% endblock %}}>{{{{ probe() }}}}"))]));
        v.push(prog(&format!("reenter:unknown-method:plain:{}", k), "reenter-unknown-method", k,
                    &[("main", format!("{defs}{{{{ 1.reenter('m') }}}}{{% set u = 'x'.reenter('m') %}}{{{{ u|upper }}}}{{{{ probe() }}}}"))]));
        for (jname, je) in [("join-safe-joiner", "['FMT', 'x', 'FMT']|join('-'|safe)"), ("join-safe-item", "['FMT', 'x'|safe]|join('-')"),
                            ("join-in-map", "[['FMT'], ['FMT', 'y']]|map('join', ','|safe)|list")] {
            let mut pj = prog(&format!("reenter:formatter-{jname}:plain:{}", k), &format!("reenter-formatter-{jname}"), k,
                              &[("main", format!("{{% macro fm() %}}f{w}{{{{ probe() }}}}{{% endmacro %}}{{% autoescape true %}}a{{{{ {je} }}}}{{% set j = {je} %}}{{{{ j }}}}{{% endautoescape %}}{{{{ probe() }}}}"))]);
            pj.reenter_formatter = true;
            v.push(pj);
        }
        let mut pf = prog(&format!("reenter:formatter:plain:{}", k), "reenter-formatter", k,
                          &[("main", format!("{{% macro fm() %}}f{w}{{{{ probe() }}}}{{% endmacro %}}a{{{{ 'FMT' }}}}b{{{{ 'FMT'|upper }}}}{{{{ 'FMT' }}}}{{{{ probe() }}}}"))]);
        pf.reenter_formatter = true;
        v.push(pf);
    }
}


// ------------------------------------------------------------------------------------------------
// API stream: every public `State` method, called from Rust inside the running render at several
// places, after the render on the captured state, and on stand-alone states

const API_EVAL: [(&str, &str); 10] = [
    ("call_macro", "m"), ("render_block", "a"), ("render_block_to_write", "a"), ("apply_filter", "m"), ("apply_filter_block", "a"),
    ("perform_test", "m"), ("perform_test_block", "a"), ("format", "FMT"), ("value_call", "m"), ("object_method", "m"),
];
const API_PLAIN: [(&str, &str); 12] = [
    ("env", ""), ("name", ""), ("auto_escape", ""), ("undefined_behavior", ""), ("current_block", ""), ("lookup", "a"),
    ("exports", ""), ("known_variables", ""), ("get_template", "main"), ("fuel_levels", ""), ("temps", "t"), ("extension", ""),
];

fn api_defs(k: i64) -> String {
    let w = work(k);
    format!("{{% macro m(x=0) %}}n{{{{ x }}}}{w}{{{{ probe() }}}}{{% endmacro %}}{{% macro fm() %}}f{w}{{% endmacro %}}{{% block a %}}a{w}{{{{ probe() }}}}{{% endblock %}}|")
}

/// the places in which `body` can run: top level, loop, macro, include, block, parent block reached
/// through a captured `super()`, call block, `set` block
fn api_contexts(defs: &str, body: &str, tail: &str) -> Vec<(&'static str, Vec<(&'static str, String)>)> {
    vec![
        ("top", vec![("main", format!("{defs}{body}{tail}"))]),
        ("in-loop", vec![("main", format!("{defs}{{% for i in range(2) %}}{body}{{% endfor %}}{tail}"))]),
        ("in-macro", vec![("main", format!("{defs}{{% macro outer() %}}{{% if m and fm %}}{{% endif %}}{body}{{% endmacro %}}{{{{ outer() }}}}{tail}"))]),
        ("in-include", vec![("main", format!("{defs}{{% include 'inc' %}}{tail}")), ("inc", body.to_string())]),
        ("in-block", vec![("main", format!("{defs}{{% block b %}}{body}{{% endblock %}}{tail}"))]),
        ("in-super", vec![("main", format!("{{% extends 'base' %}}{{% block b %}}[{{{{ super()|upper }}}}]{{% endblock %}}")),
                          ("base", format!("{defs}<{{% block b %}}{body}{{% endblock %}}>{tail}"))]),
        ("in-callbody", vec![("main", format!("{defs}{{% macro wrap() %}}[{{{{ caller() }}}}]{{% endmacro %}}{{% call wrap() %}}{body}{{% endcall %}}{tail}"))]),
        ("in-setblock", vec![("main", format!("{defs}{{% set cap %}}{body}{{% endset %}}{{{{ cap }}}}{{{{ cap|upper }}}}{tail}"))]),
    ]
}

fn api_programs(v: &mut Vec<Prog>) {
    let tail = "{{ probe() }}";
    // evaluating methods: work parameter inside the nested evaluation
    for k in 0..=2 {
        let defs = api_defs(k);
        for (method, arg) in API_EVAL {
            let e = format!("api('{method}', '{arg}')");
            let forms = [("emit", format!("{{{{ {e} }}}}")), ("set", format!("{{% set x = {e} %}}{{{{ x }}}}{{{{ x }}}}")),
                         ("filter", format!("{{{{ {e}|upper }}}}"))];
            for (fname, body) in forms {
                for (cname, tpls) in api_contexts(&defs, &body, tail) {
                    if fname != "emit" && k == 2 {
                        continue;
                    }
                    let mut p = prog(&format!("api:{method}:{cname}-{fname}:{k}"), &format!("api-{method}-{cname}-{fname}"), k, &tpls);
                    p.reenter_formatter = true;
                    v.push(p);
                }
            }
        }
    }
    // the methods that do not evaluate anything leave the levels alone
    let defs = api_defs(1);
    for (method, arg) in API_PLAIN {
        let body = format!("{{{{ api('{method}', '{arg}') }}}}");
        for (cname, tpls) in api_contexts(&defs, &body, tail) {
            let mut p = prog(&format!("api:{method}:{cname}:1"), "", 1, &tpls);
            p.reenter_formatter = true;
            v.push(p);
        }
    }
    // a callback that recovers from a failing nested evaluation by trying another one
    for k in 0..=2 {
        let defs = api_defs(k);
        for (i, (m1, a1)) in API_EVAL.iter().enumerate() {
            let (m2, a2) = API_EVAL[(i + 3) % API_EVAL.len()];
            for (m2, a2) in [(*m1, *a1), (m2, a2)] {
                let body = format!("{{{{ api_retry('{m1}', '{a1}', '{m2}', '{a2}') }}}}");
                for (cname, tpls) in api_contexts(&defs, &body, "after{{ 1 }}") {
                    if k > 0 && !matches!(cname, "top" | "in-macro" | "in-super") {
                        continue;
                    }
                    let mut p = prog(&format!("retry:{m1}-{m2}:{cname}:{k}"), &format!("retry-{m1}-{m2}-{cname}"), k, &tpls);
                    p.reenter_formatter = true;
                    p.swallow = true;
                    v.push(p);
                }
            }
        }
    }
    // after the render, on the captured state; and on stand-alone states
    let all: Vec<(&str, &str)> = API_EVAL.iter().chain(API_PLAIN.iter()).cloned().collect();
    for k in 0..=2 {
        let main = format!("{}x{{{{ 1 }}}}{{{{ probe() }}}}", api_defs(k));
        let mut seqs: Vec<(String, Vec<(&str, &str)>)> = vec![];
        for (method, arg) in API_EVAL {
            seqs.push((format!("{method}x3"), vec![(method, arg), ("fuel_levels", ""), (method, arg), (method, arg)]));
        }
        for rot in 0..4 {
            let mut q = all.clone();
            q.rotate_left(rot * 5);
            seqs.push((format!("all-rot{rot}"), q));
        }
        for (sname, seq) in seqs {
            for mode in ["template", "new_state"] {
                if mode == "new_state" && seq.iter().any(|(m, _)| matches!(*m, "call_macro" | "apply_filter" | "perform_test" | "value_call" | "object_method" | "format")) && !sname.starts_with("all") {
                    continue; // the macros do not exist in a state whose template did not run
                }
                let mut p = prog(&format!("post:{mode}:{sname}:{k}"), &format!("post-{mode}-{sname}"), k, &[("main", main.clone())]);
                p.mode = mode.to_string();
                p.reenter_formatter = true;
                p.post = seq.iter().map(|(m, a)| (m.to_string(), a.to_string())).collect();
                if mode == "new_state" && sname.starts_with("all") {
                    // keep only what can succeed on a stand-alone state
                    p.post.retain(|(m, _)| !matches!(m.as_str(), "call_macro" | "apply_filter" | "perform_test" | "value_call" | "object_method" | "format"));
                }
                v.push(p);
            }
        }
    }
    for rot in 0..2 {
        let mut q = all.clone();
        q.rotate_left(rot * 7);
        q.retain(|(m, _)| !matches!(*m, "call_macro" | "render_block" | "render_block_to_write" | "apply_filter" | "apply_filter_block" | "perform_test"
            | "perform_test_block" | "value_call" | "object_method" | "format" | "get_template" | "current_block"));
        let mut p = prog(&format!("post:empty_state:plain-rot{rot}:0"), "", 0, &[("main", "x".to_string())]);
        p.mode = "empty_state".to_string();
        p.post = q.iter().map(|(m, a)| (m.to_string(), a.to_string())).collect();
        v.push(p);
    }
    // stand-alone states on which an evaluation is attempted and fails for a reason of its own
    for (method, arg) in [("render_block", "nope"), ("call_macro", "m"), ("format", "FMT")] {
        for mode in ["new_state", "empty_state"] {
            let mut p = prog(&format!("post:{mode}:failing-{method}:0"), "", 0, &[("main", api_defs(1))]);
            p.mode = mode.to_string();
            p.reenter_formatter = true;
            p.post = vec![("fuel_levels".to_string(), String::new()), (method.to_string(), arg.to_string())];
            v.push(p);
        }
    }
}

/// include / import forms x surroundings x {code follows, nothing follows}: an engine that drops the
/// error of a nested evaluation is only visible when nothing that costs fuel follows
fn nested_stmt_programs(v: &mut Vec<Prog>) {
    for k in 0..=3 {
        let w = work(k);
        let inc = ("inc", format!("i{{{{ a }}}}{w}{{{{ probe() }}}}"));
        let lib = ("lib2", format!("L{w}{{{{ probe() }}}}{{% set exported = 1 %}}{{% macro mm() %}}M{{% endmacro %}}"));
        let stmts: Vec<(&str, &str)> = vec![
            ("include-ignore-missing", "{% include 'inc' ignore missing %}"),
            ("include-list", "{% include ['nope', 'inc'] %}"),
            ("include-list-ignore-missing", "{% include ['nope', 'inc', 'nope2'] ignore missing %}"),
            ("include-dynamic", "{% include incname %}"),
            ("include-with-context", "{% include 'inc' with context %}"),
            ("import", "{% import 'lib2' as l2 %}{{ l2.exported }}"),
            ("from-import", "{% from 'lib2' import mm, exported %}{{ mm() }}"),
        ];
        for (edge, stmt) in stmts {
            let surround: Vec<(&str, String)> = vec![
                ("plain", stmt.to_string()),
                ("setblock", format!("{{% set x %}}{stmt}{{% endset %}}{{{{ x }}}}")),
                ("filterblock", format!("{{% filter upper %}}{stmt}{{% endfilter %}}")),
                ("loop", format!("{{% for i in range(2) %}}{stmt}{{% endfor %}}")),
                ("with", format!("{{% with a = 2 %}}{stmt}{{% endwith %}}")),
                ("in-macro", format!("{{% macro mq() %}}{stmt}{{% endmacro %}}{{{{ mq() }}}}")),
                ("in-block", format!("{{% block b %}}{stmt}{{% endblock %}}")),
            ];
            for (pos, body) in surround {
                for (tname, tail) in [("tail", "{{ probe() }}"), ("notail", "")] {
                    if tname == "notail" && k != 1 {
                        continue;
                    }
                    let mut p = prog(&format!("stmt:{edge}:{pos}-{tname}:{k}"), &if tname == "tail" { format!("stmt-{edge}-{pos}") } else { String::new() }, k,
                                     &[("main", format!("{body}{tail}")), inc.clone(), lib.clone()]);
                    p.ctx["incname"] = json!("inc");
                    v.push(p);
                }
            }
        }
    }
}

/// the existing edge x position matrix once more with nothing after the nested evaluation
fn notail_programs(v: &mut Vec<Prog>) {
    let mut extra = vec![];
    for p in v.iter() {
        if !(p.id.starts_with("edge:") || p.id.starts_with("reenter:") || p.id.starts_with("api:")) || p.k != 1 {
            continue;
        }
        let mut q = p.clone();
        let mut changed = false;
        for (_, src) in q.templates.iter_mut() {
            if let Some(stripped) = src.strip_suffix("{{ probe() }}") {
                *src = stripped.to_string();
                changed = true;
            }
        }
        if changed {
            q.id = q.id.replacen(":", "-notail:", 1);
            q.group = String::new();
            extra.push(q);
        }
    }
    v.extend(extra);
}


/// structured programs: loops whose trip counts come from the data, nested loops whose inner
/// counts depend on the outer item, instructions that fail for some item
fn skel_programs(v: &mut Vec<Prog>, thorough: bool) {
    let mut add = |id: String, group: &str, k: i64, src: &str, ctx: serde_json::Value, loops: serde_json::Value, fails: serde_json::Value| {
        let mut p = prog(&id, group, k, &[("main", src.to_string())]);
        p.ctx = ctx;
        p.skel = Some(json!({"loops": loops, "fails": fails}));
        v.push(p);
    };
    let nmax: i64 = if thorough { 12 } else { 6 };
    // one loop, trip count n
    for n in 0..=nmax {
        let xs: Vec<i64> = (1..=n).collect();
        add(format!("skel:flat:{n}"), "skel-flat", n, "a{% for x in xs %}{{ x }},{% endfor %}b{{ 1 }}", json!({"xs": xs}), json!([["xs", 0]]), json!([]));
        add(format!("skel:two:{n}"), "skel-two", n, "{% for x in xs %}{{ x }}{% endfor %}-{% for y in ys %}{{ y }}{{ y }}{% endfor %}",
            json!({"xs": xs, "ys": [1, 2]}), json!([["xs", 0], ["ys", 0]]), json!([]));
    }
    // nested loops: the inner trip count is the length of the outer item
    let shapes: Vec<Vec<usize>> = vec![vec![], vec![0], vec![1], vec![3], vec![0, 0], vec![2, 0, 1], vec![1, 2, 3], vec![3, 3, 3], vec![4, 0, 0, 2, 1]];
    for (si, shape) in shapes.iter().enumerate() {
        let rows: Vec<Vec<i64>> = shape.iter().map(|n| (1..=*n as i64).collect()).collect();
        add(format!("skel:nested:{si}"), "", 0, "{% for row in rows %}[{% for x in row %}{{ x }},{% endfor %}]{% endfor %}end",
            json!({"rows": rows}), json!([["rows", 0], ["rows", 1]]), json!([]));
        // three levels
        let cube: Vec<Vec<Vec<i64>>> = shape.iter().map(|n| (0..*n).map(|j| (0..(j % 3) as i64).collect()).collect()).collect();
        add(format!("skel:cube:{si}"), "", 0, "{% for a in t %}{% for b in a %}<{% for c in b %}{{ c }}{% endfor %}>{% endfor %}|{% endfor %}",
            json!({"t": cube}), json!([["t", 0], ["t", 1], ["t", 2]]), json!([]));
    }
    // an instruction that fails for some item: the render ends with its own error there
    for n in 0..=5i64 {
        for bad in 0..=n {
            // the item at position `bad` is 0 (none when bad == n)
            let xs: Vec<i64> = (0..n).map(|i| if i == bad { 0 } else { i + 1 }).collect();
            add(format!("skel:fail-flat:{n}:{bad}"), "", 0, "{% for x in xs %}{{ 10 // x }};{% endfor %}done{{ 1 }}",
                json!({"xs": xs}), json!([["xs", 0]]), json!([["xs", 1]]));
        }
    }
    let grids: Vec<Vec<Vec<i64>>> = vec![vec![vec![1, 2], vec![3]], vec![vec![1, 0], vec![3]], vec![vec![1, 2], vec![0]], vec![vec![], vec![2, 2, 0, 2]],
                                         vec![vec![0]], vec![vec![5], vec![], vec![6, 7], vec![8, 0]]];
    for (gi, g) in grids.iter().enumerate() {
        add(format!("skel:fail-nested:{gi}"), "", 0, "{% for row in rows %}({% for x in row %}{{ 10 // x }}{% endfor %}){% endfor %}{{ 1 }}",
            json!({"rows": g}), json!([["rows", 0], ["rows", 1]]), json!([["rows", 2]]));
    }
    // conditionals whose direction comes from the data, loops with an else part, loops with a
    // filter, further kinds of instructions that fail for some item
    let mut add2 = |id: String, src: &str, ctx: serde_json::Value, skel: serde_json::Value| {
        let mut p = prog(&id, "", 0, &[("main", src.to_string())]);
        p.ctx = ctx;
        p.skel = Some(skel);
        v.push(p);
    };
    let lists: Vec<Vec<i64>> = vec![vec![], vec![0], vec![1], vec![1, 0], vec![0, 0, 3], vec![2, 0, 1, 0], vec![5, 6, 7], vec![0, 1, 0, 1, 1]];
    for (li, xs) in lists.iter().enumerate() {
        add2(format!("skel:if-else:{li}"), "{% for x in xs %}{% if x %}T{{ x }}{% else %}F{% endif %};{% endfor %}end{{ 1 }}",
             json!({"xs": xs}), json!({"loops": [["xs", 0]], "fails": [], "conds": [["truthy", "xs", 1]]}));
        add2(format!("skel:if:{li}"), "{% for x in xs %}{% if x %}{{ x }}{{ x }}{% endif %}{% endfor %}",
             json!({"xs": xs}), json!({"loops": [["xs", 0]], "fails": [], "conds": [["truthy", "xs", 1]]}));
        add2(format!("skel:elif:{li}"), "{% for x in xs %}{% if x %}a{% elif ys %}b{{ 1 }}{% else %}c{% endif %}{% endfor %}",
             json!({"xs": xs, "ys": if li % 2 == 0 { json!([1]) } else { json!([]) }}),
             json!({"loops": [["xs", 0]], "fails": [], "conds": [["truthy", "xs", 1], ["truthy-of", "ys", "xs", 1]]}));
        add2(format!("skel:for-else:{li}"), "{% for x in xs %}{{ x }},{% else %}none{{ 1 }}{{ 2 }}{% endfor %}!",
             json!({"xs": xs}), json!({"loops": [["xs", 0]], "fails": [], "conds": [["empty", "xs", 0]]}));
        add2(format!("skel:filter:{li}"), "{% for x in xs if x %}[{{ x }}]{% endfor %}!{{ 1 }}",
             json!({"xs": xs}), json!({"loops": [["xs", 0], ["xs", 0, "truthy"]], "fails": [], "conds": [["truthy", "xs", 1]]}));
        add2(format!("skel:filter-else:{li}"), "{% for x in xs if x %}[{{ x }}]{% else %}nothing{{ 1 }}{% endfor %}",
             json!({"xs": xs}), json!({"loops": [["xs", 0], ["xs", 0, "truthy"]], "fails": [], "conds": [["truthy", "xs", 1], ["none-truthy", "xs", 0]]}));
        // `continue` at the top level of a loop body (the jump to the Iterate stands in for the back jump)
        add2(format!("skel:continue:{li}"), "{% for x in xs %}a{% if x %}b{% continue %}{% endif %}c{{ x }}{% if ys %}d{% endif %}{% endfor %}!",
             json!({"xs": xs, "ys": if li % 2 == 0 { json!([1]) } else { json!([]) }}),
             json!({"loops": [["xs", 0]], "fails": [], "conds": [["truthy", "xs", 1], ["truthy-of", "ys", "xs", 1]]}));
        add2(format!("skel:continue-rem:{li}"), "{% for x in xs %}{% if x %}{% continue %}{% endif %}{{ 7 % x }}{% endfor %}",
             json!({"xs": xs}), json!({"loops": [["xs", 0]], "fails": [["xs", 1]], "conds": [["truthy", "xs", 1]]}));
        // `break` at the top level of a loop body: the loop ends there, without the Iterate that finds the end
        add2(format!("skel:break:{li}"), "{% for x in xs %}a{% if x %}b{% break %}{% endif %}c{{ x }}{% endfor %}!{{ 1 }}",
             json!({"xs": xs}), json!({"loops": [["xs", 0, "until-truthy"]], "fails": [], "conds": [["truthy", "xs", 1], ["none-truthy", "xs", 0]]}));
        add2(format!("skel:rem:{li}"), "{% for x in xs %}{{ 7 % x }};{% endfor %}done{{ 1 }}",
             json!({"xs": xs}), json!({"loops": [["xs", 0]], "fails": [["xs", 1]], "conds": []}));
        // the divisor of the first side comes from another list: it fails only where that side is taken
        let ys: Vec<i64> = (0..xs.len()).map(|i| xs[(i + 1) % xs.len()]).collect();
        add2(format!("skel:rem-in-branch:{li}"), "{% for x in xs %}{% if x %}{{ 7 % ys[loop.index0] }}{% else %}{{ 7 // 2 }}z{% endif %}{% endfor %}",
             json!({"xs": xs, "ys": ys, "never": 1}), json!({"loops": [["xs", 0]], "fails": [["ys", 1], ["never", 0]], "conds": [["truthy", "xs", 1]]}));
    }
    let rows: Vec<Vec<Vec<i64>>> = vec![vec![], vec![vec![]], vec![vec![1, 2], vec![]], vec![vec![], vec![0], vec![3, 0, 4]]];
    for (ri, r) in rows.iter().enumerate() {
        add2(format!("skel:nested-for-else:{ri}"), "{% for row in rows %}{% for x in row %}{{ x }}{% else %}-{{ 1 }}{% endfor %}|{% else %}empty{% endfor %}",
             json!({"rows": r}), json!({"loops": [["rows", 0], ["rows", 1]], "fails": [], "conds": [["empty", "rows", 1], ["empty", "rows", 0]]}));
        add2(format!("skel:nested-if:{ri}"), "{% for row in rows %}{% if row %}{% for x in row %}{% if x %}{{ x }}{% endif %}{% endfor %}{% endif %}{% endfor %}",
             json!({"rows": r}), json!({"loops": [["rows", 0], ["rows", 1]], "fails": [], "conds": [["truthy", "rows", 1], ["truthy", "rows", 2]]}));
    }
    let strs: Vec<Vec<&str>> = vec![vec![], vec!["1"], vec!["x"], vec!["1", "22", "-3"], vec!["4", "four", "5"]];
    for (si, ss) in strs.iter().enumerate() {
        add2(format!("skel:int-filter:{si}"), "{% for s in ss %}{{ s|int }},{% endfor %}ok",
             json!({"ss": ss}), json!({"loops": [["ss", 0]], "fails": [["ss", 1, "nonint"]], "conds": [], "fail_ops": ["ApplyFilter"]}));
    }
}


/// programs whose data is much larger than their instruction count: a builtin that compares a
/// size with the fuel that is left shows here
fn bigdata_programs(v: &mut Vec<Prog>) {
    let srcs = [
        "{{ range(5000)|length }}", "{{ range(99999)|last }}", "{{ range(0, 90000, 3)|list|length }}", "{{ ('x' * 3000)|length }}",
        "{{ 'ab'|center(4000)|length }}", "{{ ([1, 2] * 700)|length }}", "{{ '%6000s'|format('a')|length }}", "{{ range(3000)|sum }}",
        "{{ range(2500)|batch(7)|list|length }}", "{{ range(1200)|join|length }}", "{{ range(4000)|map('string')|list|length }}",
        "{{ range(3500)|select('odd')|list|length }}", "{{ range(2000)|sort(reverse=true)|first }}", "{{ range(1500)|reverse|first }}",
        "{{ ('a' * 2000)|upper|length }}{{ ('a b ' * 900)|title|length }}", "{{ range(3000)|slice(3)|list|length }}",
        "{% set big = range(6000)|list %}{{ big[10:5000]|length }}{{ big|max }}", "{{ dict(a=range(4000))|items|list|length }}",
        "{{ range(20000) is iterable }}{{ 7 in range(30000) }}", "{{ ('word ' * 800)|wordcount }}{{ ('y' * 5000)|truncate(20)|length }}",
    ];
    for (i, s) in srcs.iter().enumerate() {
        v.push(single(&format!("bigdata:{}", i), s));
    }
}

fn fixed_programs(thorough: bool) -> Vec<Prog> {
    let mut v = vec![];
    // A. straight-line
    let straight = [
        "", "hello", "{{ 1 }}", "{{ a + b * 2 }}", "{{ name|upper }}", "{% set y = 3 %}{{ y }}",
        "{% with q = 1 %}{{ q }}{% endwith %}", "{{ name ~ '!' }}", "{{ [1, 2, a] }}", "{{ {'x': a} }}",
        "{{ xs[0] }}{{ xs[1:] }}{{ items[0].b }}", "{{ s }}{{ s|safe }}{{ s|escape }}",
        "{% autoescape true %}{{ s }}{% endautoescape %}", "{% filter upper %}abc{{ name }}{% endfilter %}",
        "{% set z %}x{{ a }}y{% endset %}{{ z }}", "{% raw %}{{ x }}{% endraw %}", "{{ -a }}{{ not c }}",
        "{{ a > b }}{{ a == 7 }}{{ 2 in xs }}", "{{ name|length }}{{ xs|join(',') }}{{ xs|first }}",
        "{{ missing|default('d') }}{{ missing is defined }}{{ a is odd }}", "{{ probe() }}",
        "a{{ probe() }}b{{ 1 }}{{ probe() }}", "{{ range(3)|list }}", "{{ dict(a=1).a }}",
        "{# comment #}x", "{{ '%s-%s'|format(a, b) }}", "{{ xs|map('string')|list }}{{ xs|select('odd')|list }}",
        "{{ items|map(attribute='a')|sum }}", "{{ xs|batch(2)|list }}{{ name|replace('o', '0') }}",
        "{{ a / b }}{{ a >= b }}{{ a < b }}{{ a <= b }}{{ a != b }}{{ a ** 2 }}{{ a % b }}", "{{ 1 < a < 10 }}{{ 1 < a <= 3 }}",
        "{% set p, q = 1, 2 %}{{ p }}{{ q }}{{ (a, b) }}", "{{ range(*[1, 4])|list }}{{ dict(**{'k': 1}, j=2) }}", "{{ [range][0](3)|list }}",
    ];
    for (i, s) in straight.iter().enumerate() {
        v.push(single(&format!("straight:{}", i), s));
    }
    // degenerate templates (every entry point and environment variant is run on them: no group)
    let degenerate = [" ", "\n", "line one\nline two\n", "<b>&\"'</b>", "{# c #}", "  {#- c -#}  ", "a{# c #}b", "{% raw %}{{ x }}{% endraw %}",
                      "{% set q = 1 %}", "{% block a %}{% endblock %}", "{% block a %}text{% endblock %}", "{% macro m() %}M{% endmacro %}"];
    for (i, s) in degenerate.iter().enumerate() {
        v.push(single(&format!("degenerate:{}", i), s));
    }
    // branches
    let branches = [
        "{% if c %}A{% else %}B{% endif %}", "{% if d %}A{% elif a > 3 %}B{{ a }}{% else %}C{% endif %}",
        "{{ a if c else b }}{{ a if d else b }}", "{{ c and a }}{{ d and a }}{{ d or b }}{{ c or b }}",
        "{% if d %}{{ probe() }}{% endif %}x{% if c %}{{ probe() }}{% endif %}",
    ];
    for (i, s) in branches.iter().enumerate() {
        v.push(single(&format!("branch:{}", i), s));
    }
    // B. loops, parameter = iteration count
    let nmax = if thorough { 12 } else { 6 };
    for n in 0..=nmax {
        v.push(prog(&format!("loop:range:{}", n), "loop-range", n,
                    &[("main", format!("{{% for x in range({}) %}}{{{{ x }}}},{{% endfor %}}", n))]));
        v.push(prog(&format!("loop:else:{}", n), "loop-else", n,
                    &[("main", format!("{{% for x in range({}) %}}[{{{{ loop.index }}}}{{{{ loop.last }}}}]{{% else %}}none{{% endfor %}}", n))]));
        v.push(prog(&format!("loop:probe:{}", n), "loop-probe", n,
                    &[("main", format!("{{% for x in range({}) %}}{{{{ probe() }}}}{{% endfor %}}{{{{ probe() }}}}", n))]));
    }
    for n in 0..=4 {
        v.push(prog(&format!("loop:nested:{}", n), "loop-nested", n,
                    &[("main", format!("{{% for x in range({}) %}}{{% for y in range(3) %}}{{{{ x * y }}}}{{% endfor %}};{{% endfor %}}", n))]));
        v.push(prog(&format!("loop:filter:{}", n), "", n,
                    &[("main", format!("{{% for x in range({}) if x is odd %}}{{{{ x }}}}{{% endfor %}}", 2 * n))]));
    }
    let loops = [
        "{% for x in xs %}{% if x == 2 %}{% break %}{% endif %}{{ x }}{% endfor %}",
        "{% for x in xs %}{% if x == 2 %}{% continue %}{% endif %}{{ x }}{% endfor %}",
        "{% for k, val in {'p': 1, 'q': 2}|items %}{{ k }}={{ val }}{% endfor %}",
        "{% for it in items %}{{ it.a }}{{ it.b }}{{ loop.cycle('o', 'e') }}{% endfor %}",
        "{% for t in tree recursive %}{{ t.v }}{{ probe() }}({{ loop(t.ch) }}){% endfor %}",
        "{% for x in empty %}never{% endfor %}after",
        "{% for x in xs %}{% set q = x * 2 %}{{ q }}{% endfor %}{{ q is defined }}",
        "{% for x in xs %}{{ loop.previtem }}{{ loop.nextitem }}{{ loop.changed(x) }}{% endfor %}",
        "{% for x in name %}{{ x }}.{% endfor %}",
    ];
    for (i, s) in loops.iter().enumerate() {
        v.push(single(&format!("loop:misc:{}", i), s));
    }
    // C. macros; group parameter = extra work inside the macro body
    for k in 0..=3 {
        v.push(prog(&format!("macro:body:{}", k), "macro-body", k,
                    &[("main", format!("{{% macro m(x) %}}[{{{{ x }}}}{}]{{% endmacro %}}{{{{ m(1) }}}}{{{{ m(2) }}}}", work(k)))]));
        v.push(prog(&format!("macro:loop:{}", k), "macro-in-loop", k,
                    &[("main", format!("{{% macro m(x) %}}<{}{{{{ probe() }}}}>{{% endmacro %}}{{% for i in range(3) %}}{{{{ m(i) }}}}{{% endfor %}}{{{{ probe() }}}}", work(k)))]));
        v.push(prog(&format!("macro:caller:{}", k), "macro-caller", k,
                    &[("main", format!("{{% macro m() %}}({{{{ caller() }}}}|{{{{ caller() }}}}){{% endmacro %}}{{% call m() %}}c{}{{% endcall %}}", work(k)))]));
        v.push(prog(&format!("macro:import:{}", k), "macro-import", k,
                    &[("main", "{% import 'lib' as lib %}{{ lib.m(1) }}{% from 'lib' import m as mm %}{{ mm(2) }}".to_string()),
                      ("lib", format!("{{% macro m(x) %}}<{{{{ x }}}}{}>{{% endmacro %}}", work(k)))]));
        v.push(prog(&format!("macro:apply:{}", k), "macro-apply", k,
                    &[("main", format!("{{% macro m(x) %}}<{{{{ x }}}}{}{{{{ probe() }}}}>{{% endmacro %}}{{{{ apply(m, 1) }}}}{{{{ probe() }}}}{{{{ apply(m, 2) }}}}", work(k)))]));
    }
    let macros = [
        "{% macro f(n) %}{% if n > 0 %}{{ n }}{{ f(n - 1) }}{% endif %}{% endmacro %}{{ f(4) }}",
        "{% macro m(x, y=2) %}{{ x }}{{ y }}{% endmacro %}{{ m(1) }}{{ m(1, 3) }}{{ m(y=4, x=5) }}",
        "{% macro outer() %}{% macro inner() %}i{{ probe() }}{% endmacro %}o{{ inner() }}{% endmacro %}{{ outer() }}{{ probe() }}",
        "{% set q = 5 %}{% macro m() %}{{ q }}{{ a }}{% endmacro %}{{ m() }}",
        "{% macro m() %}x{% endmacro %}{{ m.name }}{{ m }}",
        "{% macro m(x) %}{{ x|upper }}{% endmacro %}{{ name|map('upper')|list }}{{ m(name) }}",
        "{% macro m(x) %}<{{ x }}>{% endmacro %}{% set r %}{{ m(1) }}{% endset %}{{ r }}{{ r }}",
    ];
    for (i, s) in macros.iter().enumerate() {
        v.push(single(&format!("macro:misc:{}", i), s));
    }
    // D. includes; group parameter = extra work inside the included template
    for k in 0..=3 {
        v.push(prog(&format!("include:body:{}", k), "include-body", k,
                    &[("main", "A{% include 'inc' %}B{% include 'inc' %}C".to_string()),
                      ("inc", format!("i{{{{ a }}}}{}", work(k)))]));
        v.push(prog(&format!("include:loop:{}", k), "include-in-loop", k,
                    &[("main", "{% for x in xs %}{% include 'inc' %}{% endfor %}{{ probe() }}".to_string()),
                      ("inc", format!("[{{{{ x }}}}{}{{{{ probe() }}}}]", work(k)))]));
        v.push(prog(&format!("include:chain:{}", k), "include-chain", k,
                    &[("main", "m{% include 'i1' %}{{ probe() }}".to_string()),
                      ("i1", "1{% include 'i2' %}{{ probe() }}".to_string()),
                      ("i2", "2{% include 'i3' %}".to_string()),
                      ("i3", format!("3{}{{{{ probe() }}}}", work(k)))]));
    }
    v.push(prog("include:missing-ignored", "", 0, &[("main", "a{% include 'nope' ignore missing %}b".to_string())]));
    v.push(prog("include:list", "", 0, &[("main", "a{% include ['nope', 'inc'] %}b".to_string()), ("inc", "I{{ a }}".to_string())]));
    v.push(prog("include:macro-inside", "", 0,
                &[("main", "{% include 'inc' %}{{ probe() }}".to_string()),
                  ("inc", "{% macro m() %}M{{ probe() }}{% endmacro %}{{ m() }}{{ m() }}".to_string())]));
    // E. inheritance
    let base = "<{% block a %}A{{ 1 }}{{ probe() }}{% endblock %}|{% block b %}B{% endblock %}>{{ probe() }}";
    for k in 0..=3 {
        v.push(prog(&format!("inherit:block:{}", k), "block-body", k,
                    &[("main", format!("{{% extends 'base' %}}{{% block a %}}child{}{{{{ probe() }}}}{{% endblock %}}", work(k))),
                      ("base", base.to_string())]));
        v.push(prog(&format!("inherit:super:{}", k), "super-body", k,
                    &[("main", "{% extends 'base' %}{% block a %}[{{ super() }}{{ probe() }}{{ super() }}]{% endblock %}".to_string()),
                      ("base", format!("<{{% block a %}}A{}{{{{ probe() }}}}{{% endblock %}}>", work(k)))]));
        v.push(prog(&format!("inherit:three:{}", k), "three-level", k,
                    &[("main", "{% extends 'mid' %}{% block a %}c({{ super() }}){% endblock %}".to_string()),
                      ("mid", "{% extends 'base' %}{% block a %}m({{ super() }}){{ probe() }}{% endblock %}{% block b %}MB{% endblock %}".to_string()),
                      ("base", format!("<{{% block a %}}A{}{{{{ probe() }}}}{{% endblock %}}|{{% block b %}}B{{% endblock %}}>{{{{ probe() }}}}", work(k)))]));
        v.push(prog(&format!("inherit:blockloop:{}", k), "block-in-loop", k,
                    &[("main", format!("{{% extends 'base' %}}{{% block row %}}r{{{{ x }}}}{}{{% endblock %}}", work(k))),
                      ("base", "{% for x in xs %}{% block row %}{{ x }}{% endblock %},{% endfor %}".to_string())]));
        v.push(prog(&format!("inherit:self:{}", k), "self-block", k,
                    &[("main", format!("{{% block a %}}a{}{{{{ probe() }}}}{{% endblock %}}{{{{ self.a() }}}}{{{{ self.a() }}}}{{{{ probe() }}}}", work(k)))]));
    }
    v.push(prog("inherit:dynamic", "", 0,
                &[("main", "{% extends layout %}{% block a %}X{% endblock %}".to_string()), ("base", base.to_string())]));
    v.last_mut().unwrap().ctx["layout"] = json!("base");
    v.push(prog("inherit:include-in-block", "", 0,
                &[("main", "{% extends 'base' %}{% block a %}{% include 'inc' %}{{ super() }}{% endblock %}".to_string()),
                  ("base", base.to_string()), ("inc", "I{{ probe() }}".to_string())]));
    edge_programs(&mut v);
    swallow_programs(&mut v);
    observer_programs(&mut v);
    reenter_programs(&mut v);
    nested_stmt_programs(&mut v);
    api_programs(&mut v);
    notail_programs(&mut v);
    skel_programs(&mut v, thorough);
    bigdata_programs(&mut v);
    // G. renders that fail without fuel as well
    let failing = [
        "A{{ 1 }}{{ nofn() }}B", "{% for x in range(3) %}{{ x }}{% if x == 1 %}{{ 1 // 0 }}{% endif %}{% endfor %}",
        "a{% include 'missing' %}b", "{% macro m() %}{{ 1 }}{{ 'x' + 1 }}{% endmacro %}{{ m() }}",
        "{{ xs|nosuchfilter_at_runtime_is_compile_error_so_use_attr.x.y }}", "{{ name.x.y }}", "{{ 1 }}{{ a|join(',') }}",
    ];
    for (i, s) in failing.iter().enumerate() {
        v.push(single(&format!("failing:{}", i), s));
    }
    // H. expressions
    let exprs = [
        "1 + 2", "xs|length > 2 and name == 'World'", "a if c else b", "range(5)|sum", "[a, b, xs[0]]|max",
        "name|upper ~ '!'", "items|map(attribute='a')|list", "missing", "1 // 0", "{'a': a}.a + b",
        // degenerate expressions: a single constant of every kind, a single lookup
        "1", "'text'", "true", "none", "1.5", "[1, 2]", "{'k': 1}", "a", "(1)", "-1", "''",
    ];
    for (i, s) in exprs.iter().enumerate() {
        v.push(expr(&format!("expr:{}", i), s));
    }
    v
}

// ------------------------------------------------------------------------------------------------
// random programs

struct Gen<'a> {
    rng: &'a mut Rng,
    nmacros: usize,
    nincs: usize,
    in_loop: bool,
    budget: i64,
}

impl Gen<'_> {
    fn expr(&mut self, depth: u32) -> String {
        self.budget -= 1;
        let leaf = depth >= 2 || self.rng.chance(1, 2);
        if leaf {
            let mut atoms = vec!["a", "b", "1", "2", "'s'", "name", "xs", "c", "d", "n", "xs[0]", "items[1].a", "missing"];
            if self.in_loop {
                atoms.extend(["loop.index", "loop.first"]);
            }
            return self.rng.pick(&atoms).to_string();
        }
        match self.rng.below(11) {
            9 | 10 if self.nmacros > 0 => {
                let m = self.rng.below(self.nmacros as u64);
                let arg = self.expr(depth + 1);
                match self.rng.below(3) {
                    0 => format!("m{}({})", m, arg),
                    1 => format!("m{}({})|upper", m, arg),
                    _ => format!("(m{}({}) ~ 'x')", m, arg),
                }
            }
            9 | 10 => format!("{}|string", self.expr(depth + 1)),
            0 => format!("({} ~ {})", self.expr(depth + 1), self.expr(depth + 1)),
            1 => format!("({} == {})", self.expr(depth + 1), self.expr(depth + 1)),
            2 => format!("({} and {})", self.expr(depth + 1), self.expr(depth + 1)),
            3 => format!("({} or {})", self.expr(depth + 1), self.expr(depth + 1)),
            4 => format!("({} if {} else {})", self.expr(depth + 1), self.expr(depth + 1), self.expr(depth + 1)),
            5 => format!("{}|string|upper", self.expr(depth + 1)),
            6 => format!("{}|default('d')", self.expr(depth + 1)),
            7 => format!("[{}, {}]|length", self.expr(depth + 1), self.expr(depth + 1)),
            _ => format!("({} is defined)", self.expr(depth + 1)),
        }
    }

    fn frags(&mut self, depth: u32, max: u64) -> String {
        let n = 1 + self.rng.below(max);
        (0..n).map(|_| self.frag(depth)).collect()
    }

    fn frag(&mut self, depth: u32) -> String {
        self.budget -= 1;
        if self.budget < 0 || depth >= 3 {
            return match self.rng.below(3) {
                0 => "t".to_string(),
                1 => format!("{{{{ {} }}}}", self.expr(1)),
                _ => "{{ probe() }}".to_string(),
            };
        }
        match self.rng.below(14) {
            0 => "txt".to_string(),
            1 | 2 => format!("{{{{ {} }}}}", self.expr(0)),
            3 => format!("{{% if {} %}}{}{{% else %}}{}{{% endif %}}", self.expr(0), self.frags(depth + 1, 2), self.frags(depth + 1, 2)),
            4 | 5 => {
                let seq = *self.rng.pick(&["xs", "range(2)", "range(3)", "empty", "items", "range(n)"]);
                let old = self.in_loop;
                self.in_loop = true;
                let body = self.frags(depth + 1, 3);
                self.in_loop = old;
                format!("{{% for v{} in {} %}}{}{{% endfor %}}", depth, seq, body)
            }
            6 => format!("{{% set w{} = {} %}}", depth, self.expr(0)),
            7 => format!("{{% with q = {} %}}{}{{{{ q }}}}{{% endwith %}}", self.expr(0), self.frags(depth + 1, 2)),
            8 if self.nmacros > 0 => format!("{{{{ m{}({}) }}}}", self.rng.below(self.nmacros as u64), self.expr(1)),
            9 if self.nincs > 0 => format!("{{% include 'inc{}' %}}", self.rng.below(self.nincs as u64)),
            10 => format!("{{% filter upper %}}{}{{% endfilter %}}", self.frags(depth + 1, 2)),
            11 => format!("{{% set cap{} %}}{}{{% endset %}}{{{{ cap{} }}}}", depth, self.frags(depth + 1, 2), depth),
            12 if self.nmacros > 0 => format!("{{{{ apply(m{}, {}) }}}}", self.rng.below(self.nmacros as u64), self.expr(1)),
            _ => "{{ probe() }}".to_string(),
        }
    }
}

fn random_program(rng: &mut Rng, idx: usize) -> Prog {
    let nmac = rng.below(3) as usize;
    let ninc = rng.below(3) as usize;
    let inherit = rng.chance(1, 3);
    let mut tpls: Vec<(String, String)> = vec![];
    let mut macro_defs = String::new();
    // macro i may call macros j < i; include i may include j < i (no recursion)
    for i in 0..nmac {
        let mut g = Gen { rng, nmacros: i, nincs: 0, in_loop: false, budget: 10 };
        let body = g.frags(1, 3);
        macro_defs.push_str(&format!("{{% macro m{}(p) %}}({{{{ p }}}}{}){{% endmacro %}}", i, body));
    }
    let mut incs = vec![];
    for i in 0..ninc {
        let mut g = Gen { rng, nmacros: 0, nincs: i, in_loop: false, budget: 10 };
        incs.push((format!("inc{}", i), g.frags(1, 3)));
    }
    let mut g = Gen { rng, nmacros: nmac, nincs: ninc, in_loop: false, budget: 24 };
    let main = if inherit {
        let b0 = g.frags(1, 2);
        let b1 = g.frags(1, 2);
        let sup = *g.rng.pick(&[
            "", "{{ super() }}", "{{ super()|upper }}", "{% set sx = super() %}{{ sx }}{{ sx }}", "{{ super() ~ 'x' }}",
            "{% if super() %}y{% endif %}", "{% set sx %}{{ super() }}{% endset %}{{ sx }}", "{% for i in range(2) %}{{ super()|lower }}{% endfor %}",
        ]);
        let selfcall = *g.rng.pick(&["", "", "{{ self.ba() }}", "{{ self.ba()|upper }}", "{% set sb = self.ba() %}{{ sb }}", "{{ rblock('ba') }}"]);
        let base_a = g.frags(1, 2);
        let base_pre = g.frags(1, 2);
        let in_loop = g.rng.chance(1, 3);
        let base = if in_loop {
            format!("{}{{% for z in range(2) %}}{{% block ba %}}{}{{% endblock %}}{{% endfor %}}{{% block bb %}}bb{{% endblock %}}{{{{ probe() }}}}", base_pre, base_a)
        } else {
            format!("{}{{% block ba %}}{}{{% endblock %}}-{{% block bb %}}bb{{% endblock %}}{{{{ probe() }}}}", base_pre, base_a)
        };
        tpls.push(("base".to_string(), base));
        format!("{{% extends 'base' %}}{}{{% block ba %}}{}{}{{% endblock %}}{{% block bb %}}{}{}{{% endblock %}}", macro_defs, b0, sup, b1, selfcall)
    } else {
        format!("{}{}", macro_defs, g.frags(0, 5))
    };
    let mut all = vec![("main".to_string(), main)];
    all.extend(tpls);
    all.extend(incs);
    let mut p = Prog { id: format!("random:{}", idx), group: String::new(), k: 0, mode: "template".into(), templates: all, ctx: default_ctx(), swallow: false, reenter_formatter: false, post: vec![], skel: None };
    p.ctx["n"] = json!(rng.below(4));
    p.ctx["c"] = json!(rng.chance(1, 2));
    p
}

fn emit(p: &Prog, thorough: bool, with_extras: bool, out: &mut impl Write) {
    let res = run_prog(p, thorough, with_extras);
    let case = hex(serde_json::to_string(p).unwrap().as_bytes());
    writeln!(out, "{}\t{}", case, res).unwrap();
}

fn main() {
    quiet_panics();
    install_hook();
    let args: Vec<String> = std::env::args().collect();
    let stdout = std::io::stdout();
    let mut out = std::io::BufWriter::new(stdout.lock());
    match args.get(1).map(|s| s.as_str()) {
        Some("gen") => {
            // gen <tier> [shard nshards]: program number i is run by shard i % nshards
            let thorough = args.get(2).map(|s| s == "thorough").unwrap_or(false);
            let shard: usize = args.get(3).and_then(|s| s.parse().ok()).unwrap_or(0);
            let nshards: usize = args.get(4).and_then(|s| s.parse().ok()).unwrap_or(1).max(1);
            let mut idx = 0usize;
            for p in fixed_programs(thorough) {
                // entry points / configuration / environment variants: once per shape
                let extras = !p.swallow && (p.group.is_empty() || p.k == 0);
                if idx % nshards == shard {
                    emit(&p, thorough, extras, &mut out);
                }
                idx += 1;
            }
            let mut rng = Rng::new(seed_from_env());
            let n = if thorough { 25000 } else { 1500 };
            for i in 0..n {
                let p = random_program(&mut rng, i);
                if idx % nshards == shard {
                    emit(&p, thorough, i < if thorough { 3000 } else { 300 }, &mut out);
                }
                idx += 1;
            }
        }
        Some("skel") => {
            // the structured programs only (debugging aid)
            for p in fixed_programs(false).iter().filter(|p| p.skel.is_some()) {
                emit(p, false, false, &mut out);
            }
        }
        Some("one") => {
            let p: Prog = serde_json::from_slice(&unhex(&args[2])).expect("bad case");
            let thorough = std::env::var("VERIF_TIER").map(|t| t == "thorough").unwrap_or(false);
            emit(&p, thorough, true, &mut out);
        }
        _ => {
            eprintln!("usage: c13 gen <quick|thorough> [shard nshards] | c13 one <hex>");
            std::process::exit(2);
        }
    }
}
