//! C08 correspondence harness: numeric operators on the real engine.
//!
//! Case line:   `<op> <A> [<B>]\t<result>`
//!
//! ops:      add sub mul fdiv rem pow (binary), neg (unary), lt le gt ge eq ne (comparisons)
//! operand:  `lit:<dec>`   integer literal in the template source (negative: `(-N)`, i.e. unary
//!                         minus applied to the literal N, which is how templates spell it)
//!           `u64:<dec>` `i64:<dec>` `u128:<dec>` `i128:<dec>`   context variable of that Rust type
//!           `src:<text>=<dec>`  integer literal spelled `<text>` in the template (any radix, `_`
//!                         separators, leading zeros, `-X` or `(-X)` for negatives); `<dec>` is the value
//!                         the spelling stands for
//!           `i8: i16: i32: isize: u8: u16: u32: usize:` context variable of that Rust type
//!           `su64: si64: su128: si128:` the same types passed through serde (`Serde(x)`)
//!           `bool:0|1`    context variable of type bool (arithmetic only)
//!           `flit:<hex16>` float literal (shortest round-trip decimal text of the bit pattern)
//!           `fsrc:<text>=<hex16>` float literal spelled `<text>` (exponent notation, `.0`, `_`)
//!           `fexp:(X<op>Y)=<hex16>` a float COMPUTED by the engine from the literals X, Y (op `*`, `/`, `%`)
//!           `f64:<hex16>`  context variable of type f64
//! extra streams: `lex <text>` first token of `<text>` as `int:<v>@<end>`, `int128:<v>@<end>`,
//!           `float:<hex16>@<end>`, `err:SyntaxError`;
//!           `f_abs A`, `f_int A`, `f_float A`, `f_round A`, `f_sum A B` (`[a, b]|sum`),
//!           `t_odd A`, `t_even A`, `t_divby A B` (filters and tests)
//! result:   `i:<dec>` integer, `f:<hex16>` float bits, `b:0|1` bool, `err:<ErrorKind>`, `panic`,
//!           `other:<kind>`; a suffix `|render=<text>` is added when rendering `{{ expr }}` does
//!           not print the same integer/bool (or fails differently) as `Expression::eval`.
//!
//! round 5: `div` (true division), float operands of `add sub mul pow`, `bool:` operands everywhere,
//!           `f_roundp A P`, `t_odd/t_even/t_divby` on floats, `f_strint/f_strfloat str:<hex>`,
//!           `nest:<op1>,<op2> A B C` = `(A op1 B) op2 C` (suffix `|stepwise=` when evaluating the inner
//!           operator first gives something else), suffix `|via=` when a filter / test applied by name
//!           through map / select disagrees with the direct form
//!
//! usage: c08 gen <quick|thorough>    print all case lines with results
//!        c08 cases <quick|thorough>  print the case lines only (the check shards them over `run`)
//!        c08 one <op> <A> [<B>]      run one case (replay)
//!        c08 run                     read case lines from stdin, print with results
use minijinja::value::{Serde, Value};
use minijinja::{context, Environment};
use mjh::*;
use std::collections::HashSet;
use std::io::{BufRead, Write};

// ------------------------------------------------------------------ mathematical integers
/// an integer in (-2^128, 2^128): sign and magnitude
#[derive(Clone, Copy, PartialEq, Eq, Hash, Debug)]
struct Z {
    neg: bool,
    mag: u128,
}

const P127: u128 = 1u128 << 127;

impl Z {
    fn new(neg: bool, mag: u128) -> Z {
        Z { neg: neg && mag != 0, mag }
    }
    fn pos(mag: u128) -> Z {
        Z::new(false, mag)
    }
    /// inside the property's operand range [-2^127, 2^128)
    fn in_range(&self) -> bool {
        !self.neg || self.mag <= P127
    }
    fn parse(s: &str) -> Z {
        match s.strip_prefix('-') {
            Some(m) => Z::new(true, m.parse().expect("bad integer")),
            None => Z::new(false, s.parse().expect("bad integer")),
        }
    }
    fn text(&self) -> String {
        if self.neg {
            format!("-{}", self.mag)
        } else {
            format!("{}", self.mag)
        }
    }
    fn as_u64(&self) -> Option<u64> {
        if self.neg { None } else { u64::try_from(self.mag).ok() }
    }
    fn as_u128(&self) -> Option<u128> {
        if self.neg { None } else { Some(self.mag) }
    }
    fn as_i128(&self) -> Option<i128> {
        if self.neg {
            if self.mag <= P127 { Some((self.mag as i128).wrapping_neg()) } else { None }
        } else {
            i128::try_from(self.mag).ok()
        }
    }
    fn as_i64(&self) -> Option<i64> {
        self.as_i128().and_then(|x| i64::try_from(x).ok())
    }
    /// forms in which this value can be written
    fn forms(&self) -> Vec<&'static str> {
        let mut v = vec!["lit"];
        if self.as_u64().is_some() { v.push("u64"); }
        if self.as_i64().is_some() { v.push("i64"); }
        if self.as_u128().is_some() { v.push("u128"); }
        if self.as_i128().is_some() { v.push("i128"); }
        v
    }
}

// ------------------------------------------------------------------ operands
/// an operand: its source text, the text that forces run-time evaluation (a literal `L` is written
/// `[L][0]`, a negative one `(-[L][0])`, so that the constant folder cannot see through it), and
/// the context value for variable forms
struct Opd {
    src: String,
    rt: String,
    val: Option<Value>,
}

fn lit_opd(text: &str) -> Opd {
    // `(-X)` / `-X` / `X`
    let inner = text.strip_prefix('(').and_then(|t| t.strip_suffix(')')).unwrap_or(text);
    let rt = match inner.strip_prefix('-') {
        Some(body) => format!("(-([{}][0]))", body),
        None => format!("([{}][0])", inner),
    };
    Opd { src: text.to_string(), rt, val: None }
}

fn var_opd(name: &str, v: Value) -> Opd {
    Opd { src: name.to_string(), rt: name.to_string(), val: Some(v) }
}

fn operand(tok: &str, name: &str) -> Opd {
    let (form, val) = tok.split_once(':').expect("operand needs form:value");
    let serde_path = val.as_bytes().last().map_or(false, |c| c % 2 == 1);
    macro_rules! var {
        ($x:expr) => {{
            let x = $x;
            var_opd(name, if serde_path { Value::from(Serde(x)) } else { Value::from(x) })
        }};
    }
    let bits64 = |h: &str| f64::from_bits(u64::from_str_radix(h, 16).expect("bad float bits"));
    let bits32 = |h: &str| f32::from_bits(u32::from_str_radix(h, 16).expect("bad f32 bits"));
    match form {
        "lit" => {
            let z = Z::parse(val);
            lit_opd(&if z.neg { format!("(-{})", z.mag) } else { format!("{}", z.mag) })
        }
        "src" | "fsrc" => {
            let (text, _) = val.rsplit_once('=').expect("src needs text=value");
            lit_opd(text)
        }
        "fexp" => {
            // `(X<op>Y)=bits`: a float the ENGINE computes from two literals (folded at compile time in
            // the source form, computed at run time in the `rt` form)
            let (text, _) = val.rsplit_once('=').expect("fexp needs text=bits");
            let inner = text.strip_prefix('(').and_then(|t| t.strip_suffix(')')).expect("fexp text is parenthesised");
            let at = inner.char_indices().find(|(i, c)| *i > 0 && matches!(c, '*' | '/' | '%')).expect("fexp needs an operator").0;
            let (x, y) = (lit_opd(&inner[..at]), lit_opd(&inner[at + 1..]));
            Opd { src: text.to_string(), rt: format!("({}{}{})", x.rt, &inner[at..at + 1], y.rt), val: None }
        }
        "str" => var_opd(name, Value::from(String::from_utf8(unhex(val)).expect("bad utf8"))),
        "bool" => var_opd(name, Value::from(val == "1")),
        "i8" => var_opd(name, Value::from(val.parse::<i8>().expect("not an i8"))),
        "i16" => var_opd(name, Value::from(val.parse::<i16>().expect("not an i16"))),
        "i32" => var_opd(name, Value::from(val.parse::<i32>().expect("not an i32"))),
        "isize" => var_opd(name, Value::from(val.parse::<isize>().expect("not an isize"))),
        "u8" => var_opd(name, Value::from(val.parse::<u8>().expect("not a u8"))),
        "u16" => var_opd(name, Value::from(val.parse::<u16>().expect("not a u16"))),
        "u32" => var_opd(name, Value::from(val.parse::<u32>().expect("not a u32"))),
        "usize" => var_opd(name, Value::from(val.parse::<usize>().expect("not a usize"))),
        "su64" => var_opd(name, Value::from(Serde(Z::parse(val).as_u64().expect("not a u64")))),
        "si64" => var_opd(name, Value::from(Serde(Z::parse(val).as_i64().expect("not an i64")))),
        "su128" => var_opd(name, Value::from(Serde(Z::parse(val).as_u128().expect("not a u128")))),
        "si128" => var_opd(name, Value::from(Serde(Z::parse(val).as_i128().expect("not an i128")))),
        "u64" => var!(Z::parse(val).as_u64().expect("not a u64")),
        "i64" => var!(Z::parse(val).as_i64().expect("not an i64")),
        "u128" => var!(Z::parse(val).as_u128().expect("not a u128")),
        "i128" => var!(Z::parse(val).as_i128().expect("not an i128")),
        "flit" => {
            let f = bits64(val);
            assert!(f.is_finite(), "float literals must be finite");
            let t = format!("{:?}", f.abs());
            lit_opd(&if f.is_sign_negative() { format!("(-{})", t) } else { t })
        }
        "f64" => var!(bits64(val)),
        "sf64" => var_opd(name, Value::from(Serde(bits64(val)))),
        "f32" => var_opd(name, Value::from(bits32(val))),
        "sf32" => var_opd(name, Value::from(Serde(bits32(val)))),
        _ => panic!("bad operand form {form}"),
    }
}

fn op_src(op: &str) -> &'static str {
    match op {
        "add" => "+", "sub" => "-", "mul" => "*", "fdiv" => "//", "rem" => "%", "pow" => "**", "div" => "/",
        "lt" => "<", "le" => "<=", "gt" => ">", "ge" => ">=", "eq" => "==", "ne" => "!=",
        _ => panic!("bad op {op}"),
    }
}

fn cmp_src(op: &str) -> &'static str {
    match op {
        "lt" => "<", "le" => "<=", "gt" => ">", "ge" => ">=", "eq" => "==", "ne" => "!=",
        "in" => "in", "notin" => "not in",
        _ => panic!("bad comparison {op}"),
    }
}

/// a chained comparison `t0 op1 t1 op2 t2 ...`; the right operand of `in` / `not in` is the list
/// `[t_next, t0]`, which is then the (preserved) left operand of the following link
fn chain_links(ops: &[&str], t: &[&str]) -> Vec<(String, &'static str, String)> {
    let mut links = Vec::new();
    let mut left = t[0].to_string();
    for (i, op) in ops.iter().enumerate() {
        let right = if *op == "in" || *op == "notin" { format!("[{}, {}]", t[i + 1], t[0]) } else { t[i + 1].to_string() };
        links.push((left.clone(), cmp_src(op), right.clone()));
        left = right;
    }
    links
}

/// expression text of a case for given operand texts
fn expr_of(op: &str, t: &[&str]) -> String {
    let a = t[0];
    let b = if t.len() > 1 { t[1] } else { "" };
    if let Some(ops) = op.strip_prefix("chain:") {
        let ops: Vec<&str> = ops.split(',').collect();
        let links = chain_links(&ops, t);
        let mut e = links[0].0.clone();
        for (_, o, r) in &links {
            e.push_str(&format!(" {} {}", o, r));
        }
        return e;
    }
    if let Some(ops) = op.strip_prefix("conj:") {
        // the conjunction of the links of the chain, each link a two-operand comparison
        let ops: Vec<&str> = ops.split(',').collect();
        return chain_links(&ops, t).iter().map(|(l, o, r)| format!("(({}) {} ({}))", l, o, r)).collect::<Vec<_>>().join(" and ");
    }
    if let Some(ops) = op.strip_prefix("nest:") {
        let (o1, o2) = ops.split_once(',').expect("nest needs two operators");
        return format!("({} {} {}) {} {}", a, op_src(o1), b, op_src(o2), t[2]);
    }
    if let Some(name) = op.strip_prefix("is:") {
        return format!("{} is {}({})", a, name, b);
    }
    if let Some(name) = op.strip_prefix("sel:") {
        return format!("[{}]|select('{}', {})|list|length", a, name, b);
    }
    if let Some(name) = op.strip_prefix("rej:") {
        return format!("[{}]|reject('{}', {})|list|length", a, name, b);
    }
    if let Some(name) = op.strip_prefix("selattr:") {
        return format!("[{{'v': {}}}]|selectattr('v', '{}', {})|list|length", a, name, b);
    }
    let tmpl = match op {
        "neg" => "-<A>",
        "f_abs" => "<A>|abs",
        "f_int" => "<A>|int",
        "f_float" => "<A>|float",
        "f_round" => "<A>|round",
        "f_roundp" => "<A>|round(<B>)",
        "f_sum" => "[<A>, <B>]|sum",
        "f_min" => "[<A>, <B>]|min",
        "f_max" => "[<A>, <B>]|max",
        "f_sortfirst" => "[<A>, <B>]|sort|first",
        "f_sortlast" => "[<A>, <B>]|sort|last",
        "f_rsortfirst" => "[<A>, <B>]|sort(reverse=true)|first",
        "f_uniquelen" => "[<A>, <B>]|unique|list|length",
        "f_in" => "<A> in [<B>]",
        "f_concat" => "<A> ~ <B>",
        "f_range" => "range(<A>, <B>)|list|join(',')",
        "f_rangelen" => "range(<A>, <B>)|length",
        "f_rangestep" => "range(0, <A>, <B>)|list|join(',')",
        "f_batchlen" => "range(<A>)|batch(<B>)|list|length",
        "f_fsize" => "<A>|filesizeformat",
        "f_trunc" => "'abcdefghijklmnopqrstuvwxyz'|truncate(length=<A>)",
        "f_indent" => "'a\nb'|indent(<A>)",
        "f_strint" => "<A>|int",
        "f_strfloat" => "<A>|float",
        "t_odd" => "<A> is odd",
        "t_even" => "<A> is even",
        "t_divby" => "<A> is divisibleby(<B>)",
        _ => return format!("{} {} {}", a, op_src(op), b),
    };
    tmpl.replace("<A>", a).replace("<B>", b)
}

fn canon(v: &Value) -> String {
    if v.is_integer() {
        return format!("i:{}", v);
    }
    if v.is_number() {
        return match f64::try_from(v.clone()) {
            Ok(f) => format!("f:{:016x}", f.to_bits()),
            Err(_) => "other:number".into(),
        };
    }
    if v.kind() == minijinja::value::ValueKind::Bool {
        return format!("b:{}", if v.is_true() { 1 } else { 0 });
    }
    if let Some(s) = v.as_str() {
        return format!("s:{}", hex(s.as_bytes()));
    }
    if v.is_undefined() {
        return "undef".into();
    }
    format!("other:{:?}", v.kind())
}

fn run_lex(text: &str) -> String {
    use minijinja::machinery::{tokenize, Token, WhitespaceConfig};
    use minijinja::syntax::SyntaxConfig;
    let r = guarded(|| {
        match tokenize(text, true, SyntaxConfig::default(), WhitespaceConfig::default()).next() {
            Some(Ok((Token::Int(v), span))) => format!("int:{}@{}", v, span.end_offset),
            Some(Ok((Token::Int128(v), span))) => format!("int128:{}@{}", *v, span.end_offset),
            Some(Ok((Token::Float(f), span))) => format!("float:{:016x}@{}", f.to_bits(), span.end_offset),
            Some(Ok((other, _))) => format!("other:{}", other),
            Some(Err(e)) => format!("err:{}", error_kind_name(&e)),
            None => "none".to_string(),
        }
    });
    r.unwrap_or_else(|_| "panic".to_string())
}

/// the environments of the embedding axis
struct Envs {
    plain: Environment<'static>,
    custom: Environment<'static>,
    strict: Environment<'static>,
    fueled: Environment<'static>,
}

fn make_envs() -> Envs {
    use minijinja::syntax::SyntaxConfig;
    let mut plain = Environment::new();
    minijinja_contrib::add_to_environment(&mut plain);
    let mut custom = Environment::new();
    minijinja_contrib::add_to_environment(&mut custom);
    custom.set_syntax(
        SyntaxConfig::builder()
            .block_delimiters("@%{", "}%@")
            .variable_delimiters("@@{", "}@@")
            .comment_delimiters("@#{", "}#@")
            .build()
            .unwrap(),
    );
    let mut strict = Environment::new();
    minijinja_contrib::add_to_environment(&mut strict);
    strict.set_undefined_behavior(minijinja::UndefinedBehavior::Strict);
    strict.set_debug(false);
    let mut fueled = Environment::new();
    minijinja_contrib::add_to_environment(&mut fueled);
    fueled.set_fuel(Some(1_000_000));
    Envs { plain, custom, strict, fueled }
}

const N_EMBED: u64 = 18;

/// render the case through another feature / entry point; the printed text must be what
/// `Expression::eval` displays
fn run_embedding(envs: &Envs, k: u64, op: &str, opds: &[Opd], ctx: &Value) -> Result<String, minijinja::Error> {
    let srcs: Vec<&str> = opds.iter().map(|o| o.src.as_str()).collect();
    let expr = expr_of(op, &srcs);
    const PARAMS: [&str; 4] = ["p", "q", "r", "s"];
    let with_first = |first: &str| -> String {
        let mut v = srcs.clone();
        v[0] = first;
        expr_of(op, &v)
    };
    match k {
        0 => envs.plain.render_str(&format!("{{% set x = {} %}}{{{{ x }}}}", expr), ctx),
        1 => {
            let body = expr_of(op, &PARAMS[..srcs.len()]);
            envs.plain.render_str(
                &format!("{{% macro m(p, q=0, r=0, s=0) %}}{{{{ {} }}}}{{% endmacro %}}{{{{ m({}) }}}}", body, srcs.join(", ")),
                ctx,
            )
        }
        2 => envs.plain.render_str(
            &format!("{{% set ns = namespace(x={}) %}}{{% set ns.x = {} %}}{{{{ ns.x }}}}", srcs[0], with_first("(ns.x)")),
            ctx,
        ),
        3 => envs.plain.render_str(
            &format!("{{% for v in [{}] %}}{{{{ {} }}}}{{% endfor %}}", srcs[0], with_first("v")),
            ctx,
        ),
        4 => {
            let mut env = Environment::new();
            minijinja_contrib::add_to_environment(&mut env);
            env.add_template_owned("t".to_string(), format!("X{{% block b %}}{{{{ {} }}}}{{% endblock %}}Y", expr))?;
            let t = env.get_template("t")?;
            let mut captured = t.render_captured(ctx.clone())?;
            captured.with_state_mut(|state| state.render_block("b"))
        }
        5 => envs.custom.render_str(&format!("@@{{ {} }}@@", expr), ctx),
        6 => envs.plain.render_str(&format!("{{% autoescape 'html' %}}{{{{ {} }}}}{{% endautoescape %}}", expr), ctx),
        7 => envs.plain.render_str(&format!("{{{{ ({}) ~ \"\" }}}}", expr), ctx),
        8 => envs.strict.render_str(&format!("{{% if true %}}{{{{ {} }}}}{{% endif %}}", expr), ctx),
        9 => {
            let mut env = Environment::new();
            minijinja_contrib::add_to_environment(&mut env);
            env.add_template_owned("page.txt".to_string(), format!("{{{{ {} }}}}", expr))?;
            let mut out = Vec::new();
            env.get_template("page.txt")?.render_captured_to(ctx.clone(), &mut out)?;
            Ok(String::from_utf8(out).unwrap())
        }
        11 => envs.plain.render_str(&format!("{{{{ ({}) if true else 0 }}}}", expr), ctx),
        12 => envs.plain.render_str(&format!("{{% with x = {} %}}{{{{ x }}}}{{% endwith %}}", expr), ctx),
        13 => envs.plain.render_str(&format!("{{{{ [0, {}][1] }}}}", expr), ctx),
        14 => envs.plain.render_str(&format!("{{{{ {{'k': {}}}['k'] }}}}", expr), ctx),
        15 => envs.plain.render_str(&format!("{{{{ nosuchvariable|default({}) }}}}", expr), ctx),
        17 => envs.fueled.render_str(&format!("{{{{ {} }}}}", expr), ctx),
        16 => envs.plain.render_str(&format!("{{% for i in range(1) %}}{{% if true %}}{{{{ dict(k={}).k }}}}{{% endif %}}{{% endfor %}}", expr), ctx),
        _ => {
            // `State::call_macro` with the operands as argument values
            let body = expr_of(op, &PARAMS[..srcs.len()]);
            let msrc = format!("{{% macro m(p, q=0, r=0, s=0) %}}{{{{ {} }}}}{{% endmacro %}}", body);
            let t = envs.plain.template_from_str(&msrc)?;
            let mut args = Vec::new();
            for sx in &srcs {
                args.push(envs.plain.compile_expression(sx)?.eval(ctx.clone())?);
            }
            let mut captured = t.render_captured(ctx.clone())?;
            captured.with_state_mut(|state| state.call_macro("m", &args))
        }
    }
}

fn case_hash(case: &[&str]) -> u64 {
    let mut h: u64 = 0xcbf29ce484222325;
    for f in case {
        for b in f.bytes().chain(std::iter::once(b' ')) {
            h ^= b as u64;
            h = h.wrapping_mul(0x100000001b3);
        }
    }
    h
}

fn run_case(envs: &Envs, fields: &[&str]) -> String {
    let env = &envs.plain;
    let op = fields[0];
    if op == "lex" {
        return run_lex(fields[1]);
    }
    const NAMES: [&str; 4] = ["a", "b", "c", "d"];
    let opds: Vec<Opd> = fields[1..].iter().enumerate().map(|(i, t)| operand(t, NAMES[i])).collect();
    let srcs: Vec<&str> = opds.iter().map(|o| o.src.as_str()).collect();
    let rts: Vec<&str> = opds.iter().map(|o| o.rt.as_str()).collect();
    let src = expr_of(op, &srcs);
    let val = |i: usize| opds.get(i).and_then(|o| o.val.clone());
    let ctx = context! { a => val(0), b => val(1), c => val(2), d => val(3) };
    let eval = |text: &str| -> (String, Option<String>) {
        let r = guarded(|| {
            let expr = env.compile_expression(text)?;
            let out = expr.eval(&ctx)?;
            Ok::<(String, String), minijinja::Error>((canon(&out), out.to_string()))
        });
        match r {
            Ok(Ok((c, s))) => (c, Some(s)),
            Ok(Err(e)) => (format!("err:{}", error_kind_name(&e)), None),
            Err(_) => ("panic".to_string(), None),
        }
    };
    let (res, shown) = eval(&src);
    let mut out = res.clone();
    // the same expression printed by a template
    let tsrc = format!("{{{{ {} }}}}", src);
    let rr = guarded(|| env.render_str(&tsrc, &ctx));
    let rendered = match rr {
        Ok(Ok(s)) => s,
        Ok(Err(e)) => format!("err:{}", error_kind_name(&e)),
        Err(_) => "panic".to_string(),
    };
    let expect_render = if let Some(d) = res.strip_prefix("i:") {
        d.to_string()
    } else if res == "b:1" {
        "True".to_string()
    } else if res == "b:0" {
        "False".to_string()
    } else if res.starts_with("err:") || res == "panic" {
        res.clone()
    } else {
        shown.clone().unwrap_or_default()
    };
    if rendered != expect_render {
        out.push_str(&format!("|render={}", rendered));
    }
    // a float result is observed as text: the oracle reads the text back (it has to denote the same double)
    if res.starts_with("f:") {
        if let Some(s) = &shown {
            out.push_str(&format!("|shown={}", s.replace(['|', '\t', '\n'], "?")));
        }
    }
    // literal operands: the constant folder must agree with the run-time operator
    if rts != srcs {
        let (rt_res, _) = eval(&expr_of(op, &rts));
        if rt_res != res {
            out.push_str(&format!("|runtime={}", rt_res));
        }
    }
    // a chained comparison is the conjunction of its links (each a two-operand comparison)
    if let Some(ops) = op.strip_prefix("chain:") {
        let (conj, _) = eval(&expr_of(&format!("conj:{}", ops), &srcs));
        if conj != res {
            out.push_str(&format!("|conj={}", conj));
        }
        if rts != srcs {
            let (conj_rt, _) = eval(&expr_of(&format!("conj:{}", ops), &rts));
            if conj_rt != res {
                out.push_str(&format!("|conjrt={}", conj_rt));
            }
        }
    }
    // filters and tests applied by name through map / select must give what the direct form gives
    let via = match op {
        "f_abs" | "f_int" | "f_float" | "f_round" => Some(format!("[{}]|map('{}')|first", srcs[0], &op[2..])),
        "t_odd" | "t_even" => Some(format!("[{}]|select('{}')|list|length == 1", srcs[0], &op[2..])),
        "t_divby" => Some(format!("[{}]|select('divisibleby', {})|list|length == 1", srcs[0], srcs[1])),
        _ => None,
    };
    if let Some(vsrc) = via {
        let (v_res, _) = eval(&vsrc);
        if v_res != res {
            out.push_str(&format!("|via={}", v_res));
        }
    }
    // `(A op1 B) op2 C` must be `V op2 C` where V is the value of `A op1 B`
    if let Some(ops) = op.strip_prefix("nest:") {
        let (o1, o2) = ops.split_once(',').expect("nest needs two operators");
        let inner = format!("{} {} {}", srcs[0], op_src(o1), srcs[1]);
        // the value of the inner operator alone: the oracle judges the outer operator on it (a COMPUTED operand)
        let (inner_res, _) = eval(&inner);
        out.push_str(&format!("|inner={}", inner_res));
        let step = guarded(|| {
            let v = env.compile_expression(&inner)?.eval(&ctx)?;
            let ctx2 = context! { a => val(0), b => val(1), c => val(2), v => v };
            let outv = env.compile_expression(&format!("v {} {}", op_src(o2), srcs[2]))?.eval(ctx2)?;
            Ok::<String, minijinja::Error>(canon(&outv))
        });
        let stepwise = match step {
            Ok(Ok(c)) => c,
            Ok(Err(e)) => format!("err:{}", error_kind_name(&e)),
            Err(_) => "panic".to_string(),
        };
        if stepwise != res {
            out.push_str(&format!("|stepwise={}", stepwise));
        }
    }
    // a share of the cases also through another feature / entry point
    let h = case_hash(fields);
    if h % 4 == 0 {
        let k = (h / 4) % N_EMBED;
        let er = guarded(|| run_embedding(envs, k, op, &opds, &ctx));
        let got = match er {
            Ok(Ok(s)) => s,
            Ok(Err(e)) => format!("err:{}", error_kind_name(&e)),
            Err(_) => "panic".to_string(),
        };
        if got != expect_render {
            out.push_str(&format!("|embed{}={}", k, got.replace(['\t', '\n'], " ")));
        }
    }
    out
}

// ------------------------------------------------------------------ generation
fn zoo_ints() -> Vec<Z> {
    let mut pos: Vec<u128> = vec![0, 1, 2, 3, 7, 10];
    for k in [31u32, 32, 53, 63, 64, 127] {
        let p = 1u128 << k;
        pos.extend([p - 1, p, p + 1]);
    }
    pos.extend([1u128 << 126, u128::MAX - 1, u128::MAX]);
    let mut out = Vec::new();
    for &m in &pos {
        out.push(Z::pos(m));
        if m != 0 && m <= P127 {
            out.push(Z::new(true, m));
        }
    }
    out
}

fn zoo_floats() -> Vec<f64> {
    let mut v: Vec<f64> = vec![
        0.0, 0.5, 1.0, 1.5, 2.0, 2.5, 3.0, 7.0, 0.1, 0.3, 1e-7, 5e-324, 2.2250738585072014e-308,
        1e30, 1e300, f64::MAX, 4503599627370496.5,
        9007199254740991.0, 9007199254740992.0, 9007199254740994.0,
        9223372036854774784.0, 9223372036854775808.0, 9223372036854777856.0,
        18446744073709549568.0, 18446744073709551616.0, 18446744073709555712.0,
        170141183460469212842221372237303250944.0, 170141183460469231731687303715884105728.0,
        170141183460469269510619166673045815296.0,
        340282366920938425684442744474606501888.0, 340282366920938463463374607431768211456.0,
        2147483648.0, 4294967296.0,
    ];
    let n = v.len();
    for i in 0..n {
        v.push(-v[i]);
    }
    v
}

fn rand_int(rng: &mut Rng) -> Z {
    let centers: [u128; 10] = [0, 1 << 31, 1 << 32, 1 << 53, 1 << 63, 1 << 64, 1 << 126, 1 << 127, u128::MAX, 1 << 100];
    loop {
        let z = match rng.below(10) {
            0..=4 => {
                // near a boundary
                let c = *rng.pick(&centers);
                let d = if rng.chance(2, 3) { rng.below(17) as u128 } else { rng.below(1 << 20) as u128 };
                let mag = if rng.chance(1, 2) { c.saturating_add(d) } else { c.saturating_sub(d) };
                Z::new(rng.chance(1, 2), mag)
            }
            5 => Z::new(rng.chance(1, 2), rng.below(1000) as u128),
            6 => Z::new(rng.chance(1, 2), rng.next() as u32 as u128),
            7 => Z::new(rng.chance(1, 2), rng.next() as u128),
            8 => Z::new(rng.chance(1, 2), ((rng.next() as u128) << 64 | rng.next() as u128) >> rng.below(70)),
            _ => Z::new(rng.chance(1, 2), (rng.next() as u128) >> rng.below(64)),
        };
        if z.in_range() {
            return z;
        }
    }
}

/// second operand chosen so that `a op b` lands next to an overflow boundary
fn targeted(rng: &mut Rng, op: &str, a: Z) -> Option<Z> {
    let targets: [u128; 5] = [1 << 63, 1 << 64, 1 << 127, u128::MAX, (1 << 127) - 1];
    let t = *rng.pick(&targets);
    let d = rng.below(5) as i128 - 2;
    let adj = |m: u128| -> u128 { if d < 0 { m.saturating_sub((-d) as u128) } else { m.saturating_add(d as u128) } };
    let z = match op {
        "add" | "sub" => {
            // |b| = |t - |a||
            let m = if t >= a.mag { t - a.mag } else { a.mag - t };
            Z::new(rng.chance(1, 2), adj(m))
        }
        "mul" | "fdiv" | "rem" => {
            if a.mag == 0 { return None; }
            Z::new(rng.chance(1, 2), adj(t / a.mag))
        }
        _ => return None,
    };
    if z.in_range() { Some(z) } else { None }
}

fn rand_pow_pair(rng: &mut Rng) -> (Z, Z) {
    let base = match rng.below(6) {
        0..=2 => Z::new(rng.chance(1, 2), rng.below(13) as u128),
        3 => {
            let k = rng.below(65) as u32;
            let d = rng.below(3) as u128;
            Z::new(rng.chance(1, 2), ((1u128 << k) + d).saturating_sub(1))
        }
        4 => Z::new(rng.chance(1, 2), rng.below(100000) as u128),
        _ => rand_int(rng),
    };
    let exp = match rng.below(8) {
        0..=4 => Z::pos(rng.below(131) as u128),
        5 => Z::pos((1u128 << 32) - 2 + rng.below(4) as u128),
        6 => Z::new(true, rng.below(4) as u128),
        _ => rand_int(rng),
    };
    (base, exp)
}

fn rand_float(rng: &mut Rng) -> f64 {
    loop {
        let f = match rng.below(8) {
            0 => (rng.below(2000) as f64 - 1000.0) / 10.0,
            1 => (rng.below(200) as f64 - 100.0) / 8.0,
            2 => {
                // near an integer-type boundary
                let k = *rng.pick(&[31i32, 32, 53, 63, 64, 127, 128]);
                let base = (2.0f64).powi(k);
                let bits = base.to_bits().wrapping_add(rng.below(9)).wrapping_sub(4);
                let f = f64::from_bits(bits);
                if rng.chance(1, 2) { -f } else { f }
            }
            3 => {
                // integer valued with a few fraction bits
                let m = (rng.next() >> rng.below(60)) as f64;
                let f = m / *rng.pick(&[1.0, 2.0, 4.0, 1024.0]);
                if rng.chance(1, 2) { -f } else { f }
            }
            4 => {
                // random mantissa, moderate exponent
                let e = 1023 - 60 + rng.below(200);
                f64::from_bits((rng.next() & ((1 << 52) - 1)) | (e << 52) | (rng.below(2) << 63))
            }
            5 => f64::from_bits(rng.next()),
            6 => (rng.below(20) as f64 - 10.0) * *rng.pick(&[0.1, 0.01, 0.25, 1e-3, 3.0]),
            _ => {
                let e = rng.below(2047);
                f64::from_bits((rng.next() & ((1 << 52) - 1)) | (e << 52) | (rng.below(2) << 63))
            }
        };
        if f.is_finite() {
            return f;
        }
    }
}

/// insert `n` underscores at random interior positions (never at the end; at the very start only
/// when `at_start` — i.e. right after a radix prefix)
fn sprinkle(rng: &mut Rng, digits: &str, n: u64, at_start: bool) -> String {
    let mut v: Vec<char> = digits.chars().collect();
    for _ in 0..n {
        let lo = if at_start { 0 } else { 1 };
        let hi = v.len(); // insert before index in lo..hi  (hi - 1 is the last char, so never trailing)
        if hi <= lo {
            break;
        }
        let pos = lo + rng.below((hi - lo) as u64) as usize;
        v.insert(pos, '_');
    }
    v.into_iter().collect()
}

/// a spelling of the non-negative integer `mag` chosen by `style` (0..STYLES) plus random details
const STYLES: u64 = 12;
fn spell_mag(rng: &mut Rng, mag: u128, style: u64) -> String {
    let (prefix, mut digits): (&str, String) = match style {
        0 => ("", format!("{}", mag)),
        1 => ("", format!("{}", mag)),
        2 => ("0x", format!("{:x}", mag)),
        3 => ("0X", format!("{:X}", mag)),
        4 => ("0x", format!("{:X}", mag)),
        5 => ("0o", format!("{:o}", mag)),
        6 => ("0O", format!("{:o}", mag)),
        7 => ("0b", format!("{:b}", mag)),
        8 => ("0B", format!("{:b}", mag)),
        9 => ("0x", format!("{:x}", mag)),
        10 => ("0o", format!("{:o}", mag)),
        _ => ("0b", format!("{:b}", mag)),
    };
    // styles 1, 9, 10, 11 always carry decoration; the others sometimes
    let decorate = matches!(style, 1 | 9 | 10 | 11) || rng.chance(1, 3);
    if decorate {
        if rng.chance(1, 2) {
            let zeros = 1 + rng.below(3) as usize;
            digits = format!("{}{}", "0".repeat(zeros), digits);
        }
        let n = rng.below(4);
        let at_start = !prefix.is_empty() && rng.chance(1, 4);
        digits = sprinkle(rng, &digits, n, at_start);
        if matches!(style, 2 | 9) && rng.chance(1, 3) {
            // mixed-case hex digits
            digits = digits.chars().enumerate().map(|(i, c)| if i % 2 == 0 { c.to_ascii_uppercase() } else { c }).collect();
        }
    }
    format!("{}{}", prefix, digits)
}

fn spell_int_style(rng: &mut Rng, z: Z, style: u64, bare_minus_ok: bool) -> String {
    let body = spell_mag(rng, z.mag, style);
    let text = if z.neg {
        if bare_minus_ok && rng.chance(1, 2) { format!("-{}", body) } else { format!("(-{})", body) }
    } else {
        body
    };
    format!("src:{}={}", text, z.text())
}

fn spell_int(rng: &mut Rng, z: Z, bare_minus_ok: bool) -> String {
    let style = rng.below(STYLES);
    spell_int_style(rng, z, style, bare_minus_ok)
}

/// spellings of a finite float: shortest round-trip, exponent notation (e / E / e+), `.0` form of
/// integral values, `_` separators in the integer part
fn spell_float(rng: &mut Rng, f: f64, bare_minus_ok: bool) -> String {
    let a = f.abs();
    let mut body = match rng.below(6) {
        0 => format!("{:?}", a),
        1 => format!("{:e}", a),
        2 => format!("{:E}", a),
        3 => {
            let t = format!("{:e}", a);
            match t.split_once('e') {
                Some((m, e)) if !e.starts_with('-') => format!("{}e+{}", m, e),
                _ => t,
            }
        }
        4 if a.fract() == 0.0 => format!("{:.1}", a),
        _ => {
            let t = format!("{:?}", a);
            if t.contains('e') { t } else { format!("{}e0", t) }
        }
    };
    if rng.chance(1, 4) {
        // separators inside the leading digit run
        let lead = body.chars().take_while(|c| c.is_ascii_digit()).count();
        if lead >= 2 {
            let n = 1 + rng.below(2);
            let head = sprinkle(rng, &body[..lead], n, false);
            body = format!("{}{}", head, &body[lead..]);
        }
    }
    let text = if f.is_sign_negative() {
        if bare_minus_ok && rng.chance(1, 2) { format!("-{}", body) } else { format!("(-{})", body) }
    } else {
        body
    };
    format!("fsrc:{}={:016x}", text, f.to_bits())
}

/// `src:-X=v` -> `src:(-X)=v` (left operand of `**`: a bare minus would depend on precedence)
fn paren_minus(tok: &str) -> String {
    for p in ["src:-", "fsrc:-"] {
        if let Some(rest) = tok.strip_prefix(p) {
            let (text, v) = rest.rsplit_once('=').unwrap();
            return format!("{}(-{})={}", &p[..p.len() - 1], text, v);
        }
    }
    tok.to_string()
}

/// re-spell every `lit:`/`flit:` operand of a case
fn respell(rng: &mut Rng, case: &str) -> Option<String> {
    let f: Vec<&str> = case.split(' ').collect();
    let mut changed = false;
    let mut out = vec![f[0].to_string()];
    for (i, t) in f[1..].iter().enumerate() {
        if let Some(v) = t.strip_prefix("lit:") {
            // a bare minus in front of the left operand of `**` depends on operator precedence
            let bare_ok = !(f[0] == "pow" && i == 0);
            out.push(spell_int(rng, Z::parse(v), bare_ok));
            changed = true;
        } else if let Some(h) = t.strip_prefix("flit:") {
            let x = f64::from_bits(u64::from_str_radix(h, 16).unwrap());
            let bare_ok = !(f[0] == "pow" && i == 0);
            out.push(spell_float(rng, x, bare_ok));
            changed = true;
        } else {
            out.push(t.to_string());
        }
    }
    if changed { Some(out.join(" ")) } else { None }
}

const SMALL_TYPES: [(&str, i128, i128); 8] = [
    ("i8", i8::MIN as i128, i8::MAX as i128),
    ("i16", i16::MIN as i128, i16::MAX as i128),
    ("i32", i32::MIN as i128, i32::MAX as i128),
    ("isize", isize::MIN as i128, isize::MAX as i128),
    ("u8", 0, u8::MAX as i128),
    ("u16", 0, u16::MAX as i128),
    ("u32", 0, u32::MAX as i128),
    ("usize", 0, usize::MAX as i128),
];

/// an operand from one of the "other" numeric entry points
fn other_entry_tok(rng: &mut Rng) -> String {
    match rng.below(10) {
        0 => format!("bool:{}", rng.below(2)),
        1..=5 => {
            let (name, lo, hi) = *rng.pick(&SMALL_TYPES);
            let v = match rng.below(5) {
                0 => lo,
                1 => hi,
                2 => lo + rng.below(3) as i128,
                3 => hi - rng.below(3) as i128,
                _ => rng.below(3) as i128 - if lo < 0 { 1 } else { 0 },
            };
            format!("{}:{}", name, v.clamp(lo, hi))
        }
        _ => {
            let z = rand_int(rng);
            let mut forms = Vec::new();
            if z.as_u64().is_some() { forms.push("su64"); }
            if z.as_i64().is_some() { forms.push("si64"); }
            if z.as_u128().is_some() { forms.push("su128"); }
            if z.as_i128().is_some() { forms.push("si128"); }
            format!("{}:{}", rng.pick(&forms), z.text())
        }
    }
}

fn int_tok(rng: &mut Rng, z: Z, form: Option<&str>) -> String {
    let f = match form {
        Some(f) => f,
        None => {
            let fs = z.forms();
            *rng.pick(&fs)
        }
    };
    format!("{}:{}", f, z.text())
}

fn float_tok(rng: &mut Rng, f: f64) -> String {
    format!("{}:{:016x}", if rng.chance(1, 2) { "flit" } else { "f64" }, f.to_bits())
}

const BIN: [&str; 6] = ["add", "sub", "mul", "fdiv", "rem", "pow"];
const CMP: [&str; 6] = ["lt", "le", "gt", "ge", "eq", "ne"];

fn generate(tier: &str) -> Vec<String> {
    let thorough = tier == "thorough";
    let mut rng = Rng::new(seed_from_env());
    let mut cases: Vec<String> = Vec::new();
    let zi = zoo_ints();
    let zf = zoo_floats();

    // 1. unary minus: the whole zoo in every form, random values
    for z in &zi {
        for f in z.forms() {
            cases.push(format!("neg {}:{}", f, z.text()));
        }
    }
    for _ in 0..(if thorough { 20000 } else { 2000 }) {
        let z = rand_int(&mut rng);
        cases.push(format!("neg {}", int_tok(&mut rng, z, None)));
    }

    // 2. binary integer operators on zoo x zoo: literal/literal plus variable forms
    for a in &zi {
        for b in &zi {
            for op in BIN {
                cases.push(format!("{} lit:{} lit:{}", op, a.text(), b.text()));
                if thorough {
                    for fa in a.forms() {
                        for fb in b.forms() {
                            if fa != "lit" || fb != "lit" {
                                cases.push(format!("{} {}:{} {}:{}", op, fa, a.text(), fb, b.text()));
                            }
                        }
                    }
                } else {
                    for _ in 0..2 {
                        let ta = int_tok(&mut rng, *a, None);
                        let tb = int_tok(&mut rng, *b, None);
                        cases.push(format!("{} {} {}", op, ta, tb));
                    }
                }
            }
        }
    }

    // 3. random pairs (boundary biased, half of them targeted at an overflow edge)
    let n_pairs = if thorough { 180000 } else { 9000 };
    for i in 0..n_pairs {
        let a = rand_int(&mut rng);
        for op in BIN {
            let (a, b) = if op == "pow" {
                rand_pow_pair(&mut rng)
            } else if i % 2 == 0 {
                match targeted(&mut rng, op, a) {
                    Some(b) => (a, b),
                    None => (a, rand_int(&mut rng)),
                }
            } else {
                (a, rand_int(&mut rng))
            };
            let (a, b) = if rng.chance(1, 2) || op == "pow" { (a, b) } else { (b, a) };
            for _ in 0..2 {
                let ta = int_tok(&mut rng, a, None);
                let tb = int_tok(&mut rng, b, None);
                cases.push(format!("{} {} {}", op, ta, tb));
            }
        }
    }

    // 4. comparisons: int/int across widths, int/float, float/float
    for a in &zi {
        for b in &zi {
            for op in CMP {
                let ta = int_tok(&mut rng, *a, None);
                let tb = int_tok(&mut rng, *b, None);
                cases.push(format!("{} {} {}", op, ta, tb));
            }
        }
        for f in &zf {
            for op in CMP {
                let ta = int_tok(&mut rng, *a, None);
                let tf = float_tok(&mut rng, *f);
                if rng.chance(1, 2) {
                    cases.push(format!("{} {} {}", op, ta, tf));
                } else {
                    cases.push(format!("{} {} {}", op, tf, ta));
                }
            }
        }
    }
    for _ in 0..(if thorough { 100000 } else { 10000 }) {
        let op = *rng.pick(&CMP);
        let a = rand_int(&mut rng);
        let ta = int_tok(&mut rng, a, None);
        let tb = match rng.below(4) {
            0 => {
                let b = rand_int(&mut rng);
                int_tok(&mut rng, b, None)
            }
            1 => {
                // the float next to the integer
                let m = a.mag as f64;
                let f = f64::from_bits(m.to_bits().wrapping_add(rng.below(5)).wrapping_sub(2));
                let f = if a.neg { -f } else { f };
                if f.is_finite() { float_tok(&mut rng, f) } else { float_tok(&mut rng, 0.0) }
            }
            2 => {
                // the integer itself in another width
                int_tok(&mut rng, a, None)
            }
            _ => {
                let f = rand_float(&mut rng);
                float_tok(&mut rng, f)
            }
        };
        if rng.chance(1, 2) {
            cases.push(format!("{} {} {}", op, ta, tb));
        } else {
            cases.push(format!("{} {} {}", op, tb, ta));
        }
    }

    // 5. Euclidean // and % with floats involved
    for a in &zf {
        for b in &zf {
            for op in ["fdiv", "rem"] {
                let ta = float_tok(&mut rng, *a);
                let tb = float_tok(&mut rng, *b);
                cases.push(format!("{} {} {}", op, ta, tb));
            }
        }
    }
    for a in &zi {
        for f in &zf {
            for op in ["fdiv", "rem"] {
                if !thorough && rng.chance(1, 2) {
                    continue;
                }
                let ta = int_tok(&mut rng, *a, None);
                let tf = float_tok(&mut rng, *f);
                if rng.chance(1, 2) {
                    cases.push(format!("{} {} {}", op, ta, tf));
                } else {
                    cases.push(format!("{} {} {}", op, tf, ta));
                }
            }
        }
    }
    for _ in 0..(if thorough { 60000 } else { 6000 }) {
        let a = rand_float(&mut rng);
        let b = match rng.below(4) {
            0 => a * (rng.below(9) as f64 - 4.0) / (1.0 + rng.below(7) as f64),
            1 => *rng.pick(&[0.1, 0.2, 0.3, 0.5, 1.0, 2.0, 3.0, 7.0, 10.0, -0.1, -1.0, -2.0, -3.0, 1e-3]),
            _ => rand_float(&mut rng),
        };
        if !b.is_finite() {
            continue;
        }
        let (ta, tb) = if rng.chance(1, 5) {
            let z = rand_int(&mut rng);
            let ti = int_tok(&mut rng, z, None);
            if rng.chance(1, 2) { (ti, float_tok(&mut rng, b)) } else { (float_tok(&mut rng, a), ti) }
        } else {
            (float_tok(&mut rng, a), float_tok(&mut rng, b))
        };
        for op in ["fdiv", "rem"] {
            cases.push(format!("{} {} {}", op, ta, tb));
        }
    }

    // 6. literal spellings: every zoo value in every style (radix, prefix case, separators, leading
    //    zeros, sign placement): alone under unary minus, in a sum and compared with its decimal form
    for z in &zi {
        for style in 0..STYLES {
            let sp = spell_int_style(&mut rng, *z, style, true);
            cases.push(format!("neg {}", sp));
            let sp = spell_int_style(&mut rng, *z, style, true);
            cases.push(format!("add {} lit:1", sp));
            let sp = spell_int_style(&mut rng, *z, style, true);
            cases.push(format!("eq {} {}", sp, int_tok(&mut rng, *z, None)));
            let sp = spell_int_style(&mut rng, *z, style, true);
            let w = *rng.pick(&zi);
            let op = *rng.pick(&BIN);
            let sw = spell_int(&mut rng, w, true);
            if op == "pow" {
                cases.push(format!("{} {} {}", op, paren_minus(&sp), sw));
            } else {
                cases.push(format!("{} {} {}", op, sw, sp));
            }
        }
    }
    //    and a re-spelled copy of a share of everything generated so far
    let n_before = cases.len();
    let share = if thorough { 3 } else { 4 };
    for i in 0..n_before {
        if rng.below(share) == 0 {
            if let Some(c) = respell(&mut rng, &cases[i].clone()) {
                cases.push(c);
            }
        }
    }

    // 7. the lexer alone: the spellings above, hand-picked edge texts, random texts over the
    //    alphabet of number literals
    let mut lex: Vec<String> = Vec::new();
    for c in &cases {
        for t in c.split(' ').skip(1) {
            if let Some(rest) = t.strip_prefix("src:").or_else(|| t.strip_prefix("fsrc:")) {
                let text = rest.rsplit_once('=').unwrap().0;
                let text = text.trim_start_matches('(').trim_end_matches(')').trim_start_matches('-');
                if rng.chance(1, 8) {
                    lex.push(format!("lex {}", text));
                }
            }
        }
    }
    for t in [
        "0", "00", "0_0", "1_", "1__2", "0x", "0x_", "0x_1", "0b", "0b2", "0b12", "0o8", "0o78", "0xg", "0xfg", "0XFF",
        "0Xff_", "0b_1_0", "1.5", "1.", "1.e5", "1.e", "1.foo", "1._5", "1.5.2", "1..2", "1e5", "1E5", "1e", "1e+", "1e-",
        "1e+5", "1e_5", "1_e5", "1e5_", "1.5e-3", "1.5E+3x", "1_0.5", "10e-1", "0x1e5", "0x1.5", "0b1e5", "0o7e1", "0e0",
        "0x10000000000000000", "0xffffffffffffffffffffffffffffffff", "0x100000000000000000000000000000000",
        "0o3777777777777777777777777777777777777777777", "0o4000000000000000000000000000000000000000000",
        "340282366920938463463374607431768211455", "340282366920938463463374607431768211456",
        "18446744073709551615", "18446744073709551616", "0b1111111111111111111111111111111111111111111111111111111111111111",
        "0b10000000000000000000000000000000000000000000000000000000000000000", "1e400", "1e-400", "9.9.9",
        "0B101)", "0O17+1", "0X_a_B", "123abc", "0x12_34_", "7e", "7e1", "7E-1", "7.e1", "1a", "0a", "0_x1", "00x1",
    ] {
        lex.push(format!("lex {}", t));
    }
    let alphabet: Vec<char> = "0011279aAbBeEfFxXoO__..+-)g ".chars().collect();
    for _ in 0..(if thorough { 60000 } else { 8000 }) {
        let len = 1 + rng.below(9);
        let mut t = String::new();
        t.push(*rng.pick(&['0', '0', '1', '7', '9']));
        for _ in 0..len {
            t.push(*rng.pick(&alphabet));
        }
        if t.contains(' ') {
            t = t.split(' ').next().unwrap().to_string();
        }
        lex.push(format!("lex {}", t));
    }
    cases.extend(lex);

    // 8. the other numeric entry points: bool / narrow integer types / serde-passed wide integers
    //    as operands of the operators (integer arithmetic; comparisons for the integer types)
    for _ in 0..(if thorough { 60000 } else { 6000 }) {
        let a = other_entry_tok(&mut rng);
        let b = if rng.chance(1, 2) {
            other_entry_tok(&mut rng)
        } else {
            let z = if rng.chance(1, 2) { *rng.pick(&zi) } else { rand_int(&mut rng) };
            if rng.chance(1, 3) { spell_int(&mut rng, z, true) } else { int_tok(&mut rng, z, None) }
        };
        let (a, b) = if rng.chance(1, 2) { (a, b) } else { (b, a) };
        let has_bool = a.starts_with("bool:") || b.starts_with("bool:");
        if rng.chance(1, 8) {
            cases.push(format!("neg {}", a));
        } else if !has_bool && rng.chance(1, 4) {
            cases.push(format!("{} {} {}", rng.pick(&CMP), a, b));
        } else {
            let op = *rng.pick(&BIN);
            let a = if op == "pow" { paren_minus(&a) } else { a };
            cases.push(format!("{} {} {}", op, a, b));
        }
    }

    // 9. filters and tests at the boundaries: abs / int / float / round / sum, odd / even / divisibleby
    let mut filt_vals: Vec<Z> = zi.clone();
    for _ in 0..(if thorough { 3000 } else { 400 }) {
        filt_vals.push(rand_int(&mut rng));
    }
    for z in &zi {
        // the zoo in every form
        for op in ["f_abs", "f_int", "f_float", "f_round", "t_odd", "t_even"] {
            for f in z.forms() {
                cases.push(format!("{} {}:{}", op, f, z.text()));
            }
        }
    }
    for z in &filt_vals {
        for op in ["f_abs", "f_int", "f_float", "f_round", "t_odd", "t_even"] {
            for _ in 0..2 {
                let t = if rng.chance(1, 4) { spell_int(&mut rng, *z, true) } else { int_tok(&mut rng, *z, None) };
                cases.push(format!("{} {}", op, t));
            }
        }
        for _ in 0..4 {
            let w = if rng.chance(1, 2) { *rng.pick(&zi) } else { rand_int(&mut rng) };
            let w2 = match targeted(&mut rng, "add", *z) { Some(x) if rng.chance(1, 2) => x, _ => w };
            let ta = int_tok(&mut rng, *z, None);
            let tb = int_tok(&mut rng, w2, None);
            cases.push(format!("f_sum {} {}", ta, tb));
            let d = if rng.chance(1, 2) { Z::new(rng.chance(1, 2), 1 + rng.below(12) as u128) } else { w };
            let ta = int_tok(&mut rng, *z, None);
            let td = int_tok(&mut rng, d, None);
            cases.push(format!("t_divby {} {}", ta, td));
        }
    }
    let mut filt_floats: Vec<f64> = zf.clone();
    for _ in 0..(if thorough { 3000 } else { 400 }) {
        filt_floats.push(rand_float(&mut rng));
    }
    for f in &filt_floats {
        for op in ["f_abs", "f_int", "f_float", "f_round"] {
            let t = if rng.chance(1, 3) { spell_float(&mut rng, *f, true) } else { float_tok(&mut rng, *f) };
            cases.push(format!("{} {}", op, t));
        }
    }

    // 10. more numeric entry points and functions that do arithmetic
    let str_tok = |t: &str| format!("str:{}", hex(t.as_bytes()));
    //     unary minus / abs on floats, f32 and serde-passed floats
    let mut more_floats: Vec<f64> = zf.clone();
    for _ in 0..(if thorough { 6000 } else { 600 }) {
        more_floats.push(rand_float(&mut rng));
    }
    for f in &more_floats {
        let t = if rng.chance(1, 3) { spell_float(&mut rng, *f, true) } else { float_tok(&mut rng, *f) };
        cases.push(format!("neg {}", t));
        cases.push(format!("neg sf64:{:016x}", f.to_bits()));
    }
    let mut f32s: Vec<f32> = vec![0.0, 1.0, 1.5, 0.1, 16777216.0, 16777218.0, f32::MAX, f32::MIN_POSITIVE, 1e-45, 3.0e38, 9.223372e18, 1.8446744e19];
    for _ in 0..(if thorough { 3000 } else { 300 }) {
        let f = f32::from_bits(rng.next() as u32);
        if f.is_finite() {
            f32s.push(f);
        }
    }
    for f in f32s.clone() {
        for g in [f, -f] {
            let form = if rng.chance(1, 2) { "f32" } else { "sf32" };
            let tf = format!("{}:{:08x}", form, g.to_bits());
            let z = if rng.chance(1, 2) { *rng.pick(&zi) } else { rand_int(&mut rng) };
            let ti = int_tok(&mut rng, z, None);
            cases.push(format!("{} {} {}", rng.pick(&CMP), tf, ti));
            cases.push(format!("{} {} {}", rng.pick(&CMP), ti, tf));
            cases.push(format!("f_float {}", tf));
            cases.push(format!("neg {}", tf));
            let of = *rng.pick(&zf);
            let other = float_tok(&mut rng, of);
            cases.push(format!("{} {} {}", rng.pick(&["fdiv", "rem"]), tf, other));
            cases.push(format!("{} {} {}", rng.pick(&["fdiv", "rem"]), ti, tf));
        }
    }
    //     infinities against every integer of the zoo (comparisons only; exact: inf is beyond all)
    for z in &zi {
        for inf in ["f64:7ff0000000000000", "f64:fff0000000000000", "sf64:7ff0000000000000", "f32:7f800000", "f32:ff800000"] {
            let op = *rng.pick(&CMP);
            let ti = int_tok(&mut rng, *z, None);
            if rng.chance(1, 2) {
                cases.push(format!("{} {} {}", op, ti, inf));
            } else {
                cases.push(format!("{} {} {}", op, inf, ti));
            }
        }
    }
    //     min / max over mixed integers and floats
    for _ in 0..(if thorough { 30000 } else { 3000 }) {
        let tok = |rng: &mut Rng| -> String {
            if rng.chance(1, 2) {
                let z = if rng.chance(1, 2) { *rng.pick(&zi) } else { rand_int(rng) };
                int_tok(rng, z, None)
            } else {
                let f = if rng.chance(1, 2) { *rng.pick(&zf) } else { rand_float(rng) };
                float_tok(rng, f)
            }
        };
        let a = tok(&mut rng);
        let b = if rng.chance(1, 5) {
            // the float next to an integer operand
            match a.split_once(':') {
                Some((f, v)) if !f.starts_with('f') => {
                    let z = Z::parse(v);
                    let m = z.mag as f64;
                    let g = f64::from_bits(m.to_bits().wrapping_add(rng.below(3)).wrapping_sub(1));
                    let g = if z.neg { -g } else { g };
                    if g.is_finite() { float_tok(&mut rng, g) } else { tok(&mut rng) }
                }
                _ => tok(&mut rng),
            }
        } else {
            tok(&mut rng)
        };
        cases.push(format!("{} {} {}", rng.pick(&["f_min", "f_max"]), a, b));
    }
    //     `~`, range, batch, sizes and widths
    for _ in 0..(if thorough { 5000 } else { 500 }) {
        let a = if rng.chance(1, 2) { *rng.pick(&zi) } else { rand_int(&mut rng) };
        let b = if rng.chance(1, 2) { *rng.pick(&zi) } else { rand_int(&mut rng) };
        let (ta, tb) = (int_tok(&mut rng, a, None), int_tok(&mut rng, b, None));
        cases.push(format!("f_concat {} {}", ta, tb));
        let (ta, tb) = (int_tok(&mut rng, a, None), int_tok(&mut rng, b, None));
        cases.push(format!("f_rangelen {} {}", ta, tb));
        let small = |rng: &mut Rng| Z::new(rng.chance(1, 2), rng.below(25) as u128);
        let (x, y) = (small(&mut rng), small(&mut rng));
        let (tx, ty) = (int_tok(&mut rng, x, None), int_tok(&mut rng, y, None));
        cases.push(format!("f_range {} {}", tx, ty));
        let step = if rng.chance(2, 3) { Z::new(rng.chance(1, 2), rng.below(6) as u128) } else { b };
        let (tx, ts) = (int_tok(&mut rng, x, None), int_tok(&mut rng, step, None));
        cases.push(format!("f_rangestep {} {}", tx, ts));
        let n = Z::pos(rng.below(40) as u128);
        let per = if rng.chance(2, 3) { Z::pos(1 + rng.below(9) as u128) } else { b };
        let (tn, tp) = (int_tok(&mut rng, n, None), int_tok(&mut rng, per, None));
        cases.push(format!("f_batchlen {} {}", tn, tp));
        for op in ["f_fsize", "f_trunc", "f_indent"] {
            // the allocation-size limits are another property's business: keep widths moderate
            let w = if rng.chance(1, 2) { Z::new(a.neg, a.mag % 70) } else if op == "f_fsize" { a } else { Z::new(a.neg, a.mag % 5000) };
            for f in w.forms() {
                if rng.chance(1, 2) {
                    cases.push(format!("{} {}:{}", op, f, w.text()));
                }
            }
        }
        let p = Z::new(rng.chance(1, 2), rng.below(4) as u128);
        let (ta, tp) = (int_tok(&mut rng, a, None), int_tok(&mut rng, p, None));
        cases.push(format!("f_roundp {} {}", ta, tp));
    }
    for f in &more_floats {
        let t = float_tok(&mut rng, *f);
        cases.push(format!("f_roundp {} lit:0", t));
    }
    //     strings parsed by the `int` / `float` filters
    let mut strs: Vec<String> = [
        "42", "-42", "+42", " 42", "42 ", "4_2", "0x10", "0X10", "0b11", "0o7", "1e3", "1E3", "1.9", "-1.9", "1e40", "-1e40",
        "170141183460469231731687303715884105727", "170141183460469231731687303715884105728",
        "-170141183460469231731687303715884105728", "-170141183460469231731687303715884105729",
        "340282366920938463463374607431768211455", "340282366920938463463374607431768211456",
        "99999999999999999999999999999999999999999", "", "abc", "1e400", "-1e400", "0.1", "1_0.5", "12345678901234567890.5",
        "9223372036854775807", "9223372036854775808", "18446744073709551616", "1.7976931348623157e308", "2.5e-324",
        "1e39", "1.7014118346046923e38", "-1.7014118346046923e38", "1.7014118346046921e38", "00042", "-0", "-0.0", "1.", ".5",
        "1e", "e5", "0x", "--1", "1-", "٤٢", "１２", "1 000", "1,000",
    ]
    .iter()
    .map(|s| s.to_string())
    .collect();
    for _ in 0..(if thorough { 4000 } else { 400 }) {
        let z = rand_int(&mut rng);
        strs.push(z.text());
        let f = rand_float(&mut rng);
        strs.push(format!("{:?}", f));
        strs.push(format!("{:e}", f));
    }
    for t in &strs {
        cases.push(format!("f_strint {}", str_tok(t)));
        cases.push(format!("f_strfloat {}", str_tok(t)));
    }

    // 11. chained comparisons (`a OP b OP' c`: every non-final link is a different VM instruction,
    //     all-literal chains are folded by yet another implementation) and the other places the
    //     comparison operators are implemented: tests, select/reject/selectattr, sort, unique, in
    let var_tok = |rng: &mut Rng, z: Z| -> String {
        let fs: Vec<&str> = z.forms().into_iter().filter(|f| *f != "lit").collect();
        format!("{}:{}", rng.pick(&fs), z.text())
    };
    // a token with the same mathematical value: another width, a spelling, or the equal float
    let twin = |rng: &mut Rng, z: Z, literal: Option<bool>| -> String {
        let as_float = (z.mag as f64) as u128 == z.mag && (z.mag as f64) < 3.0e38;
        let f = if z.neg { -(z.mag as f64) } else { z.mag as f64 };
        let want_float = as_float && rng.chance(1, 3);
        match literal {
            Some(true) => {
                if want_float { format!("flit:{:016x}", f.to_bits()) } else if rng.chance(1, 2) { spell_int(rng, z, false) } else { format!("lit:{}", z.text()) }
            }
            Some(false) => {
                if want_float { format!("f64:{:016x}", f.to_bits()) } else { var_tok(rng, z) }
            }
            None => {
                if want_float { float_tok(rng, f) } else { int_tok(rng, z, None) }
            }
        }
    };
    let bases: Vec<Z> = vec![
        Z::pos(0), Z::pos(1), Z::new(true, 1), Z::pos(3), Z::pos(1 << 53), Z::pos((1 << 53) + 1), Z::pos(1 << 63), Z::new(true, 1 << 63),
        Z::pos(u64::MAX as u128), Z::pos(1 << 64), Z::pos(P127 - 1), Z::pos(u128::MAX),
    ];
    for (i, x) in bases.iter().enumerate() {
        let y = bases[(i + 1) % bases.len()];
        let z = bases[(i + 5) % bases.len()];
        for (p, q, w) in [(*x, *x, *x), (*x, *x, y), (*x, y, y), (*x, y, *x), (*x, y, z)] {
            for o1 in CMP {
                for o2 in CMP {
                    for lit in [Some(false), Some(true), None] {
                        let (tp, tq, tw) = (twin(&mut rng, p, lit), twin(&mut rng, q, lit), twin(&mut rng, w, lit));
                        cases.push(format!("chain:{},{} {} {} {}", o1, o2, tp, tq, tw));
                    }
                }
            }
            // length 4: the middle links are both "preserving" instructions
            for _ in 0..6 {
                let (o1, o2, o3) = (*rng.pick(&CMP), *rng.pick(&CMP), *rng.pick(&CMP));
                let v = *rng.pick(&bases);
                let (tp, tq, tw, tv) = (twin(&mut rng, p, None), twin(&mut rng, q, None), twin(&mut rng, w, None), twin(&mut rng, v, None));
                cases.push(format!("chain:{},{},{} {} {} {} {}", o1, o2, o3, tp, tq, tw, tv));
            }
        }
    }
    //     every comparison case generated above, as the first / middle link of a longer chain
    let n_before = cases.len();
    for i in 0..n_before {
        let f: Vec<String> = cases[i].split(' ').map(|x| x.to_string()).collect();
        if f.len() != 3 || !CMP.contains(&f[0].as_str()) || f[1].starts_with("bool:") || f[2].starts_with("bool:") {
            continue;
        }
        let extra = |rng: &mut Rng, near: &str| -> String {
            // an operand equal to a neighbour (so that `>=`/`<=`/`==` links are decided by equality), or any
            if rng.chance(1, 3) {
                near.to_string()
            } else if rng.chance(1, 2) {
                let z = *rng.pick(&zi);
                int_tok(rng, z, None)
            } else {
                let g = *rng.pick(&zf);
                float_tok(rng, g)
            }
        };
        match rng.below(if thorough { 4 } else { 8 }) {
            0 => {
                let c = extra(&mut rng, &f[2]);
                cases.push(format!("chain:{},{} {} {} {}", f[0], rng.pick(&CMP), f[1], f[2], c));
            }
            1 => {
                let c = extra(&mut rng, &f[1]);
                cases.push(format!("chain:{},{} {} {} {}", rng.pick(&CMP), f[0], c, f[1], f[2]));
            }
            2 => {
                let c = extra(&mut rng, &f[1]);
                let d = extra(&mut rng, &f[2]);
                cases.push(format!("chain:{},{},{} {} {} {} {}", rng.pick(&CMP), f[0], rng.pick(&CMP), c, f[1], f[2], d));
            }
            _ => {}
        }
    }
    //     `in` / `not in` as a link (the preserved operand is then a list)
    for _ in 0..(if thorough { 6000 } else { 600 }) {
        let z = *rng.pick(&bases);
        let w = if rng.chance(1, 2) { z } else { *rng.pick(&bases) };
        let third = *rng.pick(&bases);
        let (ta, tb, tc) = (twin(&mut rng, z, None), twin(&mut rng, w, None), twin(&mut rng, third, None));
        let inop = *rng.pick(&["in", "notin"]);
        let o = *rng.pick(&CMP);
        if rng.chance(1, 2) {
            cases.push(format!("chain:{},{} {} {} {}", inop, o, ta, tb, tc));
        } else {
            cases.push(format!("chain:{},{} {} {} {}", o, inop, ta, tb, tc));
        }
    }
    //     tests, select / reject / selectattr, sort, unique, in  on the same operands
    const TEST_IDENTS: [&str; 9] = ["eq", "equalto", "ne", "lt", "lessthan", "le", "gt", "greaterthan", "ge"];
    const TEST_NAMES: [&str; 15] = ["eq", "equalto", "==", "ne", "!=", "lt", "lessthan", "<", "le", "<=", "gt", "greaterthan", ">", "ge", ">="];
    for _ in 0..(if thorough { 40000 } else { 4000 }) {
        let z = if rng.chance(1, 2) { *rng.pick(&bases) } else if rng.chance(1, 2) { *rng.pick(&zi) } else { rand_int(&mut rng) };
        let ta = twin(&mut rng, z, None);
        let tb = match rng.below(4) {
            0 => twin(&mut rng, z, None),
            1 => {
                let m = z.mag as f64;
                let g = f64::from_bits(m.to_bits().wrapping_add(rng.below(3)).wrapping_sub(1));
                let g = if z.neg { -g } else { g };
                if g.is_finite() { float_tok(&mut rng, g) } else { twin(&mut rng, z, None) }
            }
            2 => {
                let w = *rng.pick(&zi);
                int_tok(&mut rng, w, None)
            }
            _ => {
                let g = if rng.chance(1, 2) { *rng.pick(&zf) } else { rand_float(&mut rng) };
                float_tok(&mut rng, g)
            }
        };
        let (ta, tb) = if rng.chance(1, 2) { (ta, tb) } else { (tb, ta) };
        match rng.below(8) {
            0 => cases.push(format!("is:{} {} {}", rng.pick(&TEST_IDENTS), ta, tb)),
            1 => cases.push(format!("sel:{} {} {}", rng.pick(&TEST_NAMES), ta, tb)),
            2 => cases.push(format!("rej:{} {} {}", rng.pick(&TEST_NAMES), ta, tb)),
            3 => cases.push(format!("selattr:{} {} {}", rng.pick(&TEST_NAMES), ta, tb)),
            4 => cases.push(format!("{} {} {}", rng.pick(&["f_sortfirst", "f_sortlast", "f_rsortfirst"]), ta, tb)),
            5 => cases.push(format!("f_uniquelen {} {}", ta, tb)),
            6 => cases.push(format!("f_in {} {}", ta, tb)),
            _ => cases.push(format!("{} {} {}", rng.pick(&["f_min", "f_max"]), ta, tb)),
        }
    }

    // 12. the representation box: a core of special values in EVERY pair of forms, for every binary
    //     operator, every comparison, unary minus, the filters and the tests (a defect that sits in
    //     one arm of a `match` on the two representations needs exactly that pair)
    let core: Vec<Z> = {
        let mut v = vec![Z::pos(0), Z::pos(1), Z::new(true, 1), Z::pos(2), Z::new(true, 2), Z::pos(3), Z::new(true, 3), Z::pos(7)];
        for m in [(1u128 << 63) - 1, 1 << 63, (1 << 63) + 1, (1 << 64) - 1, 1 << 64, P127 - 1, P127, P127 + 1, u128::MAX] {
            v.push(Z::pos(m));
            if m <= P127 {
                v.push(Z::new(true, m));
            }
        }
        v
    };
    let wide_forms = |z: &Z| -> Vec<String> {
        // the five basic forms plus the serde-passed twins of the variable forms
        let mut v: Vec<String> = Vec::new();
        for f in z.forms() {
            v.push(format!("{}:{}", f, z.text()));
            if f != "lit" {
                v.push(format!("s{}:{}", f, z.text()));
            }
        }
        v
    };
    // 12b. the INT/FLOAT comparison box: every core value in every integer form against the doubles at and
    //     next to it (the double `x as f64` rounds to, its two neighbours, and for the type maxima the
    //     power of two just above, which is where the saturating casts of the comparison fallback bite)
    //     in every float form (literal, variable, serde, f32 where exact, computed), all six operators,
    //     both orders
    for a in &core {
        let m = a.mag as f64;
        let mut near: Vec<f64> = Vec::new();
        for d in [0u64, 1, 2] {
            near.push(f64::from_bits(m.to_bits().wrapping_add(d).wrapping_sub(1)));
        }
        if a.mag > 0 {
            near.push(m * 2.0);
            near.push(m / 2.0);
        }
        near.retain(|x| x.is_finite() && *x >= 0.0);
        near.dedup();
        for g in &near {
            let f = if a.neg { -*g } else { *g };
            let mut ftoks: Vec<String> = vec![format!("flit:{:016x}", f.to_bits()), format!("f64:{:016x}", f.to_bits()), format!("sf64:{:016x}", f.to_bits())];
            if (f as f32) as f64 == f {
                ftoks.push(format!("f32:{:08x}", (f as f32).to_bits()));
            }
            if f.abs() >= 2.0 {
                let h = f / 2.0;
                let ht = format!("{:?}", h.abs());
                ftoks.push(format!("fexp:({}*2)={:016x}", if h < 0.0 { format!("(-{})", ht) } else { ht }, f.to_bits()));
            }
            for ta in wide_forms(a) {
                for (j, tf) in ftoks.iter().enumerate() {
                    for (k, op) in CMP.iter().enumerate() {
                        if (j + k) % 2 == 0 {
                            cases.push(format!("{} {} {}", op, ta, tf));
                        } else {
                            cases.push(format!("{} {} {}", op, tf, ta));
                        }
                    }
                    let o = CMP[(j + ta.len()) % 6];
                    cases.push(format!("chain:{},{} {} {} {}", o, CMP[(j + 3) % 6], ta, tf, ta));
                    cases.push(format!("chain:{},{} {} {} {}", CMP[(j + 1) % 6], o, tf, ta, tf));
                }
            }
        }
    }
    for a in &core {
        for ta in wide_forms(a) {
            cases.push(format!("neg {}", ta));
            for op in ["f_abs", "f_int", "f_float", "f_round", "t_odd", "t_even"] {
                cases.push(format!("{} {}", op, ta));
            }
        }
        for b in &core {
            for fa in a.forms() {
                for fb in b.forms() {
                    let (ta, tb) = (format!("{}:{}", fa, a.text()), format!("{}:{}", fb, b.text()));
                    // serde twins for a share of the variable forms
                    let ta = if fa != "lit" && rng.chance(1, 4) { format!("s{}", ta) } else { ta };
                    let tb = if fb != "lit" && rng.chance(1, 4) { format!("s{}", tb) } else { tb };
                    for op in BIN {
                        cases.push(format!("{} {} {}", op, ta, tb));
                    }
                    for op in CMP {
                        cases.push(format!("{} {} {}", op, ta, tb));
                    }
                    cases.push(format!("div {} {}", ta, tb));
                    cases.push(format!("f_sum {} {}", ta, tb));
                    cases.push(format!("t_divby {} {}", ta, tb));
                    cases.push(format!("{} {} {}", if rng.chance(1, 2) { "f_min" } else { "f_max" }, ta, tb));
                }
            }
        }
    }

    // 13. `**` completely: every small base with every exponent up to 130, the overflow edge of every
    //     exponent (base = floor(2^(127/k)) and neighbours), exponents around 2^31 / 2^32 / 2^63 /
    //     2^64 / 2^127 and exponents whose low 32 bits are small, in rotating forms
    let mut pow_pairs: Vec<(Z, Z)> = Vec::new();
    for base in -17i128..=17 {
        for e in 0u128..=130 {
            pow_pairs.push((Z::new(base < 0, base.unsigned_abs()), Z::pos(e)));
        }
    }
    for k in 1u32..=130 {
        // largest base whose k-th power fits below 2^127, by bisection on u128 with checked_pow
        let (mut lo, mut hi) = (1u128, 1u128 << 64);
        if k == 1 { lo = P127 - 1; hi = P127; }
        while lo + 1 < hi {
            let mid = lo + (hi - lo) / 2;
            match mid.checked_pow(k) { Some(v) if v < P127 => lo = mid, _ => hi = mid }
        }
        for d in 0u128..3 {
            for neg in [false, true] {
                for e in [k.saturating_sub(1), k, k + 1] {
                    pow_pairs.push((Z::new(neg, lo + d), Z::pos(e as u128)));
                    pow_pairs.push((Z::new(neg, lo.saturating_sub(d)), Z::pos(e as u128)));
                }
            }
        }
    }
    let big_exps: Vec<u128> = {
        let mut v = Vec::new();
        for c in [1u128 << 31, 1 << 32, 1 << 33, 1 << 63, 1 << 64, 1 << 96, P127] {
            for d in 0..4u128 {
                v.push(c + d);
                v.push(c - 1 - d);
            }
            // low 32 bits small
            if c >= 1 << 32 {
                for low in [0u128, 1, 2, 3, 5, 10, 64, 127] {
                    v.push(c + low);
                    if let Some(c3) = c.checked_mul(3) { v.push(c3 + low); }
                }
            }
        }
        v.push(u128::MAX);
        v.push(u128::MAX - 1);
        v
    };
    for &e in &big_exps {
        for base in [0i128, 1, -1, 2, -2, 3, 10, -10, i64::MAX as i128, i128::MAX, i128::MIN] {
            pow_pairs.push((Z::new(base < 0, base.unsigned_abs()), Z::pos(e)));
        }
    }
    for e in 1u128..=4 {
        // negative exponents: an error unless the engine defines it; never a wrong integer
        for base in [0i128, 1, -1, 2, -2, 7] {
            pow_pairs.push((Z::new(base < 0, base.unsigned_abs()), Z::new(true, e)));
        }
    }
    for (i, (b, e)) in pow_pairs.iter().enumerate() {
        let reps = if thorough { 3 } else { 1 };
        for j in 0..reps {
            let fb = b.forms();
            let fe = e.forms();
            // rotate through the forms so that every (base form, exponent form) pair occurs often
            let tb = format!("{}:{}", fb[(i + j) % fb.len()], b.text());
            let te = format!("{}:{}", fe[(i / 5 + 2 * j) % fe.len()], e.text());
            cases.push(format!("pow {} {}", tb, te));
        }
    }

    // 14. `Bool` operands of every operator, filter and test
    for p in ["bool:0", "bool:1"] {
        cases.push(format!("neg {}", p));
        for op in ["f_abs", "f_int", "f_float", "f_round", "t_odd", "t_even"] {
            cases.push(format!("{} {}", op, p));
        }
        for q in ["bool:0", "bool:1"] {
            for op in BIN.iter().chain(CMP.iter()).chain(["div", "f_sum", "t_divby", "f_min", "f_max"].iter()) {
                cases.push(format!("{} {} {}", op, p, q));
            }
        }
        let mut others: Vec<String> = Vec::new();
        for z in &core {
            others.extend(wide_forms(z));
        }
        for f in &zf {
            others.push(format!("f64:{:016x}", f.to_bits()));
        }
        for _ in 0..(if thorough { 400 } else { 60 }) {
            let z = rand_int(&mut rng);
            others.push(int_tok(&mut rng, z, None));
        }
        for o in &others {
            for op in BIN.iter().chain(CMP.iter()).chain(["div", "t_divby"].iter()) {
                if rng.chance(1, 2) {
                    cases.push(format!("{} {} {}", op, p, o));
                } else {
                    cases.push(format!("{} {} {}", op, o, p));
                }
            }
        }
    }

    // 15. float arithmetic: + - * / ** with float/float, int/float and float/int operands (exactly
    //     rounded results; overflow to infinity, subnormals, ties, cancellation, signed zeros)
    let mut fl_pairs: Vec<(f64, f64)> = Vec::new();
    for a in &zf {
        for b in &zf {
            fl_pairs.push((*a, *b));
        }
    }
    let ulp_up = |x: f64, k: u64| f64::from_bits(x.to_bits().wrapping_add(k));
    for _ in 0..(if thorough { 120000 } else { 4000 }) {
        let a = rand_float(&mut rng);
        let b = match rng.below(8) {
            0 => -a,
            1 => ulp_up(-a, 1 + rng.below(3)),
            2 => a * (2.0f64).powi(-53 + rng.below(4) as i32 - 2),           // half-ulp neighbourhood: ties
            3 => ulp_up(a * (2.0f64).powi(-53), rng.below(3)),
            4 => f64::MAX / a,                                                   // product / quotient at the overflow edge
            5 => f64::MIN_POSITIVE / a * (1.0 + rng.below(8) as f64 / 8.0),     // at the underflow edge
            6 => (rng.below(41) as f64 - 20.0) / *rng.pick(&[1.0, 2.0, 3.0, 10.0]),
            _ => rand_float(&mut rng),
        };
        if b.is_finite() {
            fl_pairs.push((a, b));
        }
    }
    let n_zoo_pairs = zf.len() * zf.len();
    for (i, (a, b)) in fl_pairs.iter().enumerate() {
        let (ta, tb) = (float_tok(&mut rng, *a), float_tok(&mut rng, *b));
        for op in ["add", "sub", "mul", "div"] {
            cases.push(format!("{} {} {}", op, ta, tb));
        }
        if i >= n_zoo_pairs {
            // the aimed pairs also through // and % (the zoo pairs went through them in stream 5)
            for op in ["fdiv", "rem"] {
                cases.push(format!("{} {} {}", op, ta, tb));
            }
        }
    }
    //     // and % where `a - a % b` or the quotient leaves the range: dividends next to +-MAX, huge divisors
    for _ in 0..(if thorough { 3000 } else { 400 }) {
        let a = f64::from_bits(f64::MAX.to_bits() - rng.below(1 << 20)) * if rng.chance(1, 2) { -1.0 } else { 1.0 };
        let b = f64::from_bits(((1023 + 960 + rng.below(64)) << 52) | (rng.next() & ((1 << 52) - 1))) * if rng.chance(1, 3) { -1.0 } else { 1.0 };
        let small = (2.0f64).powi(-(rng.below(1070) as i32)) * (1.0 + rng.below(8) as f64 / 8.0);
        for (x, y) in [(a, b), (a, small), (small, b), (a, -a / (2.0 + rng.below(5) as f64))] {
            if x.is_finite() && y.is_finite() {
                let (tx, ty) = (float_tok(&mut rng, x), float_tok(&mut rng, y));
                for op in ["fdiv", "rem"] {
                    cases.push(format!("{} {} {}", op, tx, ty));
                }
            }
        }
    }
    for _ in 0..(if thorough { 30000 } else { 3000 }) {
        let z = if rng.chance(1, 2) { *rng.pick(&zi) } else { rand_int(&mut rng) };
        let f = if rng.chance(1, 2) { *rng.pick(&zf) } else { rand_float(&mut rng) };
        let (ti, tf) = (int_tok(&mut rng, z, None), float_tok(&mut rng, f));
        let op = *rng.pick(&["add", "sub", "mul", "div"]);
        if rng.chance(1, 2) {
            cases.push(format!("{} {} {}", op, ti, tf));
        } else {
            cases.push(format!("{} {} {}", op, tf, ti));
        }
        // true division of two integers
        let w = if rng.chance(1, 2) { *rng.pick(&zi) } else { rand_int(&mut rng) };
        let tw = int_tok(&mut rng, w, None);
        let ti = int_tok(&mut rng, z, None);
        cases.push(format!("div {} {}", ti, tw));
    }
    //     float `**`: every class of base against every class of exponent (NaN, +-inf, +-0, +-1,
    //     magnitudes below / above 1, odd / even / fractional exponents of both signs), small integral
    //     powers, random pairs
    let pow_bases: Vec<f64> = vec![
        f64::NAN, f64::NEG_INFINITY, -1e300, -7.5, -3.0, -2.0, -1.0000000000000002, -1.0, -0.9999999999999999, -0.5, -1e-300, -5e-324, -0.0,
        0.0, 5e-324, 1e-300, 0.5, 0.9999999999999999, 1.0, 1.0000000000000002, 2.0, 3.0, 7.5, 10.0, 1e300, f64::MAX, f64::INFINITY,
    ];
    let pow_exps: Vec<f64> = vec![
        f64::NAN, f64::NEG_INFINITY, -1e300, -9007199254740993.0, -9007199254740992.0, -1075.0, -1074.0, -5.0, -4.0, -3.0, -2.5, -2.0, -1.0, -0.5, -5e-324, -0.0,
        0.0, 5e-324, 0.5, 1.0, 1.5, 2.0, 3.0, 4.0, 5.0, 63.0, 64.0, 1023.0, 1024.0, 4294967296.0, 4294967297.0, 9007199254740991.0, 9007199254740992.0, 1e300, f64::INFINITY,
    ];
    for x in &pow_bases {
        for y in &pow_exps {
            cases.push(format!("pow f64:{:016x} f64:{:016x}", x.to_bits(), y.to_bits()));
        }
    }
    for _ in 0..(if thorough { 20000 } else { 2000 }) {
        let x = match rng.below(4) {
            0 => (rng.below(41) as f64 - 20.0) / *rng.pick(&[1.0, 2.0, 4.0]),
            1 => *rng.pick(&pow_bases),
            _ => rand_float(&mut rng),
        };
        let y = match rng.below(4) {
            0 => rng.below(70) as f64 - 20.0,
            1 => *rng.pick(&pow_exps),
            2 => (rng.below(81) as f64 - 40.0) / 8.0,
            _ => rand_float(&mut rng),
        };
        let tx = if x.is_finite() && rng.chance(1, 2) { float_tok(&mut rng, x) } else { format!("f64:{:016x}", x.to_bits()) };
        let ty = if y.is_finite() && rng.chance(1, 2) { float_tok(&mut rng, y) } else { format!("f64:{:016x}", y.to_bits()) };
        let tx = if tx.starts_with("flit:") && x.is_sign_negative() { format!("f64:{:016x}", x.to_bits()) } else { tx };
        match rng.below(4) {
            0 if x.is_finite() && x.fract() == 0.0 && x.abs() < 1e15 => {
                let z = Z::new(x < 0.0, x.abs() as u128);
                cases.push(format!("pow {} {}", int_tok(&mut rng, z, None).replace("lit:-", "i128:-"), ty));
            }
            1 if y.is_finite() && y.fract() == 0.0 && y.abs() < 1e15 => {
                let z = Z::new(y < 0.0, y.abs() as u128);
                cases.push(format!("pow {} {}", tx, int_tok(&mut rng, z, None)));
            }
            _ => cases.push(format!("pow {} {}", tx, ty)),
        }
    }

    // 16. round(precision) on floats, the tests on floats
    let mut rp_floats: Vec<f64> = vec![0.5, 1.5, 2.5, -0.5, -1.5, 0.05, 0.15, 0.25, 0.35, 1.005, 2.675, 1e15 + 0.5, 123456.789, -123456.789, 5e-324, 1e300, 0.0, -0.0, 4503599627370495.5, 0.49999999999999994];
    for _ in 0..(if thorough { 6000 } else { 600 }) {
        rp_floats.push(rand_float(&mut rng));
        rp_floats.push((rng.below(200001) as f64 - 100000.0) / *rng.pick(&[8.0, 10.0, 100.0, 1000.0, 16.0, 3.0]));
    }
    for f in &rp_floats {
        for p in [-3i32, -2, -1, 0, 1, 2, 3, 5, 10, 22] {
            if rng.chance(1, 3) || rp_floats.len() < 30 {
                let tp = if p < 0 { format!("i64:{}", p) } else { format!("lit:{}", p) };
                cases.push(format!("f_roundp f64:{:016x} {}", f.to_bits(), tp));
            }
        }
        let tf = format!("f64:{:016x}", f.to_bits());
        cases.push(format!("t_odd {}", tf));
        cases.push(format!("t_even {}", tf));
        let d = *rng.pick(&zf);
        cases.push(format!("t_divby {} f64:{:016x}", tf, d.to_bits()));
        let z = *rng.pick(&zi);
        cases.push(format!("t_divby {} {}", tf, int_tok(&mut rng, z, None)));
        cases.push(format!("t_divby {} {}", int_tok(&mut rng, z, None), tf));
    }
    for f in &zf {
        let tf = format!("f64:{:016x}", f.to_bits());
        cases.push(format!("t_odd {}", tf));
        cases.push(format!("t_even {}", tf));
        // the conversion of a float to an integer (`i128::try_from(Value)`, F64 arm) has its edges at the
        // integer type boundaries: every zoo float and its two neighbours, in every float form
        let mut forms: Vec<String> = vec![format!("flit:{:016x}", f.to_bits()), format!("sf64:{:016x}", f.to_bits())];
        if (*f as f32) as f64 == *f {
            forms.push(format!("f32:{:08x}", (*f as f32).to_bits()));
            forms.push(format!("sf32:{:08x}", (*f as f32).to_bits()));
        }
        for nb in [f64::from_bits(f.to_bits().wrapping_add(1)), f64::from_bits(f.to_bits().wrapping_sub(1))] {
            if nb.is_finite() && nb.is_sign_negative() == f.is_sign_negative() {
                forms.push(format!("f64:{:016x}", nb.to_bits()));
                forms.push(format!("flit:{:016x}", nb.to_bits()));
            }
        }
        if f.abs() >= 2.0 && f.abs() < 1e300 {
            // computed: half of it times two (exact)
            let h = f / 2.0;
            let ht = format!("{:?}", h.abs());
            let x = if h < 0.0 { format!("(-{})", ht) } else { ht };
            forms.push(format!("fexp:({}*2)={:016x}", x, f.to_bits()));
        }
        for tf in &forms {
            cases.push(format!("t_odd {}", tf));
            cases.push(format!("t_even {}", tf));
        }
        for g in &zf {
            cases.push(format!("t_divby {} f64:{:016x}", tf, g.to_bits()));
        }
    }

    // 17. strings parsed by `int` / `float`: sign x leading zeros x the integers around every
    //     boundary (incl. the ones whose float approximation lands back inside the range), blanks,
    //     separators, radix prefixes, exponents, the words inf / nan, long digit strings
    let mut texts: Vec<String> = Vec::new();
    let mut edge: Vec<Z> = Vec::new();
    for c in [0u128, 1 << 53, 1 << 63, 1 << 64, P127] {
        for d in 0..3u128 {
            edge.push(Z::pos(c + d));
            edge.push(Z::new(true, c + d));
            if c > d {
                edge.push(Z::pos(c - d));
                edge.push(Z::new(true, c - d));
            }
        }
    }
    for d in [1u128 << 73, (1 << 74) - 1, 1 << 74, (1 << 74) + 1, 1 << 75, 1 << 76] {
        edge.push(Z::new(true, P127 + d));
        edge.push(Z::pos(P127 + d));
        edge.push(Z::pos(P127 - d));
    }
    edge.push(Z::pos(u128::MAX));
    for z in &edge {
        let digits = format!("{}", z.mag);
        for zeros in ["", "0", "000"] {
            let body = format!("{}{}", zeros, digits);
            if z.neg {
                texts.push(format!("-{}", body));
            } else {
                texts.push(body.clone());
                texts.push(format!("+{}", body));
            }
        }
        let t = z.text();
        for deco in [format!(" {}", t), format!("{} ", t), format!("{}\n", t), format!("\t{}", t), format!("{}_", t), format!("{}.0", t), format!("{}.", t), format!("{}e0", t), format!("{}E+0", t), format!("{}.9", t), format!("{}0e-1", t), format!("{}x", t), format!("0x{}", digits), format!("{}L", t), format!("--{}", digits), format!("+-{}", digits), format!("-+{}", digits)] {
            texts.push(deco);
        }
        if digits.len() > 2 {
            texts.push(format!("{}_{}", &digits[..1], &digits[1..]));
            texts.push(format!("{},{}", &digits[..1], &digits[1..]));
        }
    }
    for w in ["inf", "Inf", "INF", "infinity", "Infinity", "iNfInItY", "nan", "NaN", "NAN", "infinit", "in", "na", "nan0", "inf ", "i", "n", "+", "-", "+.", "-.", ".", "e", ".e1", "1.e1", ".1e1", "1e+", "1e-", "1e+-1", "1e1.5", "1..", "1.2.3", "0e0", "-0e0", "0e999999999999999999999", "1e999999999999999999999", "1e-999999999999999999999", "0.000000000000000000000000000000000001e36", "1e308", "1.7976931348623157e308", "1.7976931348623158e308", "1.7976931348623159e308", "2e308", "4.9406564584124654e-324", "2.4703282292062327e-324", "2.4703282292062328e-324", "2.5e-324", "1e-323", "2.2250738585072011e-308", "9007199254740993", "9007199254740992.5", "9007199254740993.0000000000000000000000001", "0.1", "0.3", "123456789012345678901234567890123456789012345678901234567890", "0.00000000000000000000000000000000000000000000000000000000000000000000001", "1e22", "1e23", "8.5", "१२"] {
        for sign in ["", "+", "-"] {
            texts.push(format!("{}{}", sign, w));
        }
    }
    let alpha: Vec<char> = "0123456789+-._eE xX ".chars().collect();
    for _ in 0..(if thorough { 60000 } else { 2500 }) {
        let len = 1 + rng.below(10);
        let t: String = (0..len).map(|_| *rng.pick(&alpha)).collect();
        texts.push(t);
        // decimal texts of random floats with many digits
        let f = rand_float(&mut rng);
        if rng.chance(1, 3) {
            texts.push(format!("{:.*e}", 17 + rng.below(20) as usize, f));
        }
    }
    for t in &texts {
        cases.push(format!("f_strint {}", str_tok(t)));
        cases.push(format!("f_strfloat {}", str_tok(t)));
    }

    // 18. nested operators: `(A op1 B) op2 C` against the stepwise evaluation (constant folding of
    //     nested constants, partial folding, operand order on the stack)
    const ARITH: [&str; 7] = ["add", "sub", "mul", "fdiv", "rem", "pow", "div"];
    for _ in 0..(if thorough { 100000 } else { 5000 }) {
        let tok = |rng: &mut Rng| -> String {
            match rng.below(6) {
                0 => { let f = if rng.chance(1, 2) { *rng.pick(&zf) } else { rand_float(rng) }; float_tok(rng, f) }
                1 => format!("bool:{}", rng.below(2)),
                2 => { let z = *rng.pick(&core); int_tok(rng, z, None) }
                3 => { let z = Z::new(rng.chance(1, 2), rng.below(40) as u128); int_tok(rng, z, None) }
                _ => { let z = if rng.chance(1, 2) { *rng.pick(&zi) } else { rand_int(rng) }; int_tok(rng, z, None) }
            }
        };
        let (a, b, c) = (tok(&mut rng), tok(&mut rng), tok(&mut rng));
        let o1 = *rng.pick(&ARITH);
        let o2 = if rng.chance(1, 4) { *rng.pick(&CMP) } else { *rng.pick(&ARITH) };
        // all-literal, all-variable and mixed (partially foldable) forms all occur through the token choice
        cases.push(format!("nest:{},{} {} {} {}", o1, o2, a, b, c));
    }

    // 19. NEGATIVE ZERO in every comparison and chain position: `-0.0` is the same number as `0.0` and as
    //     the integer 0 of every width, so no ordering operator may separate them and `==` holds
    //     (`cmp_zero_signs_equal`).  `-0.0` as a literal (three spellings), as a variable (f64, serde
    //     f64, f32) and COMPUTED by the engine (`0.0 * -1`, the float `%` of an exact negative multiple,
    //     `-0.0 / 3`, an integer dividend), against every zero (each integer form, `+0.0` literal /
    //     variable / computed, `-0.0` again) and the nearest non-zero numbers.
    {
        const NZ: u64 = 0x8000000000000000;
        let nz_toks: Vec<String> = vec![
            format!("flit:{:016x}", NZ), format!("fsrc:(-0.0)={:016x}", NZ), format!("fsrc:(-0e0)={:016x}", NZ), format!("fsrc:(-0.000)={:016x}", NZ),
            format!("f64:{:016x}", NZ), format!("sf64:{:016x}", NZ), "f32:80000000".to_string(), "sf32:80000000".to_string(),
            format!("fexp:(0.0*(-1))={:016x}", NZ), format!("fexp:((-4.0)%2.0)={:016x}", NZ), format!("fexp:((-0.0)/3)={:016x}", NZ),
            format!("fexp:((-6)%2.0)={:016x}", NZ), format!("fexp:((-0.0)*5)={:016x}", NZ), format!("fexp:(0.0/(-7))={:016x}", NZ),
            format!("fexp:((-1e-200)*1e-200)={:016x}", NZ),
        ];
        let mut zero_toks: Vec<String> = vec![
            "lit:0".to_string(), "u64:0".to_string(), "i64:0".to_string(), "u128:0".to_string(), "i128:0".to_string(),
            "su64:0".to_string(), "si64:0".to_string(), "su128:0".to_string(), "si128:0".to_string(),
            "i8:0".to_string(), "u32:0".to_string(), "isize:0".to_string(), "src:0x0=0".to_string(), "src:(-0)=0".to_string(),
            "flit:0000000000000000".to_string(), "f64:0000000000000000".to_string(), "sf64:0000000000000000".to_string(),
            "f32:00000000".to_string(), "fsrc:0e0=0000000000000000".to_string(),
            "fexp:(0.0*1)=0000000000000000".to_string(), "fexp:(4.0%2.0)=0000000000000000".to_string(),
            "fexp:(1e-200*1e-200)=0000000000000000".to_string(),
        ];
        zero_toks.extend(nz_toks.iter().cloned());
        let near_toks: Vec<String> = vec![
            "lit:1".to_string(), "i64:-1".to_string(), "lit:-1".to_string(), "u128:1".to_string(),
            "flit:0000000000000001".to_string(), "f64:8000000000000001".to_string(), "flit:8000000000000001".to_string(),
            "f64:3ff0000000000000".to_string(), "flit:bff0000000000000".to_string(),
            "fexp:(1e-200*4e-124)=0000000000000001".to_string(), "fexp:((-1e-200)*4e-124)=8000000000000001".to_string(),
        ];
        // every two-operand comparison, both orders (here also with the bare minus sign)
        let bare = format!("fsrc:-0.0={:016x}", NZ);
        for nz in nz_toks.iter().chain(std::iter::once(&bare)) {
            for z in zero_toks.iter().chain(near_toks.iter()) {
                for op in CMP {
                    cases.push(format!("{} {} {}", op, nz, z));
                    cases.push(format!("{} {} {}", op, z, nz));
                }
            }
        }
        // chains: -0.0 as first, middle and last operand, all 36 operator pairs
        for (i, nz) in nz_toks.iter().enumerate() {
            for o1 in CMP {
                for o2 in CMP {
                    let z1 = &zero_toks[(i * 7 + cases.len()) % zero_toks.len()];
                    let z2 = &zero_toks[(i * 5 + cases.len() / 3) % zero_toks.len()];
                    let n1 = &near_toks[(i + cases.len()) % near_toks.len()];
                    cases.push(format!("chain:{},{} {} {} {}", o1, o2, nz, z1, z2));
                    cases.push(format!("chain:{},{} {} {} {}", o1, o2, z1, nz, z2));
                    cases.push(format!("chain:{},{} {} {} {}", o1, o2, z1, z2, nz));
                    cases.push(format!("chain:{},{} {} {} {}", o1, o2, z1, nz, n1));
                    cases.push(format!("chain:{},{} {} {} {}", o1, o2, n1, nz, z2));
                }
            }
            for _ in 0..12 {
                let (o1, o2, o3) = (*rng.pick(&CMP), *rng.pick(&CMP), *rng.pick(&CMP));
                let (z1, z2, z3) = (rng.pick(&zero_toks).clone(), rng.pick(&zero_toks).clone(), rng.pick(&zero_toks).clone());
                match rng.below(4) {
                    0 => cases.push(format!("chain:{},{},{} {} {} {} {}", o1, o2, o3, nz, z1, z2, z3)),
                    1 => cases.push(format!("chain:{},{},{} {} {} {} {}", o1, o2, o3, z1, nz, z2, z3)),
                    2 => cases.push(format!("chain:{},{},{} {} {} {} {}", o1, o2, o3, z1, z2, nz, z3)),
                    _ => cases.push(format!("chain:{},{},{} {} {} {} {}", o1, o2, o3, z1, z2, z3, nz)),
                }
            }
        }
        // a zero computed by an inner operator as the left operand of every comparison (the oracle judges
        // the outer operator on the engine's inner value), and of the arithmetic operators
        let inners: [(&str, &str, &str); 9] = [
            ("mul", "flit:0000000000000000", "lit:-1"), ("rem", "flit:c010000000000000", "flit:4000000000000000"),
            ("div", "flit:8000000000000000", "lit:3"), ("mul", "f64:0000000000000000", "i64:-1"),
            ("rem", "i64:-6", "f64:4000000000000000"), ("sub", "lit:5", "lit:5"), ("add", "flit:bff0000000000000", "flit:3ff0000000000000"),
            ("mul", "i64:0", "i64:-1"), ("fdiv", "f64:bfe0000000000000", "lit:-1"),
        ];
        for (o1, a, b) in inners {
            for z in zero_toks.iter().chain(near_toks.iter()) {
                for op in CMP {
                    cases.push(format!("nest:{},{} {} {} {}", o1, op, a, b, z));
                }
                let o2 = ["add", "sub", "mul", "div"][cases.len() % 4];
                cases.push(format!("nest:{},{} {} {} {}", o1, o2, a, b, z));
            }
        }
        // min / max / sort / unique / in (the value order and `==` + hash at work inside filters)
        const FUNCS19: [&str; 7] = ["f_min", "f_max", "f_sortfirst", "f_sortlast", "f_rsortfirst", "f_uniquelen", "f_in"];
        for (i, nz) in nz_toks.iter().enumerate() {
            for (j, z) in zero_toks.iter().chain(near_toks.iter()).enumerate() {
                let f = FUNCS19[(i + j) % 7];
                cases.push(format!("{} {} {}", f, nz, z));
                cases.push(format!("{} {} {}", FUNCS19[(i + j + 3) % 7], z, nz));
            }
        }
        // the tests and select / reject / selectattr under every registered name
        const NAMES19: [&str; 15] = ["eq", "equalto", "==", "ne", "!=", "lt", "lessthan", "<", "le", "<=", "gt", "greaterthan", ">", "ge", ">="];
        const IDENTS19: [&str; 9] = ["eq", "equalto", "ne", "lt", "lessthan", "le", "gt", "greaterthan", "ge"];
        for nz in &nz_toks {
            for (j, z) in zero_toks.iter().enumerate() {
                for (k, name) in IDENTS19.iter().enumerate() {
                    if (j + k) % 3 == 0 {
                        cases.push(format!("is:{} {} {}", name, nz, z));
                        cases.push(format!("is:{} {} {}", name, z, nz));
                    }
                }
                for (k, name) in NAMES19.iter().enumerate() {
                    match (j + k) % 9 {
                        0 => cases.push(format!("sel:{} {} {}", name, nz, z)),
                        1 => cases.push(format!("rej:{} {} {}", name, z, nz)),
                        2 => cases.push(format!("selattr:{} {} {}", name, nz, z)),
                        _ => {}
                    }
                }
            }
        }
    }

    // distinct, generation order kept
    let mut seen = HashSet::new();
    cases.retain(|c| seen.insert(c.clone()));
    cases
}

fn main() {
    quiet_panics();
    let args: Vec<String> = std::env::args().collect();
    let env = make_envs();
    let stdout = std::io::stdout();
    let mut out = std::io::BufWriter::new(stdout.lock());
    match args.get(1).map(|s| s.as_str()) {
        Some("gen") => {
            let tier = args.get(2).map(|s| s.as_str()).unwrap_or("quick");
            for case in generate(tier) {
                let fields: Vec<&str> = case.split(' ').collect();
                let res = run_case(&env, &fields);
                writeln!(out, "{}\t{}", case, res).unwrap();
            }
        }
        Some("cases") => {
            let tier = args.get(2).map(|s| s.as_str()).unwrap_or("quick");
            for case in generate(tier) {
                writeln!(out, "{}", case).unwrap();
            }
        }
        Some("one") => {
            let fields: Vec<&str> = args[2..].iter().flat_map(|s| s.split(' ')).filter(|s| !s.is_empty()).collect();
            let res = run_case(&env, &fields);
            writeln!(out, "{}\t{}", fields.join(" "), res).unwrap();
        }
        Some("run") => {
            let stdin = std::io::stdin();
            for line in stdin.lock().lines() {
                let line = line.unwrap();
                let case = line.split('\t').next().unwrap().trim().to_string();
                if case.is_empty() {
                    continue;
                }
                let fields: Vec<&str> = case.split(' ').collect();
                let res = run_case(&env, &fields);
                writeln!(out, "{}\t{}", case, res).unwrap();
            }
        }
        _ => {
            eprintln!("usage: c08 gen <quick|thorough> | cases <quick|thorough> | one <op> <A> [<B>] | run");
            std::process::exit(2);
        }
    }
}
