//! C08 correspondence harness: numeric operators on the real engine.
//!
//! Case line:   `<op> <A> [<B>]\t<result>`
//!
//! ops:      add sub mul fdiv rem pow (binary), neg (unary), lt le gt ge eq ne (comparisons)
//! operand:  `lit:<dec>`   integer literal in the template source (negative: `(-N)`, i.e. unary
//!                         minus applied to the literal N, which is how templates spell it)
//!           `u64:<dec>` `i64:<dec>` `u128:<dec>` `i128:<dec>`   context variable of that Rust type
//!           `flit:<hex16>` float literal (shortest round-trip decimal text of the bit pattern)
//!           `f64:<hex16>`  context variable of type f64
//! result:   `i:<dec>` integer, `f:<hex16>` float bits, `b:0|1` bool, `err:<ErrorKind>`, `panic`,
//!           `other:<kind>`; a suffix `|render=<text>` is added when rendering `{{ expr }}` does
//!           not print the same integer/bool (or fails differently) as `Expression::eval`.
//!
//! usage: c08 gen <quick|thorough>    print all case lines with results
//!        c08 one <op> <A> [<B>]      run one case (replay)
//!        c08 run                     read case lines from stdin, print with results
use minijinja::value::{Serde, Value};
use minijinja::{context, Environment};
use mjh::*;
use std::collections::HashSet;
use std::io::{BufRead, Write};

// ------------------------------------------------------------------ mathematical integers
/// an integer in (-2^128, 2^128): sign and magnitude
#[derive(Clone, Copy, PartialEq, Eq, Hash, Debug)]
struct Z {
    neg: bool,
    mag: u128,
}

const P127: u128 = 1u128 << 127;

impl Z {
    fn new(neg: bool, mag: u128) -> Z {
        Z { neg: neg && mag != 0, mag }
    }
    fn pos(mag: u128) -> Z {
        Z::new(false, mag)
    }
    /// inside the property's operand range [-2^127, 2^128)
    fn in_range(&self) -> bool {
        !self.neg || self.mag <= P127
    }
    fn parse(s: &str) -> Z {
        match s.strip_prefix('-') {
            Some(m) => Z::new(true, m.parse().expect("bad integer")),
            None => Z::new(false, s.parse().expect("bad integer")),
        }
    }
    fn text(&self) -> String {
        if self.neg {
            format!("-{}", self.mag)
        } else {
            format!("{}", self.mag)
        }
    }
    fn as_u64(&self) -> Option<u64> {
        if self.neg { None } else { u64::try_from(self.mag).ok() }
    }
    fn as_u128(&self) -> Option<u128> {
        if self.neg { None } else { Some(self.mag) }
    }
    fn as_i128(&self) -> Option<i128> {
        if self.neg {
            if self.mag <= P127 { Some((self.mag as i128).wrapping_neg()) } else { None }
        } else {
            i128::try_from(self.mag).ok()
        }
    }
    fn as_i64(&self) -> Option<i64> {
        self.as_i128().and_then(|x| i64::try_from(x).ok())
    }
    /// forms in which this value can be written
    fn forms(&self) -> Vec<&'static str> {
        let mut v = vec!["lit"];
        if self.as_u64().is_some() { v.push("u64"); }
        if self.as_i64().is_some() { v.push("i64"); }
        if self.as_u128().is_some() { v.push("u128"); }
        if self.as_i128().is_some() { v.push("i128"); }
        v
    }
}

// ------------------------------------------------------------------ operands
/// returns (source text, optional context value)
fn operand(tok: &str, name: &str) -> (String, Option<Value>) {
    let (form, val) = tok.split_once(':').expect("operand needs form:value");
    let serde_path = val.as_bytes().last().map_or(false, |c| c % 2 == 1);
    macro_rules! var {
        ($x:expr) => {{
            let x = $x;
            let v = if serde_path { Value::from(Serde(x)) } else { Value::from(x) };
            (name.to_string(), Some(v))
        }};
    }
    match form {
        "lit" => {
            let z = Z::parse(val);
            if z.neg { (format!("(-{})", z.mag), None) } else { (format!("{}", z.mag), None) }
        }
        "u64" => var!(Z::parse(val).as_u64().expect("not a u64")),
        "i64" => var!(Z::parse(val).as_i64().expect("not an i64")),
        "u128" => var!(Z::parse(val).as_u128().expect("not a u128")),
        "i128" => var!(Z::parse(val).as_i128().expect("not an i128")),
        "flit" => {
            let f = f64::from_bits(u64::from_str_radix(val, 16).expect("bad float bits"));
            assert!(f.is_finite(), "float literals must be finite");
            let t = format!("{:?}", f.abs());
            if f.is_sign_negative() { (format!("(-{})", t), None) } else { (t, None) }
        }
        "f64" => var!(f64::from_bits(u64::from_str_radix(val, 16).expect("bad float bits"))),
        _ => panic!("bad operand form {form}"),
    }
}

fn op_src(op: &str) -> &'static str {
    match op {
        "add" => "+", "sub" => "-", "mul" => "*", "fdiv" => "//", "rem" => "%", "pow" => "**",
        "lt" => "<", "le" => "<=", "gt" => ">", "ge" => ">=", "eq" => "==", "ne" => "!=",
        _ => panic!("bad op {op}"),
    }
}

fn canon(v: &Value) -> String {
    if v.is_integer() {
        return format!("i:{}", v);
    }
    if v.is_number() {
        return match f64::try_from(v.clone()) {
            Ok(f) => format!("f:{:016x}", f.to_bits()),
            Err(_) => "other:number".into(),
        };
    }
    if v.kind() == minijinja::value::ValueKind::Bool {
        return format!("b:{}", if v.is_true() { 1 } else { 0 });
    }
    format!("other:{:?}", v.kind())
}

fn run_case(env: &Environment, fields: &[&str]) -> String {
    let op = fields[0];
    let src;
    let (va, vb);
    if op == "neg" {
        let (sa, a) = operand(fields[1], "a");
        src = format!("-{}", sa);
        va = a;
        vb = None;
    } else {
        let (sa, a) = operand(fields[1], "a");
        let (sb, b) = operand(fields[2], "b");
        src = format!("{} {} {}", sa, op_src(op), sb);
        va = a;
        vb = b;
    }
    let ctx = context! { a => va, b => vb };
    let r = guarded(|| {
        let expr = env.compile_expression(&src)?;
        let out = expr.eval(&ctx)?;
        Ok::<(String, String), minijinja::Error>((canon(&out), out.to_string()))
    });
    let (res, shown) = match r {
        Ok(Ok((c, s))) => (c, Some(s)),
        Ok(Err(e)) => (format!("err:{}", error_kind_name(&e)), None),
        Err(_) => ("panic".to_string(), None),
    };
    // the same expression printed by a template
    let tsrc = format!("{{{{ {} }}}}", src);
    let rr = guarded(|| env.render_str(&tsrc, &ctx));
    let rendered = match rr {
        Ok(Ok(s)) => s,
        Ok(Err(e)) => format!("err:{}", error_kind_name(&e)),
        Err(_) => "panic".to_string(),
    };
    let expect_render = if let Some(d) = res.strip_prefix("i:") {
        d.to_string()
    } else if res == "b:1" {
        "True".to_string()
    } else if res == "b:0" {
        "False".to_string()
    } else if res.starts_with("f:") || res.starts_with("other:") {
        shown.unwrap_or_default()
    } else {
        res.clone()
    };
    if rendered == expect_render {
        res
    } else {
        format!("{}|render={}", res, rendered)
    }
}

// ------------------------------------------------------------------ generation
fn zoo_ints() -> Vec<Z> {
    let mut pos: Vec<u128> = vec![0, 1, 2, 3, 7, 10];
    for k in [31u32, 32, 53, 63, 64, 127] {
        let p = 1u128 << k;
        pos.extend([p - 1, p, p + 1]);
    }
    pos.extend([1u128 << 126, u128::MAX - 1, u128::MAX]);
    let mut out = Vec::new();
    for &m in &pos {
        out.push(Z::pos(m));
        if m != 0 && m <= P127 {
            out.push(Z::new(true, m));
        }
    }
    out
}

fn zoo_floats() -> Vec<f64> {
    let mut v: Vec<f64> = vec![
        0.0, 0.5, 1.0, 1.5, 2.0, 2.5, 3.0, 7.0, 0.1, 0.3, 1e-7, 5e-324, 2.2250738585072014e-308,
        1e30, 1e300, f64::MAX, 4503599627370496.5,
        9007199254740991.0, 9007199254740992.0, 9007199254740994.0,
        9223372036854774784.0, 9223372036854775808.0, 9223372036854777856.0,
        18446744073709549568.0, 18446744073709551616.0, 18446744073709555712.0,
        170141183460469212842221372237303250944.0, 170141183460469231731687303715884105728.0,
        170141183460469269510619166673045815296.0,
        340282366920938425684442744474606501888.0, 340282366920938463463374607431768211456.0,
        2147483648.0, 4294967296.0,
    ];
    let n = v.len();
    for i in 0..n {
        v.push(-v[i]);
    }
    v
}

fn rand_int(rng: &mut Rng) -> Z {
    let centers: [u128; 10] = [0, 1 << 31, 1 << 32, 1 << 53, 1 << 63, 1 << 64, 1 << 126, 1 << 127, u128::MAX, 1 << 100];
    loop {
        let z = match rng.below(10) {
            0..=4 => {
                // near a boundary
                let c = *rng.pick(&centers);
                let d = if rng.chance(2, 3) { rng.below(17) as u128 } else { rng.below(1 << 20) as u128 };
                let mag = if rng.chance(1, 2) { c.saturating_add(d) } else { c.saturating_sub(d) };
                Z::new(rng.chance(1, 2), mag)
            }
            5 => Z::new(rng.chance(1, 2), rng.below(1000) as u128),
            6 => Z::new(rng.chance(1, 2), rng.next() as u32 as u128),
            7 => Z::new(rng.chance(1, 2), rng.next() as u128),
            8 => Z::new(rng.chance(1, 2), ((rng.next() as u128) << 64 | rng.next() as u128) >> rng.below(70)),
            _ => Z::new(rng.chance(1, 2), (rng.next() as u128) >> rng.below(64)),
        };
        if z.in_range() {
            return z;
        }
    }
}

/// second operand chosen so that `a op b` lands next to an overflow boundary
fn targeted(rng: &mut Rng, op: &str, a: Z) -> Option<Z> {
    let targets: [u128; 5] = [1 << 63, 1 << 64, 1 << 127, u128::MAX, (1 << 127) - 1];
    let t = *rng.pick(&targets);
    let d = rng.below(5) as i128 - 2;
    let adj = |m: u128| -> u128 { if d < 0 { m.saturating_sub((-d) as u128) } else { m.saturating_add(d as u128) } };
    let z = match op {
        "add" | "sub" => {
            // |b| = |t - |a||
            let m = if t >= a.mag { t - a.mag } else { a.mag - t };
            Z::new(rng.chance(1, 2), adj(m))
        }
        "mul" | "fdiv" | "rem" => {
            if a.mag == 0 { return None; }
            Z::new(rng.chance(1, 2), adj(t / a.mag))
        }
        _ => return None,
    };
    if z.in_range() { Some(z) } else { None }
}

fn rand_pow_pair(rng: &mut Rng) -> (Z, Z) {
    let base = match rng.below(6) {
        0..=2 => Z::new(rng.chance(1, 2), rng.below(13) as u128),
        3 => {
            let k = rng.below(65) as u32;
            let d = rng.below(3) as u128;
            Z::new(rng.chance(1, 2), ((1u128 << k) + d).saturating_sub(1))
        }
        4 => Z::new(rng.chance(1, 2), rng.below(100000) as u128),
        _ => rand_int(rng),
    };
    let exp = match rng.below(8) {
        0..=4 => Z::pos(rng.below(131) as u128),
        5 => Z::pos((1u128 << 32) - 2 + rng.below(4) as u128),
        6 => Z::new(true, rng.below(4) as u128),
        _ => rand_int(rng),
    };
    (base, exp)
}

fn rand_float(rng: &mut Rng) -> f64 {
    loop {
        let f = match rng.below(8) {
            0 => (rng.below(2000) as f64 - 1000.0) / 10.0,
            1 => (rng.below(200) as f64 - 100.0) / 8.0,
            2 => {
                // near an integer-type boundary
                let k = *rng.pick(&[31i32, 32, 53, 63, 64, 127, 128]);
                let base = (2.0f64).powi(k);
                let bits = base.to_bits().wrapping_add(rng.below(9)).wrapping_sub(4);
                let f = f64::from_bits(bits);
                if rng.chance(1, 2) { -f } else { f }
            }
            3 => {
                // integer valued with a few fraction bits
                let m = (rng.next() >> rng.below(60)) as f64;
                let f = m / *rng.pick(&[1.0, 2.0, 4.0, 1024.0]);
                if rng.chance(1, 2) { -f } else { f }
            }
            4 => {
                // random mantissa, moderate exponent
                let e = 1023 - 60 + rng.below(200);
                f64::from_bits((rng.next() & ((1 << 52) - 1)) | (e << 52) | (rng.below(2) << 63))
            }
            5 => f64::from_bits(rng.next()),
            6 => (rng.below(20) as f64 - 10.0) * *rng.pick(&[0.1, 0.01, 0.25, 1e-3, 3.0]),
            _ => {
                let e = rng.below(2047);
                f64::from_bits((rng.next() & ((1 << 52) - 1)) | (e << 52) | (rng.below(2) << 63))
            }
        };
        if f.is_finite() {
            return f;
        }
    }
}

fn int_tok(rng: &mut Rng, z: Z, form: Option<&str>) -> String {
    let f = match form {
        Some(f) => f,
        None => {
            let fs = z.forms();
            *rng.pick(&fs)
        }
    };
    format!("{}:{}", f, z.text())
}

fn float_tok(rng: &mut Rng, f: f64) -> String {
    format!("{}:{:016x}", if rng.chance(1, 2) { "flit" } else { "f64" }, f.to_bits())
}

const BIN: [&str; 6] = ["add", "sub", "mul", "fdiv", "rem", "pow"];
const CMP: [&str; 6] = ["lt", "le", "gt", "ge", "eq", "ne"];

fn generate(tier: &str) -> Vec<String> {
    let thorough = tier == "thorough";
    let mut rng = Rng::new(seed_from_env());
    let mut cases: Vec<String> = Vec::new();
    let zi = zoo_ints();
    let zf = zoo_floats();

    // 1. unary minus: the whole zoo in every form, random values
    for z in &zi {
        for f in z.forms() {
            cases.push(format!("neg {}:{}", f, z.text()));
        }
    }
    for _ in 0..(if thorough { 20000 } else { 2000 }) {
        let z = rand_int(&mut rng);
        cases.push(format!("neg {}", int_tok(&mut rng, z, None)));
    }

    // 2. binary integer operators on zoo x zoo: literal/literal plus variable forms
    for a in &zi {
        for b in &zi {
            for op in BIN {
                cases.push(format!("{} lit:{} lit:{}", op, a.text(), b.text()));
                if thorough {
                    for fa in a.forms() {
                        for fb in b.forms() {
                            if fa != "lit" || fb != "lit" {
                                cases.push(format!("{} {}:{} {}:{}", op, fa, a.text(), fb, b.text()));
                            }
                        }
                    }
                } else {
                    for _ in 0..2 {
                        let ta = int_tok(&mut rng, *a, None);
                        let tb = int_tok(&mut rng, *b, None);
                        cases.push(format!("{} {} {}", op, ta, tb));
                    }
                }
            }
        }
    }

    // 3. random pairs (boundary biased, half of them targeted at an overflow edge)
    let n_pairs = if thorough { 75000 } else { 9000 };
    for i in 0..n_pairs {
        let a = rand_int(&mut rng);
        for op in BIN {
            let (a, b) = if op == "pow" {
                rand_pow_pair(&mut rng)
            } else if i % 2 == 0 {
                match targeted(&mut rng, op, a) {
                    Some(b) => (a, b),
                    None => (a, rand_int(&mut rng)),
                }
            } else {
                (a, rand_int(&mut rng))
            };
            let (a, b) = if rng.chance(1, 2) || op == "pow" { (a, b) } else { (b, a) };
            for _ in 0..2 {
                let ta = int_tok(&mut rng, a, None);
                let tb = int_tok(&mut rng, b, None);
                cases.push(format!("{} {} {}", op, ta, tb));
            }
        }
    }

    // 4. comparisons: int/int across widths, int/float, float/float
    for a in &zi {
        for b in &zi {
            for op in CMP {
                let ta = int_tok(&mut rng, *a, None);
                let tb = int_tok(&mut rng, *b, None);
                cases.push(format!("{} {} {}", op, ta, tb));
            }
        }
        for f in &zf {
            for op in CMP {
                let ta = int_tok(&mut rng, *a, None);
                let tf = float_tok(&mut rng, *f);
                if rng.chance(1, 2) {
                    cases.push(format!("{} {} {}", op, ta, tf));
                } else {
                    cases.push(format!("{} {} {}", op, tf, ta));
                }
            }
        }
    }
    for _ in 0..(if thorough { 100000 } else { 10000 }) {
        let op = *rng.pick(&CMP);
        let a = rand_int(&mut rng);
        let ta = int_tok(&mut rng, a, None);
        let tb = match rng.below(4) {
            0 => {
                let b = rand_int(&mut rng);
                int_tok(&mut rng, b, None)
            }
            1 => {
                // the float next to the integer
                let m = a.mag as f64;
                let f = f64::from_bits(m.to_bits().wrapping_add(rng.below(5)).wrapping_sub(2));
                let f = if a.neg { -f } else { f };
                if f.is_finite() { float_tok(&mut rng, f) } else { float_tok(&mut rng, 0.0) }
            }
            2 => {
                // the integer itself in another width
                int_tok(&mut rng, a, None)
            }
            _ => {
                let f = rand_float(&mut rng);
                float_tok(&mut rng, f)
            }
        };
        if rng.chance(1, 2) {
            cases.push(format!("{} {} {}", op, ta, tb));
        } else {
            cases.push(format!("{} {} {}", op, tb, ta));
        }
    }

    // 5. Euclidean // and % with floats involved
    for a in &zf {
        for b in &zf {
            for op in ["fdiv", "rem"] {
                let ta = float_tok(&mut rng, *a);
                let tb = float_tok(&mut rng, *b);
                cases.push(format!("{} {} {}", op, ta, tb));
            }
        }
    }
    for a in &zi {
        for f in &zf {
            for op in ["fdiv", "rem"] {
                if !thorough && rng.chance(1, 2) {
                    continue;
                }
                let ta = int_tok(&mut rng, *a, None);
                let tf = float_tok(&mut rng, *f);
                if rng.chance(1, 2) {
                    cases.push(format!("{} {} {}", op, ta, tf));
                } else {
                    cases.push(format!("{} {} {}", op, tf, ta));
                }
            }
        }
    }
    for _ in 0..(if thorough { 60000 } else { 6000 }) {
        let a = rand_float(&mut rng);
        let b = match rng.below(4) {
            0 => a * (rng.below(9) as f64 - 4.0) / (1.0 + rng.below(7) as f64),
            1 => *rng.pick(&[0.1, 0.2, 0.3, 0.5, 1.0, 2.0, 3.0, 7.0, 10.0, -0.1, -1.0, -2.0, -3.0, 1e-3]),
            _ => rand_float(&mut rng),
        };
        if !b.is_finite() {
            continue;
        }
        let (ta, tb) = if rng.chance(1, 5) {
            let z = rand_int(&mut rng);
            let ti = int_tok(&mut rng, z, None);
            if rng.chance(1, 2) { (ti, float_tok(&mut rng, b)) } else { (float_tok(&mut rng, a), ti) }
        } else {
            (float_tok(&mut rng, a), float_tok(&mut rng, b))
        };
        for op in ["fdiv", "rem"] {
            cases.push(format!("{} {} {}", op, ta, tb));
        }
    }

    // distinct, generation order kept
    let mut seen = HashSet::new();
    cases.retain(|c| seen.insert(c.clone()));
    cases
}

fn main() {
    quiet_panics();
    let args: Vec<String> = std::env::args().collect();
    let env = Environment::new();
    let stdout = std::io::stdout();
    let mut out = std::io::BufWriter::new(stdout.lock());
    match args.get(1).map(|s| s.as_str()) {
        Some("gen") => {
            let tier = args.get(2).map(|s| s.as_str()).unwrap_or("quick");
            for case in generate(tier) {
                let fields: Vec<&str> = case.split(' ').collect();
                let res = run_case(&env, &fields);
                writeln!(out, "{}\t{}", case, res).unwrap();
            }
        }
        Some("one") => {
            let fields: Vec<&str> = args[2..].iter().flat_map(|s| s.split(' ')).filter(|s| !s.is_empty()).collect();
            let res = run_case(&env, &fields);
            writeln!(out, "{}\t{}", fields.join(" "), res).unwrap();
        }
        Some("run") => {
            let stdin = std::io::stdin();
            for line in stdin.lock().lines() {
                let line = line.unwrap();
                let case = line.split('\t').next().unwrap().trim().to_string();
                if case.is_empty() {
                    continue;
                }
                let fields: Vec<&str> = case.split(' ').collect();
                let res = run_case(&env, &fields);
                writeln!(out, "{}\t{}", case, res).unwrap();
            }
        }
        _ => {
            eprintln!("usage: c08 gen <quick|thorough> | one <op> <A> [<B>] | run");
            std::process::exit(2);
        }
    }
}
