//! C10 correspondence harness: verbatim text, whitespace control, custom delimiters.
//!
//! Streams (one line per case, `case<TAB>result fields…`):
//!
//!   seg <tlk> <fam> <segs>      <TAB> src=<hex> <TAB> tok=<items> <TAB> out=<ok:hex|err:Kind>
//!       segment sequences over the text alphabets and the fixed tag vocabulary, every marker
//!       placement, 8 settings, default and custom delimiter families.  `tok` is what the real
//!       lexer (`machinery::tokenize`) produced (D<hex> = template data, V = variable tag,
//!       B = block tag; adjacent data merged), `out` what `Environment::render_str` printed with
//!       `v = "V"`, `t = true`.
//!   prog <tlk> <fam> <psegs>    <TAB> src=<hex> <TAB> out=<…> <TAB> base=<…>
//!       core-fragment programs (for/if/else/set/filter/with/raw/comments, expressions) rewritten
//!       to a delimiter family; `base` is the output of the same program in default syntax.
//!   line <tlk> <fam> <nl> <lines> <TAB> src=<hex> <TAB> out=<…> <TAB> eq=<…>
//!       line statements / line comments; `eq` is the output of the equivalent template in which
//!       every statement line is replaced by the bare block tag and every comment line removed.
//!   rand <tlk> <fam> <srchex>   <TAB> src=<hex> <TAB> tok=<items>
//!       random delimiter sets (prefix-sharing, nested, contained, multi-byte) x random sources made of
//!       delimiter fragments: the real lexer against the model of the automaton path.
//!   cfg <fam>                   <TAB> build=<ok|err:Kind> [<TAB> probe=<…>]
//!       delimiter configurations (valid and invalid) through SyntaxConfigBuilder::build.
//!
//! <tlk> = three 0/1 digits: trim_blocks, lstrip_blocks, keep_trailing_newline.
//! <fam> = name:bs,be,vs,ve,cs,ce,ls,lc (hex of each delimiter; empty = not set).
//! <segs> = `;`-joined: T<hex> | V<l><r> | B<l><r> | C<l><r> | R<l><r><l2><r2><hex>, markers in `_-+`,
//!          tight forms v<l><r> (`{{v}}`) | b<l><r> (`{%if t%}`) | r<l><r><l2><r2><hex> (`{%raw%}…{%endraw%}`),
//!          K<l><r><hex body> = comment with an arbitrary (possibly empty) body,
//!          the k-th B tag is `if t` for even k and `endif` for odd k.  Empty sequence = `.`.
//! <psegs> = `;`-joined: T<hex> | G<v|b|c><l><r><hex interior> | R<l><r><l2><r2><hex>.
//!
//! usage: c10 gen <quick|thorough>     all streams
//!        c10 one <case fields…>       replay one case
use minijinja::machinery::{tokenize, Token, WhitespaceConfig};
use minijinja::syntax::SyntaxConfig;
use minijinja::{context, Environment};
use mjh::*;
use std::io::Write;

#[derive(Clone, Debug)]
struct Fam {
    name: String,
    d: [String; 8], // bs be vs ve cs ce ls lc
}

impl Fam {
    fn new(name: &str, d: [&str; 8]) -> Fam {
        Fam { name: name.into(), d: d.map(|x| x.to_string()) }
    }
    fn bs(&self) -> &str { &self.d[0] }
    fn be(&self) -> &str { &self.d[1] }
    fn vs(&self) -> &str { &self.d[2] }
    fn ve(&self) -> &str { &self.d[3] }
    fn cs(&self) -> &str { &self.d[4] }
    fn ce(&self) -> &str { &self.d[5] }
    fn ls(&self) -> &str { &self.d[6] }
    fn lc(&self) -> &str { &self.d[7] }
    fn enc(&self) -> String {
        format!("{}:{}", self.name, self.d.iter().map(|x| hex(x.as_bytes())).collect::<Vec<_>>().join(","))
    }
    fn dec(s: &str) -> Fam {
        let (name, rest) = s.split_once(':').expect("fam");
        let parts: Vec<String> = rest.split(',').map(|h| String::from_utf8(unhex(h)).unwrap()).collect();
        assert_eq!(parts.len(), 8);
        Fam { name: name.into(), d: [parts[0].clone(), parts[1].clone(), parts[2].clone(), parts[3].clone(), parts[4].clone(), parts[5].clone(), parts[6].clone(), parts[7].clone()] }
    }
    /// `build`, once per delimiter set (the automaton is shared by the clones)
    fn build(&self) -> Result<SyntaxConfig, minijinja::Error> {
        thread_local! {
            static CACHE: std::cell::RefCell<std::collections::HashMap<[String; 8], SyntaxConfig>> = Default::default();
        }
        if let Some(s) = CACHE.with(|c| c.borrow().get(&self.d).cloned()) {
            return Ok(s);
        }
        let s = self.build_uncached()?;
        CACHE.with(|c| c.borrow_mut().insert(self.d.clone(), s.clone()));
        Ok(s)
    }
    fn build_uncached(&self) -> Result<SyntaxConfig, minijinja::Error> {
        let mut b = SyntaxConfig::builder();
        b.block_delimiters(self.d[0].clone(), self.d[1].clone());
        b.variable_delimiters(self.d[2].clone(), self.d[3].clone());
        b.comment_delimiters(self.d[4].clone(), self.d[5].clone());
        if !self.d[6].is_empty() {
            b.line_statement_prefix(self.d[6].clone());
        }
        if !self.d[7].is_empty() {
            b.line_comment_prefix(self.d[7].clone());
        }
        b.build()
    }
    /// start patterns (pattern, is_line_statement)
    fn starts(&self) -> Vec<(&str, bool)> {
        let mut v = vec![(self.vs(), false), (self.bs(), false), (self.cs(), false)];
        if !self.ls().is_empty() {
            v.push((self.ls(), true));
        }
        if !self.lc().is_empty() {
            v.push((self.lc(), false));
        }
        v
    }
}

fn default_fam() -> Fam {
    Fam::new("default", ["{%", "%}", "{{", "}}", "{#", "#}", "", ""])
}

/// the delimiter families of the property's quantifier
fn families() -> Vec<Fam> {
    vec![
        default_fam(),
        // prefix-sharing, shared end marker
        Fam::new("erb", ["<%", "%>", "<%=", "%>", "<%#", "%>", "", ""]),
        // nested prefix
        Fam::new("angle", ["<<", ">>", "<<<", ">>>", "<#", "#>", "", ""]),
        // nested prefix, longer by two
        Fam::new("angle4", ["<<", ">>", "<<<<", ">>>>", "<<#", "#>>", "", ""]),
        // single-brace variable sharing its prefix with the block and comment start
        Fam::new("brace1", ["{%", "%}", "{", "}", "{#", "#}", "", ""]),
        // single-brace block, double-brace variable
        Fam::new("brace2", ["{", "}", "{{", "}}", "{{#", "#}}", "", ""]),
        // LaTeX style
        Fam::new("latex", ["\\BLOCK{", "}", "\\VAR{", "}", "\\#{", "}", "", ""]),
        // all three share one end marker, starts share a prefix
        Fam::new("shared", ["[%", "%]", "[=", "%]", "[#", "%]", "", ""]),
        // default delimiters plus line prefixes
        Fam::new("line", ["{%", "%}", "{{", "}}", "{#", "#}", "#", "##"]),
        // other prefixes
        Fam::new("line2", ["<%", "%>", "<%=", "%>", "<%#", "%>", "%%", "%#"]),
        // start delimiter contained in another one
        Fam::new("inner", ["(%", "%)", "((%", "%))", "(#", "#)", "", ""]),
        // self-overlapping delimiters (a proper prefix is also a suffix) in every role
        Fam::new("html", ["{{%", "%}}", "<<<", ">>>", "<!--", "-->", "", ""]),
        Fam::new("doc", ["##{", "##}", "{{", "}}", "/**", "**/", "", ""]),
        Fam::new("alpha", ["aab", "baa", "abab", "baba", "aaa", "aaa", "", ""]),
        Fam::new("swap", ["**/", "/**", "-->", "<--", "##}", "{##", "", ""]),
        Fam::new("lineov", ["{%", "%}", "{{", "}}", "{#", "#}", "--", "---"]),
        // end delimiters that begin with a whitespace-marker character, a digit, a letter; a comment
        // end that begins with whitespace
        Fam::new("dashend", ["<%", "-%>", "<=", "->", "<#", "-#>", "", ""]),
        Fam::new("plusend", ["[%", "+%]", "[[", "+]]", "[#", "+#]", "", ""]),
        Fam::new("digitend", ["<1", "1>", "<2", "2>", "<3", "3>", "", ""]),
        Fam::new("letterend", ["<b", "b>", "<v", "v>", "<c", "c>", "", ""]),
        Fam::new("wsend", ["{%", "%}", "{{", "}}", "{#", " #}", "", ""]),
        // end delimiters that end in horizontal whitespace
        Fam::new("wstrail", ["{%", "%} ", "{{", "}}\t", "{#", "#}\u{a0}", "", ""]),
        // block / variable / comment start delimiters that end in a line break
        Fam::new("nlstart", ["{%\n", "%}", "{{\n", "}}", "{#\r\n", "#}", "", ""]),
        // the marked reading of an end delimiter can swallow the text behind it (`--` + `-x`)
        Fam::new("dashdash", ["<%", "--", "<=", "++", "<#", "--", "", ""]),
    ]
}

fn ws_of(tlk: &str) -> WhitespaceConfig {
    let b = tlk.as_bytes();
    let mut ws = WhitespaceConfig::default();
    ws.trim_blocks = b[0] == b'1';
    ws.lstrip_blocks = b[1] == b'1';
    ws.keep_trailing_newline = b[2] == b'1';
    ws
}

fn mk(c: char) -> &'static str {
    match c {
        '-' => "-",
        '+' => "+",
        _ => "",
    }
}

fn hexs(s: &str) -> String {
    hex(s.as_bytes())
}
fn unhexs(s: &str) -> String {
    String::from_utf8(unhex(s)).expect("utf8")
}

/// source text of one item
fn item_src(f: &Fam, it: &str, nblock: &mut usize) -> String {
    let c: Vec<char> = it.chars().collect();
    match c[0] {
        'T' => unhexs(&it[1..]),
        'V' => format!("{}{} v {}{}", f.vs(), mk(c[1]), mk(c[2]), f.ve()),
        'B' => {
            let w = if *nblock % 2 == 0 { "if t" } else { "endif" };
            *nblock += 1;
            format!("{}{} {} {}{}", f.bs(), mk(c[1]), w, mk(c[2]), f.be())
        }
        'C' => format!("{}{} c {}{}", f.cs(), mk(c[1]), mk(c[2]), f.ce()),
        // tight forms and comments with an arbitrary body
        'v' => format!("{}{}v{}{}", f.vs(), mk(c[1]), mk(c[2]), f.ve()),
        'b' => {
            let w = if *nblock % 2 == 0 { "if t" } else { "endif" };
            *nblock += 1;
            format!("{}{}{}{}{}", f.bs(), mk(c[1]), w, mk(c[2]), f.be())
        }
        'K' => format!("{}{}{}{}{}", f.cs(), mk(c[1]), unhexs(&it[3..]), mk(c[2]), f.ce()),
        'r' => format!(
            "{}{}raw{}{}{}{}{}endraw{}{}",
            f.bs(), mk(c[1]), mk(c[2]), f.be(), unhexs(&it[5..]), f.bs(), mk(c[3]), mk(c[4]), f.be()
        ),
        'R' => format!(
            "{}{} raw {}{}{}{}{} endraw {}{}",
            f.bs(), mk(c[1]), mk(c[2]), f.be(), unhexs(&it[5..]), f.bs(), mk(c[3]), mk(c[4]), f.be()
        ),
        'G' => {
            let (s, e) = match c[1] {
                'v' => (f.vs(), f.ve()),
                'b' => (f.bs(), f.be()),
                _ => (f.cs(), f.ce()),
            };
            format!("{}{}{}{}{}", s, mk(c[2]), unhexs(&it[4..]), mk(c[3]), e)
        }
        _ => panic!("bad seg {}", it),
    }
}

/// source text of a segment list (both `seg` and `prog` encodings)
fn unparse(f: &Fam, segs: &str) -> String {
    let mut out = String::new();
    if segs == "." {
        return out;
    }
    let mut nblock = 0;
    for it in segs.split(';') {
        out.push_str(&item_src(f, it, &mut nblock));
    }
    out
}

fn mk_env(tlk: &str, f: &Fam) -> Option<Environment<'static>> {
    let mut env = Environment::new();
    let b = tlk.as_bytes();
    env.set_trim_blocks(b[0] == b'1');
    env.set_lstrip_blocks(b[1] == b'1');
    env.set_keep_trailing_newline(b[2] == b'1');
    if f.name != "default" {
        env.set_syntax(f.build().ok()?);
    }
    Some(env)
}

fn render(env: &Environment, src: &str) -> String {
    let r = guarded(|| {
        env.render_str(src, context! { v => "V", t => true, f => false, seq => vec![1, 2], w => "W" })
    });
    match r {
        Ok(Ok(s)) => format!("ok:{}", hexs(&s)),
        Ok(Err(e)) => format!("err:{}", error_kind_name(&e)),
        Err(_) => "panic".into(),
    }
}

fn lex(tlk: &str, f: &Fam, src: &str) -> String {
    let syn = if f.name == "default" {
        SyntaxConfig::default()
    } else {
        match f.build() {
            Ok(s) => s,
            Err(_) => return "badcfg".into(),
        }
    };
    let r = guarded(|| {
        let mut items: Vec<String> = vec![];
        let mut data = String::new();
        let flush = |data: &mut String, items: &mut Vec<String>| {
            if !data.is_empty() {
                items.push(format!("D{}", hexs(data)));
                data.clear();
            }
        };
        for t in tokenize(src, false, syn, ws_of(tlk)) {
            match t {
                Ok((Token::TemplateData(s), _)) => data.push_str(s),
                Ok((Token::VariableStart, _)) => {
                    flush(&mut data, &mut items);
                    items.push("V".into());
                }
                Ok((Token::BlockStart, _)) => {
                    flush(&mut data, &mut items);
                    items.push("B".into());
                }
                Ok(_) => {}
                Err(_) => {
                    flush(&mut data, &mut items);
                    items.push("!err".into());
                    break;
                }
            }
        }
        flush(&mut data, &mut items);
        items.join(",")
    });
    r.unwrap_or_else(|_| "panic".into())
}

fn run_seg(tlk: &str, fam: &str, segs: &str) -> String {
    let f = Fam::dec(fam);
    let src = unparse(&f, segs);
    let tok = lex(tlk, &f, &src);
    let out = match mk_env(tlk, &f) {
        Some(env) => render(&env, &src),
        None => "badcfg".into(),
    };
    format!("seg {} {} {}\tsrc={}\ttok={}\tout={}", tlk, fam, segs, hexs(&src), tok, out)
}

fn run_prog(tlk: &str, fam: &str, segs: &str) -> String {
    let f = Fam::dec(fam);
    let src = unparse(&f, segs);
    let out = match mk_env(tlk, &f) {
        Some(env) => render(&env, &src),
        None => "badcfg".into(),
    };
    let d = default_fam();
    let base = render(&mk_env(tlk, &d).unwrap(), &unparse(&d, segs));
    let tok = lex(tlk, &f, &src);
    format!("prog {} {} {}\tsrc={}\ttok={}\tout={}\tbase={}", tlk, fam, segs, hexs(&src), tok, out, base)
}

/// lines: `;`-joined  X<hex> (text line) | S<hex indent>.<hex trail> (statement line, alternating
/// if t / endif) | M<hex indent>.<hex trail> (the same, the opening statement written `if (t<line break>  )`:
/// it continues on the next line while a bracket is open) | K<hex indent>.<hex comment text> (comment line) | Z<hex text>.<hex comment> (text
/// with a trailing line comment); nl in n|rn|r ; a final `!` item = no newline after the last line.
/// U+0001 inside a text stands for the family's variable tag `{{ v }}`, U+0003 for the raw block
/// `{% raw %}r{% endraw %}`.
fn line_sources(f: &Fam, nl: &str, lines: &str) -> (String, String) {
    let vtag = format!("{} v {}", f.vs(), f.ve());
    let rtag = format!("{} raw {}r{} endraw {}", f.bs(), f.be(), f.bs(), f.be());
    let unhexs = |h: &str| unhexs(h).replace('\u{1}', &vtag).replace('\u{3}', &rtag);
    let nl = match nl {
        "n" => "\n",
        "rn" => "\r\n",
        _ => "\r",
    };
    let mut a = String::new(); // line-prefix form
    let mut b = String::new(); // equivalent tag form (default delimiters of the same family)
    let items: Vec<&str> = lines.split(';').collect();
    let no_final_nl = items.last() == Some(&"!");
    let items: Vec<&str> = items.into_iter().filter(|x| *x != "!").collect();
    let mut nblock = 0;
    for (i, it) in items.iter().enumerate() {
        let last = i + 1 == items.len();
        let this_nl = if last && no_final_nl { "" } else { nl };
        let body = &it[1..];
        match it.as_bytes()[0] {
            b'X' => {
                let t = unhexs(body);
                a.push_str(&t);
                a.push_str(this_nl);
                b.push_str(&t);
                b.push_str(this_nl);
            }
            b'S' | b'M' => {
                let (ind, trail) = body.split_once('.').unwrap();
                // `M`: the opening statement goes on behind a line break inside brackets
                let multi = format!("if (t{}  )", nl);
                let w: &str = if nblock % 2 == 0 { if it.as_bytes()[0] == b'M' { &multi } else { "if t" } } else { "endif" };
                nblock += 1;
                a.push_str(&format!("{}{} {}{}{}", unhexs(ind), f.ls(), w, unhexs(trail), this_nl));
                // the block tag on a line of its own (blanks after a line statement belong to it)
                b.push_str(&format!("{}{} {} {}{}", unhexs(ind), f.bs(), w, f.be(), this_nl));
            }
            b'K' => {
                let (ind, c) = body.split_once('.').unwrap();
                a.push_str(&format!("{}{}{}{}", unhexs(ind), f.lc(), unhexs(c), this_nl));
                b.push_str(&format!("{}{}{} {}{}", unhexs(ind), f.cs(), unhexs(c), f.ce(), this_nl));
            }
            b'Z' => {
                let (t, c) = body.split_once('.').unwrap();
                a.push_str(&format!("{}{}{}{}", unhexs(t), f.lc(), unhexs(c), this_nl));
                b.push_str(&format!("{}{}{} {}{}", unhexs(t), f.cs(), unhexs(c), f.ce(), this_nl));
            }
            _ => panic!("bad line item"),
        }
    }
    (a, b)
}

fn run_line(tlk: &str, fam: &str, nl: &str, lines: &str) -> String {
    let f = Fam::dec(fam);
    let (a, b) = line_sources(&f, nl, lines);
    let env = match mk_env(tlk, &f) {
        Some(e) => e,
        None => return format!("line {} {} {} {}\tsrc=\tout=badcfg\teq=badcfg", tlk, fam, nl, lines),
    };
    let out = render(&env, &a);
    // the tag form is rendered with trim_blocks and lstrip_blocks on: each tag occupies its line
    let tlk_eq = format!("11{}", &tlk[2..3]);
    let eq = match mk_env(&tlk_eq, &f) {
        Some(e) => render(&e, &b),
        None => "badcfg".into(),
    };
    let tok = lex(tlk, &f, &a);
    format!("line {} {} {} {}\tsrc={}\ttok={}\tout={}\teq={}", tlk, fam, nl, lines, hexs(&a), tok, out, eq)
}

fn run_cfg(fam: &str) -> String {
    let f = Fam::dec(fam);
    let r = guarded(|| f.build_uncached());
    match r {
        Ok(Ok(syn)) => {
            // a configuration that is accepted must lex a probe without panicking or hanging, and
            // render it either as written or not at all (syntax error)
            let probe = format!("a {} v {} b {} if t {}c{} endif {}{} x {} d", f.vs(), f.ve(), f.bs(), f.be(), f.bs(), f.be(), f.cs(), f.ce());
            let p = guarded(|| tokenize(&probe, false, syn, WhitespaceConfig::default()).take_while(|t| t.is_ok()).take(10_000).count());
            let rendered = match mk_env("001", &f) {
                Some(env) => render(&env, &probe),
                None => "badcfg".into(),
            };
            format!("cfg {}\tbuild=ok\tprobe={}\trender={}", fam, match p { Ok(n) if n < 10_000 => "ok", Ok(_) => "runaway", Err(_) => "panic" }, rendered)
        }
        Ok(Err(e)) => format!("cfg {}\tbuild=err:{}", fam, error_kind_name(&e)),
        Err(_) => format!("cfg {}\tbuild=panic", fam),
    }
}

// ---------------------------------------------------------------------------------------------
// delimiter-freeness (generator side; lib/props/c10.py re-checks with its own implementation)

fn at_line_start(src: &str, p: usize) -> bool {
    for c in src[..p].chars().rev() {
        if c == '\n' || c == '\r' {
            return true;
        }
        if c != ' ' && c != '\t' {
            return false;
        }
    }
    true
}

/// an unmarked closing side is not read as a marked one: the end delimiter `--` followed by the text
/// `-x` is read as `-` + `--` (by the lexer as by Jinja2)
fn close_ok(e: &str, r: char, following: &str) -> bool {
    if r != '_' || !(e.starts_with('-') || e.starts_with('+')) {
        return true;
    }
    let all = format!("{}{}", e, following);
    !all[1..].starts_with(e)
}

/// no start delimiter of `f` begins inside a text region, and at every tag start the longest
/// matching start delimiter is the tag's own
fn is_free(f: &Fam, segs: &str) -> bool {
    if segs == "." {
        return true;
    }
    let mut src = String::new();
    // (region start, region end) text regions and (pos, own delimiter) tag starts
    let mut regions: Vec<(usize, usize)> = vec![];
    let mut tags: Vec<(usize, String)> = vec![];
    let mut closes: Vec<(usize, String, char)> = vec![];
    let mut region_start = 0;
    let mut nblock = 0;
    for it in segs.split(';') {
        let c: Vec<char> = it.chars().collect();
        if c[0] == 'T' {
            src.push_str(&unhexs(&it[1..]));
            continue;
        }
        regions.push((region_start, src.len()));
        let own = match c[0] {
            'V' | 'v' => f.vs(),
            'B' | 'R' | 'b' | 'r' => f.bs(),
            'C' | 'K' => f.cs(),
            'G' => match c[1] {
                'v' => f.vs(),
                'b' => f.bs(),
                _ => f.cs(),
            },
            _ => panic!(),
        };
        tags.push((src.len(), own.to_string()));
        src.push_str(&item_src(f, it, &mut nblock));
        if c[0] == 'K' || (c[0] == 'G' && c[1] == 'c') {
            // the comment must read back as written
            let (lm, rm, body) = if c[0] == 'K' { (c[1], c[2], unhexs(&it[3..])) } else { (c[2], c[3], unhexs(&it[4..])) };
            let br = format!("{}{}", body, mk(rm));
            let probe = format!("{}{}", br, f.ce());
            if probe.find(f.ce()) != Some(br.len()) {
                return false;
            }
            let is_mark = |x: Option<char>| matches!(x, Some('-') | Some('+'));
            if lm == '_' && is_mark(probe.chars().next()) {
                return false;
            }
            // the byte in front of the end delimiter is the closing marker (an empty body has none)
            if rm == '_' && is_mark(body.chars().last()) {
                return false;
            }
        }
        if c[0] == 'G' && c[1] != 'c' && c[3] == '_' {
            // the last token of the interior ends where the end delimiter begins
            let e = if c[1] == 'v' { f.ve() } else { f.be() };
            let interior = unhexs(&it[4..]);
            if let (Some(a), Some(b)) = (interior.chars().last(), e.chars().next()) {
                let idc = |x: char| x.is_alphanumeric() || x == '_' || !x.is_ascii();
                let two = matches!((a, b), ('/', '/') | ('*', '*') | ('=', '=') | ('!', '=') | ('>', '=') | ('<', '='));
                if (idc(a) && idc(b)) || (a.is_ascii_digit() && b == '.') || two {
                    return false;
                }
            }
        }
        if c[0] == 'G' {
            // an unmarked opening side must not be followed by `-`/`+` (of the interior, the closing
            // marker or an end delimiter such as `-->`)
            let e = match c[1] {
                'v' => f.ve(),
                'b' => f.be(),
                _ => f.ce(),
            };
            let all = format!("{}{}{}", unhexs(&it[4..]), mk(c[3]), e);
            if c[2] == '_' && matches!(all.chars().next(), Some('-') | Some('+')) {
                return false;
            }
        }
        if c[0] == 'R' || c[0] == 'r' {
            let content = unhexs(&it[5..]);
            let probe = format!("{}{}", content, f.bs());
            if probe.find(f.bs()) != Some(content.len()) || content.contains("endraw") {
                return false;
            }
            // the unmarked closing side of `raw` is not read as a marked one
            let p = if c[0] == 'r' { "" } else { " " };
            let inner = format!("{}{}{}{}endraw{}{}{}", content, f.bs(), mk(c[3]), p, p, mk(c[4]), f.be());
            if !close_ok(f.be(), c[2], &inner) {
                return false;
            }
        }
        // the unmarked closing side of a variable / block / raw tag is not read as a marked one; this
        // depends on the text behind the tag and is looked at when the source is complete
        match c[0] {
            'V' | 'v' => closes.push((src.len(), f.ve().to_string(), c[2])),
            'B' | 'b' => closes.push((src.len(), f.be().to_string(), c[2])),
            'R' | 'r' => closes.push((src.len(), f.be().to_string(), c[4])),
            'G' if c[1] == 'v' => closes.push((src.len(), f.ve().to_string(), c[3])),
            'G' if c[1] == 'b' => closes.push((src.len(), f.be().to_string(), c[3])),
            _ => {}
        }
        region_start = src.len();
    }
    regions.push((region_start, src.len()));
    for (end, e, r) in &closes {
        if !close_ok(e, *r, &src[*end..]) {
            return false;
        }
    }
    let starts = f.starts();
    for (a, b) in regions {
        for p in a..b {
            if !src.is_char_boundary(p) {
                continue;
            }
            for (pat, is_ls) in &starts {
                if src[p..].starts_with(pat) && (!*is_ls || at_line_start(&src, p)) {
                    return false;
                }
            }
        }
    }
    for (p, own) in tags {
        let mut best = "";
        for (pat, is_ls) in &starts {
            if src[p..].starts_with(pat) && (!*is_ls || at_line_start(&src, p)) && pat.len() > best.len() {
                best = pat;
            }
        }
        if best != own {
            return false;
        }
    }
    true
}

// ---------------------------------------------------------------------------------------------
// generation

const MARKS: [char; 3] = ['_', '-', '+'];
const TLK: [&str; 8] = ["000", "001", "010", "011", "100", "101", "110", "111"];

fn text_core() -> Vec<&'static str> {
    vec![" ", "\t", "\n", "\r\n", "\r", " \n ", "x", "{", "}", "{ {", "%}", "a\n  "]
}

fn text_extra() -> Vec<&'static str> {
    vec![
        "  \n", "\n\n", "x\r  ", "\r\n\t", "x ", " x", "#", "-", "+", "<%", "{{ x }}", "{%", "\u{b}", "\u{a0}", "\n \n",
        "\r\r", "\n\r", "<", "<<", "%>", "\\VAR{", "\u{c}\n", " \u{2028} ", "x\n", "\n# y", "{# z #}", "{% y %}", "[", "((",
        "é\n ", "  ", "\t \t",
        // a lone first character of a start delimiter inside a text (the search goes on behind it)
        "{x", "a{b", "{ }",
    ]
}

fn tag_items() -> Vec<String> {
    let mut v = vec![];
    for k in ['V', 'B', 'C'] {
        for l in MARKS {
            for r in MARKS {
                v.push(format!("{}{}{}", k, l, r));
            }
        }
    }
    v
}

fn raw_items(full: bool) -> Vec<String> {
    let mut v = vec![];
    // outer markers with a fixed interior
    for l in MARKS {
        for r2 in MARKS {
            v.push(format!("R{}__{}{}", l, r2, hexs(" x ")));
        }
    }
    // inner markers with contents from the alphabet
    let contents: Vec<&str> = if full {
        vec!["", " ", "\t", "\n", "\r\n", "\r", " \n ", "x", "{", "}", "{{ v }}", "a\n  ", "\n  x  \n", "{% if t %}", "x\r  ", "  \n"]
    } else {
        vec!["", " ", "\n", "\r\n", "\r", " \n ", "a\n  ", "{{ v }}"]
    };
    for r in MARKS {
        for l2 in MARKS {
            for c in &contents {
                v.push(format!("R_{}{}_{}", r, l2, hexs(c)));
            }
        }
    }
    v
}

/// outer markers x one content, inner markers x one content
fn raw_items_tiny() -> Vec<String> {
    let mut v = vec![];
    for l in MARKS {
        for r2 in MARKS {
            v.push(format!("R{}__{}{}", l, r2, hexs(" x ")));
        }
    }
    for r in MARKS {
        for l2 in MARKS {
            v.push(format!("R_{}{}_{}", r, l2, hexs(" \n  ")));
        }
    }
    v
}

/// degenerate tag interiors: comments with an empty / blank / marker-like body, tight variable and
/// block tags, raw blocks with empty content and a marker on every side (tight and padded)
fn degenerate_items(all_raw: bool) -> Vec<String> {
    let mut v = vec![];
    for body in ["", " ", "-", "+", " - ", "--", " -", "- ", "c", "\n", " + ", "-+"] {
        for l in MARKS {
            for r in MARKS {
                v.push(format!("K{}{}{}", l, r, hexs(body)));
            }
        }
    }
    for k in ['v', 'b'] {
        for l in MARKS {
            for r in MARKS {
                v.push(format!("{}{}{}", k, l, r));
            }
        }
    }
    for l in MARKS {
        for ri in MARKS {
            for l2 in MARKS {
                for r2 in MARKS {
                    if all_raw || (l == ri && l2 == r2) {
                        v.push(format!("r{}{}{}{}", l, ri, l2, r2));
                        v.push(format!("R{}{}{}{}", l, ri, l2, r2));
                    }
                }
            }
        }
    }
    v
}

/// tag interiors beyond the fixed vocabulary: strings containing end delimiters, brackets, numbers in
/// every notation, operators next to the end delimiter, lexer errors
const VAR_INTERIORS: [&str; 62] = [
    "1", " 1 ", " 1 -", " x - ", " -1 ", "-1", "+1", " 'a' ", " '}}' ", " \"%}\" ", " '%>' ", " {'a': '}}'} ", " {'a': 1}.a ",
    " [1, 2][0] ", " (1 + 2) * 3 ", " 7 // 2 ", " 2 ** 3 ", " 1 == 1 ", " 1 != 2 ", " 1 <= 2 ", " 2 >= 1 ", " x|default('d') ",
    " 1e5 ", " 1.5 ", " 1_000 ", " 0x1F ", " 0b101 ", " 0o17 ", " 0b12 ", " 1e ", " 1e+ ", " 1_ ", " 1.foo ", " 1.e5 ", " 1. ",
    " 1.5e-3 ", " 0x ", " 0X_f ", " 999999999999999999999999999999999999999 ", " 340282366920938463463374607431768211456 ",
    " 'a\\'b' ", " \"a\\\"b\" ", " 'unterminated ", " x ! ", " a.b ", " v ~ '}}' ~ v ", " {{ ", " }} x", " } ", " ) ", "(",
    " '\\n' ", " v if t else w ", " [ '}}' , \"%}\" ] ", " 1 - ", " x -", " x +", " (1 -) ", " v|f(a=1) ", " 1 > 2 ", " a = b ", " x\n",
];

const BLOCK_INTERIORS: [&str; 8] = [
    " if t and (1 < 2) ", " set x = '%}' ", " if (t) ", " if t -", " rawx ", " raw", " if '%}' ", "if t",
];

/// string literals with every kind of escape `utils::unescape` knows, valid and invalid, in both quotes
fn escape_bodies() -> Vec<String> {
    let bodies = [
        // valid
        "\\u0041", "\\u00e9x", "\\ud83d\\ude00", "\\uD83D\\uDE00!", "\\u+041", "\\uffff", "\\x41", "\\x+f", "\\xFf", "\\101", "\\7", "\\377",
        "\\08", "\\1234", "\\0", "a\\tb\\\\n", "\\q", "\\u007d}", "\\\\u12", "\\u0041\\x41\\101\\n", "\\18", "\\é", "é\\u00e9",
        // invalid
        "\\ud83d", "\\ud83dx", "\\ud83d\\u0041", "\\ud83d\\n", "\\ud83d\\x41", "\\ude00", "\\ude00\\ude00", "\\ud83d\\ud83d", "\\ude00\\ud83d",
        "\\u12", "\\u12g4", "\\u-123", "\\u 123", "\\u++12", "\\u12+4", "\\u", "\\x4", "\\xg1", "\\x++", "\\x4+", "\\x", "\\400", "\\777",
        "\\u12\\\"34", "\\x\\\"4", "\\u00é9", "\\xé",
    ];
    let mut v = vec![];
    for b in bodies {
        v.push(format!("\"{}\"", b));
        v.push(format!("'{}'", b.replace("\\\"", "\\'")));
    }
    // unterminated
    v.push("\"\\u0041".into());
    v.push("'a\\".into());
    v
}

/// strings that contain the family's own delimiters (and escapes next to them)
fn lookalike_interiors(f: &Fam) -> Vec<(char, String)> {
    let mut v = vec![];
    for k in 0..6 {
        let dl = &f.d[k];
        if dl.contains('"') || dl.contains('\\') {
            continue;
        }
        v.push(('v', format!(" \"{}\" ", dl)));
        v.push(('v', format!("\"{}\"", dl)));
        v.push(('v', format!(" '{}' ~ \"\\u0041{}\" ", dl, dl)));
        v.push(('b', format!(" if v == \"{}\" ", dl)));
        v.push(('b', format!(" set x = '{}\\x41' ", dl)));
        v.push(('c', format!(" \"{}\" ", dl)));
    }
    v
}

fn interior_items() -> Vec<String> {
    let mut v = vec![];
    for body in escape_bodies() {
        for (l, r) in [('_', '_'), ('-', '-')] {
            v.push(format!("Gv{}{}{}", l, r, hexs(&format!(" {} ", body))));
        }
        v.push(format!("Gv__{}", hexs(&body)));
        v.push(format!("Gb__{}", hexs(&format!(" if {} ", body))));
    }
    for (k, list) in [('v', &VAR_INTERIORS[..]), ('b', &BLOCK_INTERIORS[..])] {
        for body in list {
            for (l, r) in [('_', '_'), ('-', '_'), ('_', '-'), ('-', '-'), ('+', '+')] {
                v.push(format!("G{}{}{}{}", k, l, r, hexs(body)));
            }
        }
    }
    v
}

fn t_item(s: &str) -> String {
    format!("T{}", hexs(s))
}

fn emit(out: &mut impl Write, line: String) {
    writeln!(out, "{}", line).unwrap();
}

fn gen_seg(out: &mut impl Write, tier: &str, rng: &mut Rng, part: &str, chunk: usize, nchunks: usize) {
    let thorough = tier == "thorough";
    let fams = families();
    let d = &fams[0];
    let denc = d.enc();
    let texts: Vec<String> = text_core().iter().map(|s| t_item(s)).collect();
    let extra: Vec<String> = text_extra().iter().map(|s| t_item(s)).collect();
    let tags = tag_items();
    let raws_small = raw_items(false);
    let raws_full = raw_items(true);
    let mut items: Vec<String> = vec![];
    items.extend(texts.iter().cloned());
    items.extend(tags.iter().cloned());
    items.extend(raws_small.iter().cloned());
    let is_text = |s: &String| s.starts_with('T');

    // (1) exhaustive: every sequence of length <= 2 (no adjacent texts), every T-G-T triple,
    //     default delimiters, 8 settings
    let mut seqs: Vec<String> = vec![".".into()];
    for a in items.iter().chain(raws_full.iter()).chain(extra.iter()) {
        seqs.push(a.clone());
    }
    let raws_tiny = raw_items_tiny();
    let items2: Vec<String> = texts.iter().chain(tags.iter()).chain(raws_tiny.iter()).cloned().collect();
    for a in &items2 {
        for b in &items2 {
            if is_text(a) && is_text(b) {
                continue;
            }
            seqs.push(format!("{};{}", a, b));
        }
    }
    let mid: Vec<&String> = tags.iter().chain(raws_small.iter()).collect();
    for a in &texts {
        for g in &mid {
            for b in &texts {
                seqs.push(format!("{};{};{}", a, g, b));
            }
        }
    }
    // every tag-text-tag triple (both cuts meet on one text); thorough covers it in the full box
    if !thorough {
        let gs: Vec<&String> = tags.iter().chain(raws_tiny.iter()).collect();
        for a in &gs {
            for t in &texts {
                for b in &gs {
                    seqs.push(format!("{};{};{}", a, t, b));
                }
            }
        }
    }
    // degenerate tag interiors in every text context (also next to another tag)
    let degen = degenerate_items(true);
    {
        let ctx: Vec<String> = ["", " ", "\n", " \n ", "x", "\r\n"].iter().map(|s| t_item(s)).collect();
        for g in &degen {
            for a in &ctx {
                for b in &ctx {
                    seqs.push(format!("{};{};{}", a, g, b));
                }
            }
            for g2 in ["V__", "B__", "C__", "V-_", "B_-", "K-_", "K+_", "K__"] {
                seqs.push(format!("{};{}", g, g2));
                seqs.push(format!("{};{}", g2, g));
                seqs.push(format!("T20;{};T0a;{};T20", g, g2));
            }
        }
    }
    // non-ASCII whitespace (and NEL, which is whitespace but no line break) in front of every tag
    {
        let gs: Vec<&String> = tags.iter().chain(raws_tiny.iter()).collect();
        for t in ["\u{a0}", "\n\u{a0}", "\n \u{3000}\t", "\u{85}", "\n\u{2003}", "x\u{a0}", "\r\u{202f} "] {
            for g in &gs {
                seqs.push(format!("{};{}", t_item(t), g));
                seqs.push(format!("{};{};T78", t_item(t), g));
                seqs.push(format!("{};{};{}", g, t_item(t), g));
            }
        }
    }
    // a byte order mark is text
    for s in [
        format!("T{}", hexs("\u{feff}")),
        format!("T{};B__;T0a", hexs("\u{feff}")),
        format!("T{};C__;T{}", hexs("\u{feff} "), hexs("\u{feff}")),
        format!("T{};B__;T78", hexs("\n\u{feff} ")),
    ] {
        seqs.push(s);
    }
    // richer tag interiors in a few text contexts
    let interiors = interior_items();
    for g in &interiors {
        for a in ["", " ", "\n"] {
            for b in ["", " ", "\n"] {
                seqs.push(format!("{};{};{}", t_item(a), g, t_item(b)));
            }
        }
    }
    for (k, body) in lookalike_interiors(d) {
        for (l, r) in [('_', '_'), ('-', '_'), ('_', '-'), ('+', '+')] {
            for a in ["", " ", "\n"] {
                seqs.push(format!("{};G{}{}{}{};T0a", t_item(a), k, l, r, hexs(&body)));
            }
        }
    }
    // raw: inner text alphabet x inner markers already in raws_full; outer texts x outer markers
    for a in &texts {
        for g in &raws_full {
            seqs.push(format!("{};{}", a, g));
            seqs.push(format!("{};{}", g, a));
        }
    }
    if thorough {
        // every length-3 sequence over texts + tags + the small raw set, no adjacent texts
        for a in &items2 {
            for b in &items2 {
                if is_text(a) && is_text(b) {
                    continue;
                }
                for c in &items2 {
                    if is_text(b) && is_text(c) {
                        continue;
                    }
                    if is_text(a) && !is_text(b) && is_text(c) {
                        continue; // done above
                    }
                    seqs.push(format!("{};{};{}", a, b, c));
                }
            }
        }
    }
    if part == "all" || part == "seg" || part == "seg-exh" {
        for (i, s) in seqs.iter().enumerate() {
            if i % nchunks != chunk {
                continue;
            }
            for tlk in TLK {
                emit(out, run_seg(tlk, &denc, s));
            }
        }
    }

    // (2) sampled: longer sequences over the full alphabets (extra texts, full raw set)
    let mut pool: Vec<String> = items.clone();
    pool.extend(extra.iter().cloned());
    pool.extend(raws_full.iter().cloned());
    let n_sample = if !(part == "all" || part == "seg" || part == "seg-sample") { 0 } else if thorough { 300_000 } else { 60_000 };
    let maxlen = 4;
    for _ in 0..n_sample {
        let len = 3 + rng.below((maxlen - 2) as u64) as usize; // 3..=4
        let mut parts: Vec<String> = vec![];
        for _ in 0..len {
            // bias: half text, half tag
            let it = if rng.chance(1, 2) {
                if rng.chance(2, 3) { rng.pick(&texts).clone() } else { rng.pick(&extra).clone() }
            } else if rng.chance(1, 5) {
                rng.pick(&raws_full).clone()
            } else if rng.chance(1, 4) {
                rng.pick(&degen).clone()
            } else {
                rng.pick(&tags).clone()
            };
            parts.push(it);
        }
        let tlk = *rng.pick(&TLK);
        emit(out, run_seg(tlk, &denc, &parts.join(";")));
    }
    let _ = pool;

    // (3) the same vocabulary under every custom family: look-alike texts of the default syntax
    //     and of the other families are part of the alphabet
    let fam_texts: Vec<String> = [
        " ", "\n", "\r\n", "x", "a\n  ", "{{ x }}", "{% y %}", "{# z #}", "{", "}", "<", "<<", "%>", "\\VAR", "(", "#", "x # y",
    ]
    .iter()
    .map(|s| t_item(s))
    .collect();
    if !(part == "all" || part == "seg" || part == "seg-fam") {
        return;
    }
    for f in fams.iter().skip(1) {
        let fenc = f.enc();
        let mut fseqs: Vec<String> = vec![];
        let fitems: Vec<String> = fam_texts.iter().cloned().chain(tags.iter().cloned()).chain(raws_tiny.iter().cloned()).collect();
        for a in &fitems {
            fseqs.push(a.clone());
            for b in &fitems {
                if is_text(a) && is_text(b) {
                    continue;
                }
                fseqs.push(format!("{};{}", a, b));
            }
        }
        let fdegen = degenerate_items(false);
        for g in &fdegen {
            for a in ["", " ", "\n"] {
                for b in ["", " ", "\n", "x"] {
                    fseqs.push(format!("{};{};{}", t_item(a), g, t_item(b)));
                }
            }
        }
        for g in &fdegen {
            for g2 in ["V__", "B__", "C__", "K-_", "K+_", "K__"] {
                fseqs.push(format!("{};{}", g, g2));
                fseqs.push(format!("{};{}", g2, g));
            }
        }
        for g in &interiors {
            fseqs.push(format!("T20;{};T0a", g));
        }
        for (k, body) in lookalike_interiors(f) {
            for (l, r) in [('_', '_'), ('-', '_'), ('_', '-'), ('+', '+')] {
                fseqs.push(format!("T20;G{}{}{}{};T0a", k, l, r, hexs(&body)));
                fseqs.push(format!("G{}{}{}{};T78", k, l, r, hexs(&body)));
            }
        }
        // texts, comment bodies and raw contents built from the delimiters' own first / last
        // characters and from delimiters that lack one character
        {
            let mut own: Vec<String> = vec![];
            for k in 0..8 {
                let dl: Vec<char> = f.d[k].chars().collect();
                if dl.is_empty() {
                    continue;
                }
                for n in 1..=3 {
                    own.push(std::iter::repeat(dl[0]).take(n).collect());
                    own.push(std::iter::repeat(dl[dl.len() - 1]).take(n).collect());
                }
                if dl.len() > 1 {
                    own.push(dl[..dl.len() - 1].iter().collect());
                    own.push(dl[1..].iter().collect());
                }
            }
            own.sort();
            own.dedup();
            let gs: Vec<&String> = tags.iter().chain(raws_tiny.iter()).collect();
            for o in &own {
                for g in &gs {
                    fseqs.push(format!("{};{}", t_item(o), g));
                    fseqs.push(format!("{};{}", g, t_item(o)));
                }
                for (l, r) in [('_', '_'), ('-', '_'), ('_', '-'), ('-', '-'), ('+', '+'), ('_', '+')] {
                    fseqs.push(format!("T78;K{}{}{};T20", l, r, hexs(o)));
                    fseqs.push(format!("T78;K{}{}{};T20;C__;T79", l, r, hexs(&format!(" {} ", o))));
                    fseqs.push(format!("R_{}{}_{};T78", l, r, hexs(o)));
                    fseqs.push(format!("r_{}{}_{}", l, r, hexs(&format!("x{}", o))));
                }
            }
        }
        for s in &fseqs {
            // two settings exhaustively, the others sampled
            for tlk in ["000", "110"] {
                emit(out, run_seg(tlk, &fenc, s));
            }
            if thorough || rng.chance(1, 4) {
                let tlk = *rng.pick(&TLK);
                emit(out, run_seg(tlk, &fenc, s));
            }
        }
        let n = if thorough { 20_000 } else { 1_500 };
        for _ in 0..n {
            let len = 3 + rng.below(2) as usize;
            let mut parts: Vec<String> = vec![];
            for _ in 0..len {
                let it = if rng.chance(1, 2) {
                    rng.pick(&fam_texts).clone()
                } else if rng.chance(1, 6) {
                    rng.pick(&raws_small).clone()
                } else if rng.chance(1, 4) {
                    rng.pick(&fdegen).clone()
                } else {
                    rng.pick(&tags).clone()
                };
                parts.push(it);
            }
            let tlk = *rng.pick(&TLK);
            emit(out, run_seg(tlk, &fenc, &parts.join(";")));
        }
    }
}

// -- programs ---------------------------------------------------------------------------------

const PROG_TEXTS: [&str; 40] = [
    "a", " ", "\n", "  ", "x y", "<", ">", "%", "{", "}", "#", "\\", "<<", "%>", "{{ x }}", "{% y %}", "{# z #}", "<% q %>",
    "\\VAR{z}", "# not", "\n# if", "##", "[", "]", "-", "+", "=", "\r\n", "\t", "é", "€", "\n  ", "b\n", "(", "((%", "<%= v %>",
    "<<< v >>>", "{ v }", "[= v %]", "%%",
];

const EXPRS: [&str; 14] = [
    " v ", " w ", " i ", " x|default('d') ", " \"s\"|upper ", " [1, 2]|length ", " {'a': 1}.a ", " (1 + 2) * 3 ", " v ~ \"}}\" ",
    " \"%>\" ", " '%}' ~ w ", " seq[0] ", " 7 % 4 ", " i if i else 'n' ",
];

fn g(kind: char, l: char, r: char, interior: &str) -> String {
    format!("G{}{}{}{}", kind, l, r, hexs(interior))
}

fn pk<'a>(rng: &mut Rng, xs: &[&'a str]) -> &'a str {
    xs[rng.below(xs.len() as u64) as usize]
}

fn rand_mark(rng: &mut Rng) -> char {
    match rng.below(6) {
        0 => '-',
        1 => '+',
        _ => '_',
    }
}

fn gen_text(rng: &mut Rng, parts: &mut Vec<String>) {
    let n = 1 + rng.below(3);
    let mut s = String::new();
    for _ in 0..n {
        s.push_str(pk(rng, &PROG_TEXTS));
    }
    parts.push(t_item(&s));
}

fn gen_body(rng: &mut Rng, depth: u32, parts: &mut Vec<String>) {
    let n = 1 + rng.below(4);
    for _ in 0..n {
        match rng.below(if depth >= 2 { 5 } else { 10 }) {
            0 | 1 => gen_text(rng, parts),
            2 => parts.push(g('v', rand_mark(rng), rand_mark(rng), pk(rng, &EXPRS))),
            3 => parts.push(g('c', rand_mark(rng), rand_mark(rng), pk(rng, &[" note ", " {{ no }} ", "", " a\nb "]))),
            4 => {
                let c = pk(rng, &[" lit {{ v }} ", "\n  raw\n", "{% if %}", "", " <% x %> "]);
                parts.push(format!("R{}{}{}{}{}", rand_mark(rng), rand_mark(rng), rand_mark(rng), rand_mark(rng), hexs(c)));
            }
            5 => {
                let cond = pk(rng, &[" if t ", " if f ", " if v == \"V\" ", " if seq|length > 5 "]);
                parts.push(g('b', rand_mark(rng), rand_mark(rng), cond));
                gen_body(rng, depth + 1, parts);
                if rng.chance(1, 2) {
                    parts.push(g('b', rand_mark(rng), rand_mark(rng), " else "));
                    gen_body(rng, depth + 1, parts);
                }
                parts.push(g('b', rand_mark(rng), rand_mark(rng), " endif "));
            }
            6 => {
                let head = pk(rng, &[" for i in seq ", " for i in [1, 2, 3] ", " for i in \"ab\" ", " for i in [] "]);
                parts.push(g('b', rand_mark(rng), rand_mark(rng), head));
                gen_body(rng, depth + 1, parts);
                parts.push(g('b', rand_mark(rng), rand_mark(rng), " endfor "));
            }
            7 => parts.push(g('b', rand_mark(rng), rand_mark(rng), pk(rng, &[" set x = 'q' ", " set x = {'k': [1]} ", " set i = 5 "]))),
            8 => {
                parts.push(g('b', rand_mark(rng), rand_mark(rng), " filter upper "));
                gen_body(rng, depth + 1, parts);
                parts.push(g('b', rand_mark(rng), rand_mark(rng), " endfilter "));
            }
            _ => {
                parts.push(g('b', rand_mark(rng), rand_mark(rng), " with i = 9 "));
                gen_body(rng, depth + 1, parts);
                parts.push(g('b', rand_mark(rng), rand_mark(rng), " endwith "));
            }
        }
    }
}

/// degenerate tags as programs, every family against the default syntax: comments with an empty /
/// blank / marker-like body, tight and padded variable tags, `if` blocks and raw blocks with every
/// marker placement — every sequence of <= 2 segments (tag, text-tag, tag-text, tag-tag) plus the
/// tag between two texts
fn gen_prog_degen(out: &mut impl Write, tier: &str, rng: &mut Rng) {
    let fams = families();
    let d = default_fam();
    let mut gs: Vec<String> = vec![];
    for l in MARKS {
        for r in MARKS {
            for body in ["", " ", "c", " - ", "-"] {
                gs.push(g('c', l, r, body));
            }
            for body in [" v ", "v"] {
                gs.push(g('v', l, r, body));
            }
            for (a, b) in [(" if t ", " endif "), ("if t", "endif")] {
                gs.push(format!("{};{}", g('b', l, r, a), g('b', r, l, b)));
                gs.push(format!("{};T78;{}", g('b', l, r, a), g('b', l, r, b)));
            }
            for l2 in MARKS {
                for r2 in MARKS {
                    gs.push(format!("R{}{}{}{}", l, r, l2, r2));
                    if l == r && l2 == r2 {
                        gs.push(format!("r{}{}{}{}", l, r, l2, r2));
                        gs.push(format!("R{}{}{}{}{}", l, r, l2, r2, hexs(" x\n ")));
                    }
                }
            }
        }
    }
    let texts = [" ", "\n", "x", " \n "];
    let mut seqs: Vec<String> = vec![];
    for gi in &gs {
        seqs.push(gi.clone());
        for t in texts {
            seqs.push(format!("{};{}", t_item(t), gi));
            seqs.push(format!("{};{}", gi, t_item(t)));
        }
        seqs.push(format!("T78;{};{}", gi, t_item("\n](")));
        for g2 in [g('c', '_', '_', ""), g('c', '-', '_', ""), g('v', '_', '_', " v ")] {
            seqs.push(format!("{};{}", gi, g2));
            seqs.push(format!("{};{}", g2, gi));
        }
    }
    for s in &seqs {
        if !is_free(&d, s) {
            continue;
        }
        for f in fams.iter().skip(1) {
            if !is_free(f, s) {
                continue;
            }
            let fenc = f.enc();
            if tier == "thorough" {
                for tlk in ["110", "000", "101", "011"] {
                    emit(out, run_prog(tlk, &fenc, s));
                }
            } else {
                // trim_blocks + lstrip_blocks on, or a random setting
                emit(out, run_prog(if rng.chance(1, 2) { "110" } else { *rng.pick(&TLK) }, &fenc, s));
            }
        }
    }
}

fn gen_prog(out: &mut impl Write, tier: &str, rng: &mut Rng) {
    gen_prog_degen(out, tier, rng);
    let fams = families();
    let n = if tier == "thorough" { 10_000 } else { 700 };
    let d = default_fam();
    let mut made = 0;
    let mut guard = 0;
    while made < n && guard < n * 50 {
        guard += 1;
        let mut parts = vec![];
        gen_body(rng, 0, &mut parts);
        let segs = parts.join(";");
        if !is_free(&d, &segs) {
            continue;
        }
        made += 1;
        let tlk = *rng.pick(&TLK);
        for f in fams.iter().skip(1) {
            if !is_free(f, &segs) {
                emit(out, format!("progskip {} {}", f.name, made));
                continue;
            }
            emit(out, run_prog(tlk, &f.enc(), &segs));
        }
    }
}

// -- line statements --------------------------------------------------------------------------

/// every family with line prefixes: the families that have them, and every other family with
/// `#` / `##` (line comment prefix extends the statement prefix), with `@@` / `@` (the other way
/// round) and with a statement prefix only / a comment prefix only (pattern ids 3 and 4 of the automaton)
fn line_families() -> Vec<Fam> {
    let mut v = vec![];
    for f in families() {
        if !f.ls().is_empty() {
            v.push(f);
            continue;
        }
        // the texts of the line stream are made of letters: not free under delimiters made of letters
        if f.starts().iter().any(|(p, _)| p.chars().next().map_or(false, |c| c.is_alphanumeric())) {
            continue;
        }
        for (tag, ls, lc) in [("h", "#", "##"), ("a", "@@", "@"), ("s", "%%", ""), ("c", "", "//")] {
            let mut g = f.clone();
            g.name = format!("{}+{}", f.name, tag);
            g.d[6] = ls.to_string();
            g.d[7] = lc.to_string();
            if g.build_uncached().is_ok() {
                v.push(g);
            }
        }
    }
    v
}

fn gen_line(out: &mut impl Write, tier: &str, rng: &mut Rng) {
    let fams: Vec<Fam> = line_families();
    let n = if tier == "thorough" { 80_000 } else { 8_000 };
    let indents = ["", " ", "  ", "\t", " \t "];
    let trails = ["", " ", "  ", "\t", "\u{a0}", " \u{3000} "];
    let texts = ["", "a", "  b", "c  ", " ", "x # y", "\u{1}", "z\u{1} ", "q%", "<p>", "\u{3}b", "a\u{3}"];
    let comments = ["", " note", " {{ x", " # if t", "x"];
    for _ in 0..n {
        let f = rng.pick(&fams).clone();
        let nlines = 1 + rng.below(5);
        let mut items: Vec<String> = vec![];
        for _ in 0..nlines {
            // only the kinds of lines the family has a prefix for
            let mut kind = rng.below(8);
            if f.ls().is_empty() && (3..=5).contains(&kind) {
                kind = if rng.chance(1, 2) { 6 } else { 7 };
            }
            if f.lc().is_empty() && kind >= 6 {
                kind = 3;
            }
            match kind {
                0 | 1 | 2 => items.push(format!("X{}", hexs(pk(rng, &texts)))),
                3 | 4 | 5 => items.push(format!("{}{}.{}", if rng.chance(1, 5) { "M" } else { "S" }, hexs(pk(rng, &indents)), hexs(pk(rng, &trails)))),
                6 => items.push(format!("K{}.{}", hexs(pk(rng, &["", " ", "  ", "\t", " \t ", "\u{a0}", " \u{3000}"])), hexs(pk(rng, &comments)))),
                _ => items.push(format!("Z{}.{}", hexs(pk(rng, &["a", "b ", "\u{1}  ", "\u{1}"])), hexs(pk(rng, &comments)))),
            }
        }
        // close an open `if`
        let ns = items.iter().filter(|x| x.starts_with('S') || x.starts_with('M')).count();
        if ns % 2 == 1 {
            items.push(format!("S{}.{}", hexs(pk(rng, &indents)), hexs(pk(rng, &trails))));
            if rng.chance(1, 2) {
                items.push(format!("X{}", hexs(pk(rng, &texts))));
            }
        }
        if rng.chance(1, 3) {
            items.push("!".into());
        }
        let nl = pk(rng, &["n", "n", "rn", "r"]);
        let tlk = *rng.pick(&TLK);
        emit(out, run_line(tlk, &f.enc(), nl, &items.join(";")));
    }
}

// -- random delimiter sets --------------------------------------------------------------------

/// `rand <tlk> <fam> <hex source>`: a random delimiter set (prefix-sharing, nested-prefix,
/// contained, multi-byte start delimiters, optional line prefixes) and a random source made of
/// delimiter fragments; the tokens of the real lexer are compared with the model (which runs the
/// modelled automaton path).  Sets that `build` rejects are reported as `badcfg`.
fn run_rand(tlk: &str, fam: &str, srchex: &str) -> String {
    let f = Fam::dec(fam);
    let src = unhexs(srchex);
    let tok = lex(tlk, &f, &src);
    format!("rand {} {} {}\tsrc={}\ttok={}", tlk, fam, srchex, srchex, tok)
}

fn gen_rand(out: &mut impl Write, tier: &str, rng: &mut Rng) {
    let n_sets = if tier == "thorough" { 4000 } else { 500 };
    let per_set = if tier == "thorough" { 40 } else { 30 };
    let atoms = ["<", "%", "{", "#", "\u{ab}", "\u{e9}", "=", "[", "(", "@", "<<", "{{", "{%"];
    let ends = ["%>", "}", ">>", "\u{bb}", "]]", "%]", "}}", "%}", ")", "@", "#}"];
    for i in 0..n_sets {
        // three start delimiters that like to share prefixes: grow from a common stem
        let stem_len = rng.below(3) as usize;
        let mut stem = String::new();
        for _ in 0..stem_len {
            stem.push_str(pk(rng, &atoms));
        }
        let mk_start = |rng: &mut Rng| {
            let mut s = if rng.chance(2, 3) { stem.clone() } else { String::new() };
            let extra = if s.is_empty() { 1 + rng.below(3) } else { rng.below(3) };
            for _ in 0..extra {
                s.push_str(pk(rng, &atoms));
            }
            s
        };
        let (bs, vs, cs) = (mk_start(rng), mk_start(rng), mk_start(rng));
        let (be, ve, ce) = (pk(rng, &ends).to_string(), pk(rng, &ends).to_string(), pk(rng, &ends).to_string());
        let ls = if rng.chance(1, 3) { mk_start(rng) } else { String::new() };
        let lc = if rng.chance(1, 3) { mk_start(rng) } else { String::new() };
        let f = Fam { name: format!("rand{}", i), d: [bs, be, vs, ve, cs, ce, ls, lc] };
        let fenc = f.enc();
        if f.build().is_err() {
            emit(out, run_cfg(&fenc));
            continue;
        }
        let mut pieces: Vec<String> = vec![
            " ".into(), "\n".into(), "x".into(), " v ".into(), " if t ".into(), " endif ".into(), " c ".into(), "-".into(),
            "+".into(), "\r\n".into(), "  ".into(), " raw ".into(), " endraw ".into(), "'".into(), "1".into(),
        ];
        for k in 0..8 {
            if !f.d[k].is_empty() {
                pieces.push(f.d[k].clone());
                // and a proper prefix of it
                let cut: String = f.d[k].chars().take(f.d[k].chars().count() - 1).collect();
                if !cut.is_empty() {
                    pieces.push(cut);
                }
            }
        }
        for a in atoms {
            pieces.push(a.to_string());
        }
        for _ in 0..per_set {
            let n = 1 + rng.below(10);
            let mut src = String::new();
            for _ in 0..n {
                let pc: &String = rng.pick(&pieces); src.push_str(pc);
            }
            let tlk = *rng.pick(&TLK);
            emit(out, run_rand(tlk, &fenc, &hexs(&src)));
        }
    }
}

// -- texts beyond 64 KiB ----------------------------------------------------------------------

/// `big <tlk> <fam> <segs>`: like `seg`, with texts of more than 64 KiB (line and column counters of
/// the lexer saturate there); checked against the Python implementation of the rules only
fn gen_big(out: &mut impl Write) {
    let d = default_fam().enc();
    let big = format!("{}\n  ", "x".repeat(70_000));
    let lines = format!("{}  ", "y\n".repeat(70_000));
    for s in [
        format!("T{}", hexs(&big)),
        format!("T{};B__;T{};B_-;T{}", hexs(&big), hexs(&big), hexs(&big)),
        format!("T{};V-_;R____{};C__", hexs(&big), hexs(&big)),
        format!("T{};B__;T{};B-_;T0a", hexs(&lines), hexs(&lines)),
        format!("T{};C_-;T{};V__", hexs(&lines), hexs(" \n ")),
    ] {
        for tlk in TLK {
            emit(out, run_seg(tlk, &d, &s).replacen("seg ", "big ", 1));
        }
    }
}

// -- search kernels ---------------------------------------------------------------------------

const KERN_ALPHA: [u8; 3] = [b'-', b'{', b'%'];

/// all words over the alphabet with length <= n, shorter first, then in alphabet order
fn kern_words(n: usize) -> Vec<Vec<u8>> {
    let mut out: Vec<Vec<u8>> = vec![vec![]];
    let mut level: Vec<Vec<u8>> = vec![vec![]];
    for _ in 0..n {
        let mut next = vec![];
        for w in &level {
            for c in KERN_ALPHA {
                let mut x = w.clone();
                x.push(c);
                next.push(x);
            }
        }
        out.extend(next.iter().cloned());
        level = next;
    }
    out
}

fn kern_digit(r: Option<usize>) -> char {
    match r {
        Some(i) => char::from_digit(i as u32, 36).unwrap_or('?'),
        None => '.',
    }
}

/// `kern memstr <hex needle>` / `kern memchr <hex byte>`: the real `utils::memstr` / `utils::memchr`
/// on every haystack of length <= 8 over a 3-letter alphabet (one result character per haystack)
fn run_kern(which: &str, needle_hex: &str) -> String {
    let needle = unhex(needle_hex);
    let hay = kern_words(8);
    let r = guarded(|| {
        hay.iter()
            .map(|h| {
                if which == "memstr" {
                    kern_digit(minijinja::verif_hooks::memstr(h, &needle))
                } else {
                    kern_digit(minijinja::verif_hooks::memchr(h, needle[0]))
                }
            })
            .collect::<String>()
    });
    format!("kern {} {}\tres={}", which, needle_hex, r.unwrap_or_else(|_| "panic".into()))
}

fn gen_kern(out: &mut impl Write) {
    for n in kern_words(4).into_iter().skip(1) {
        emit(out, run_kern("memstr", &hex(&n)));
    }
    for c in KERN_ALPHA {
        emit(out, run_kern("memchr", &hex(&[c])));
    }
}

// -- the start marker search as a kernel --------------------------------------------------------

const KAC_ALPHA: [char; 4] = ['a', 'b', ' ', '\n'];

fn kac_words(n: usize) -> Vec<String> {
    let mut out: Vec<String> = vec![String::new()];
    let mut level: Vec<String> = vec![String::new()];
    for _ in 0..n {
        let mut next = vec![];
        for w in &level {
            for c in KAC_ALPHA {
                let mut x = w.clone();
                x.push(c);
                next.push(x);
            }
        }
        out.extend(next.iter().cloned());
        level = next;
    }
    out
}

/// `kac <fam> <maxlen> <hex prefix>`: the real `find_start_marker(prefix + haystack, prefix.len())`
/// for every haystack of length <= maxlen over {a, b, blank, line break}; three characters per
/// haystack: offset, marker kind, length of the matched start delimiter
#[cfg(feature = "hooks")]
fn run_kac(fam: &str, maxlen: &str, prefix_hex: &str) -> String {
    let f = Fam::dec(fam);
    let n: usize = maxlen.parse().unwrap();
    let prefix = unhexs(prefix_hex);
    let syn = match f.build() {
        Ok(s) => s,
        Err(_) => return format!("kac {} {} {}\tres=badcfg", fam, maxlen, prefix_hex),
    };
    let r = guarded(|| {
        let mut out = String::new();
        for h in kac_words(n) {
            let src = format!("{}{}", prefix, h);
            match minijinja::verif_hooks::find_start_marker(&src, prefix.len(), &syn) {
                Some((start, kind, len)) => {
                    out.push(kern_digit(Some(start)));
                    out.push(kind);
                    out.push(kern_digit(Some(len)));
                }
                None => out.push_str("..."),
            }
        }
        out
    });
    // what the automaton itself reports on every haystack (in its order): start, end, pattern
    // index per match, haystacks separated by commas; and max_pattern_len
    let ms = guarded(|| {
        let mut out = String::new();
        let mut maxlen_seen = None;
        for (i, h) in kac_words(n).iter().enumerate() {
            let src = format!("{}{}", prefix, h);
            if i > 0 {
                out.push(',');
            }
            match minijinja::verif_hooks::start_marker_matches(&src, prefix.len(), &syn) {
                Some((v, m)) => {
                    maxlen_seen = Some(m);
                    for (s, e, p) in v {
                        out.push(kern_digit(Some(s)));
                        out.push(kern_digit(Some(e)));
                        out.push(kern_digit(Some(p)));
                    }
                }
                None => return ("-".to_string(), None),
            }
        }
        (out, maxlen_seen)
    });
    let (ms, mx) = ms.unwrap_or_else(|_| ("panic".into(), None));
    format!(
        "kac {} {} {}\tres={}\tms={}\tmax={}",
        fam,
        maxlen,
        prefix_hex,
        r.unwrap_or_else(|_| "panic".into()),
        ms,
        mx.map(|x| x.to_string()).unwrap_or_else(|| "-".into())
    )
}

#[cfg(not(feature = "hooks"))]
fn run_kac(fam: &str, maxlen: &str, prefix_hex: &str) -> String {
    format!("kac {} {} {}\tres=nohooks", fam, maxlen, prefix_hex)
}

/// all ways of picking `k` of the items in order
fn arrangements(items: &[&'static str], k: usize) -> Vec<Vec<&'static str>> {
    if k == 0 {
        return vec![vec![]];
    }
    let mut out = vec![];
    for (i, x) in items.iter().enumerate() {
        let rest: Vec<&'static str> = items.iter().enumerate().filter(|(j, _)| *j != i).map(|(_, y)| *y).collect();
        for mut tail in arrangements(&rest, k - 1) {
            let mut v = vec![*x];
            v.append(&mut tail);
            out.push(v);
        }
    }
    out
}

/// Start delimiter sets over {a, b} whose members are prefixes, suffixes and infixes of one another
/// and overlap themselves, in every role: every assignment of the five words of a template to
/// variable / block / comment start and the two line prefixes, and every assignment of three or
/// four of them (no line prefixes, only a statement prefix, only a comment prefix).
fn gen_kac(out: &mut impl Write, tier: &str, rng: &mut Rng) {
    let thorough = tier == "thorough";
    let templates: [[&'static str; 5]; 4] = [
        ["a", "aa", "aaa", "ab", "aab"],       // prefix chains, self-overlap
        ["ab", "b", "bab", "abab", "ba"],      // suffixes, infixes, self-overlap with period 2
        ["aba", "ab", "ba", "a", "abaab"],     // border `a`, `aba` inside `abaab`
        ["b", "bb", "abb", "bba", "abba"],     // suffix chains
    ];
    let mut sets: Vec<[String; 5]> = vec![];
    for (ti, t) in templates.iter().enumerate() {
        for (k, every) in [(5usize, if thorough || ti == 0 { 1 } else { 4 }), (3, if thorough { 1 } else { 3 }), (4, if thorough { 1 } else { 6 })] {
            for (i, a) in arrangements(&t[..], k).into_iter().enumerate() {
                if i % every != (ti % every) {
                    continue;
                }
                match k {
                    5 => sets.push([a[0].into(), a[1].into(), a[2].into(), a[3].into(), a[4].into()]),
                    3 => sets.push([a[0].into(), a[1].into(), a[2].into(), "".into(), "".into()]),
                    _ => {
                        sets.push([a[0].into(), a[1].into(), a[2].into(), a[3].into(), "".into()]);
                        sets.push([a[0].into(), a[1].into(), a[2].into(), "".into(), a[3].into()]);
                    }
                }
            }
        }
    }
    let maxlen = if thorough { "6" } else { "5" };
    for (i, st) in sets.iter().enumerate() {
        let f = Fam { name: format!("kac{}", i), d: [st[1].clone(), "%}".into(), st[0].clone(), "}}".into(), st[2].clone(), "#}".into(), st[3].clone(), st[4].clone()] };
        let fenc = f.enc();
        emit(out, run_kac(&fenc, maxlen, ""));
        // the search starts behind text: in the middle of a line, at a line start behind blanks
        if thorough || rng.chance(1, 4) {
            emit(out, run_kac(&fenc, if thorough { "5" } else { "4" }, &hexs("a ")));
            emit(out, run_kac(&fenc, if thorough { "5" } else { "4" }, &hexs("a\n \t")));
        }
    }
}

// -- the tokens inside a tag --------------------------------------------------------------------

/// `itok <fam> <v|b|s> <hex s>`: the real tokenizer on `<start delimiter><s>` (variable tag, block
/// tag, line statement): source text of every token it emits inside the tag (from the spans), and
/// how the tag ends: `found:<hex of what is left unread>:<d|-|+>` (closing marker), `eof`, `err`.
fn run_itok(fam: &str, kind: &str, shex: &str) -> String {
    let f = Fam::dec(fam);
    let s = unhexs(shex);
    let start = match kind { "v" => f.vs(), "b" => f.bs(), _ => f.ls() };
    let src = format!("{}{}", start, s);
    let head = format!("itok {} {} {}", fam, kind, shex);
    let syn = if f.name == "default" {
        SyntaxConfig::default()
    } else {
        match f.build() {
            Ok(x) => x,
            Err(_) => return format!("{}\ttoks=\tend=badcfg", head),
        }
    };
    let e = match kind { "v" => f.ve().to_string(), "b" => f.be().to_string(), _ => String::new() };
    let r = guarded(|| {
        let mut ws = WhitespaceConfig::default();
        ws.keep_trailing_newline = true;
        let mut toks: Vec<String> = vec![];
        let mut inside = false;
        let mut end = "eof".to_string();
        for t in tokenize(&src, false, syn, ws) {
            match t {
                Ok((tok, span)) => {
                    let text = &src[span.start_offset as usize..span.end_offset as usize];
                    if !inside {
                        match tok {
                            Token::VariableStart | Token::BlockStart => inside = true,
                            _ => {
                                end = "nostart".into();
                                break;
                            }
                        }
                        continue;
                    }
                    match tok {
                        Token::VariableEnd | Token::BlockEnd => {
                            let m = if kind != "s" && text.len() == e.len() + 1 { &text[..1] } else { "d" };
                            end = format!("found:{}:{}", hexs(&src[span.end_offset as usize..]), m);
                            break;
                        }
                        _ => toks.push(hexs(text)),
                    }
                }
                Err(_) => {
                    end = "err".into();
                    break;
                }
            }
        }
        format!("toks={}\tend={}", toks.join(","), end)
    });
    format!("{}\t{}", head, r.unwrap_or_else(|_| "toks=\tend=panic".into()))
}

/// Tag interiors made of token fragments (identifiers, numbers in every notation, string literals,
/// one and two character operators, brackets, blanks of every kind, stray characters) glued with
/// and without blanks, so that longest-match decisions are exercised (`1.5.2`, `a.b`, `//=`, `***`,
/// `1e+`, `0x`, `2.foo`), closed with every marker, under end delimiters that begin with operator
/// characters, digits and letters, and as line statements.
fn gen_itok(out: &mut impl Write, tier: &str, rng: &mut Rng) {
    let thorough = tier == "thorough";
    let frags: Vec<&str> = vec![
        "a", "_x1", "if", "b2", "0", "12", "1.5", "1.", "1.e3", "1e5", "1e+5", "1E-2", "0x1F", "0b101", "0o17", "1_000", "1__0", "0x",
        "1e", "2.foo", "1.5.2", "1_", "0b2", "99999999999999999999999999999999999999999", "18446744073709551616", "'s'", "\"d\"",
        "'a\\'b'", "'\\u0041'", "'}}'", "'%}'", "''", "'-%>'", "+", "-", "*", "/", "%", ".", ",", ":", "~", "|", "=", ">", "<", "//", "**", "==",
        "!=", ">=", "<=", "(", ")", "[", "]", "{", "}", "!", "@", "&", "\\", " ", "\t", "\n", "\r\n", "\u{c}", "  ",
    ];
    let fams: Vec<Fam> = families()
        .into_iter()
        .filter(|f| ["default", "erb", "angle", "brace1", "latex", "dashend", "plusend", "digitend", "letterend", "dashdash", "line", "line2", "lineov"].contains(&f.name.as_str()))
        .collect();
    let tails = ["", "x", " \n", "-x"];
    let mut n = 0usize;
    let emit_case = |out: &mut dyn Write, f: &Fam, kind: &str, interior: &str, k: usize| {
        let (e, ok) = match kind { "v" => (f.ve(), true), "b" => (f.be(), true), _ => ("", !f.ls().is_empty()) };
        if !ok {
            return;
        }
        let s = if kind == "s" {
            format!("{}{}", interior, ["", "\n", "\r\nx", " \t\ry"][k % 4])
        } else {
            format!("{}{}{}{}", interior, ["", "-", "+"][k % 3], e, tails[(k / 3) % 4])
        };
        let line = run_itok(&f.enc(), kind, &hexs(&s));
        let _ = writeln!(out, "{}", line);
    };
    for f in &fams {
        for kind in ["v", "b", "s"] {
            // every fragment alone and every pair, glued and with a blank between
            for (i, a) in frags.iter().enumerate() {
                n += 1;
                emit_case(out, f, kind, &format!(" {} ", a), n);
                emit_case(out, f, kind, a, n + 1);
                for (j, b) in frags.iter().enumerate() {
                    // quick: a third of the pairs per family (all of them over the families)
                    if !thorough && (i + j + n) % 3 != 0 {
                        continue;
                    }
                    n += 1;
                    emit_case(out, f, kind, &format!("{}{}", a, b), n);
                    if (i + j) % 4 == 0 {
                        emit_case(out, f, kind, &format!(" {} {}", a, b), n);
                    }
                }
            }
            // longer random mixtures
            for _ in 0..(if thorough { 1500 } else { 250 }) {
                let len = 3 + rng.below(4) as usize;
                let mut s = String::new();
                for _ in 0..len {
                    s.push_str(frags[rng.below(frags.len() as u64) as usize]);
                    if rng.chance(1, 3) {
                        s.push(' ');
                    }
                }
                n += 1;
                emit_case(out, f, kind, &s, n);
            }
        }
    }
}

// -- the identifier scan as a kernel ---------------------------------------------------------------

/// `kid <hex s>`: the real `lex_identifier(s)` (length in bytes of the identifier `s` starts with) and
/// which of its two forms was compiled
#[cfg(feature = "hooks")]
fn run_kid(shex: &str) -> String {
    let s = unhexs(shex);
    let r = guarded(|| minijinja::verif_hooks::lex_identifier(&s));
    format!(
        "kid {}\tlen={}\tunicode={}",
        shex,
        r.map(|x| x.to_string()).unwrap_or_else(|_| "panic".into()),
        if minijinja::verif_hooks::UNICODE_IDENTIFIERS { 1 } else { 0 }
    )
}

#[cfg(not(feature = "hooks"))]
fn run_kid(shex: &str) -> String {
    format!("kid {}\tlen=nohooks", shex)
}

/// every string of length <= 3 over ASCII letters, digits, `_`, separators and non-ASCII characters
/// of every identifier class (start, continue only, neither; 2, 3 and 4 bytes long)
fn gen_kid(out: &mut impl Write) {
    let alpha: Vec<&str> = vec![
        "a", "Z", "0", "9", "_", "-", " ", ".", "\u{e9}", "\u{304d}", "\u{2118}", "\u{212e}", "\u{b7}", "\u{1f40d}", "\u{301}", "\u{b2}",
        "\u{2167}", "\u{200d}", "\u{aa}", "\u{663}", "}", "%",
    ];
    let mut level: Vec<String> = vec![String::new()];
    for _ in 0..3 {
        let mut next = vec![];
        for w in &level {
            for c in &alpha {
                next.push(format!("{}{}", w, c));
            }
        }
        for w in &next {
            emit(out, run_kid(&hexs(w)));
        }
        level = next;
    }
}

// -- entry points -----------------------------------------------------------------------------

fn ctx() -> minijinja::Value {
    context! { v => "V", t => true, f => false, seq => vec![1, 2], w => "W" }
}

fn fmt_res(r: Result<Result<String, minijinja::Error>, String>) -> String {
    match r {
        Ok(Ok(s)) => format!("ok:{}", hexs(&s)),
        Ok(Err(e)) => format!("err:{}", error_kind_name(&e)),
        Err(_) => "panic".into(),
    }
}

fn flip(tlk: &str) -> String {
    tlk.chars().map(|c| if c == '0' { '1' } else { '0' }).collect()
}

fn set_tlk(env: &mut Environment<'static>, tlk: &str) {
    let b = tlk.as_bytes();
    env.set_trim_blocks(b[0] == b'1');
    env.set_lstrip_blocks(b[1] == b'1');
    env.set_keep_trailing_newline(b[2] == b'1');
}

/// `entry <tlk> <fam> <segs>`: the same source through every way of compiling and rendering a
/// template; `late_*`: the whitespace settings are flipped after `add_template` (must not matter)
/// resp. before a loader-backed template is first requested (the flipped settings apply)
fn run_entry(tlk: &str, fam: &str, segs: &str) -> String {
    let f = Fam::dec(fam);
    let src = unparse(&f, segs);
    let env = match mk_env(tlk, &f) {
        Some(e) => e,
        None => return format!("entry {} {} {}\tsrc=\tbadcfg=1", tlk, fam, segs),
    };
    let mut fields: Vec<(String, String)> = vec![];
    let mut put = |k: &str, v: String| fields.push((k.to_string(), v));
    put("render_str", fmt_res(guarded(|| env.render_str(&src, ctx()))));
    put("render_named_str", fmt_res(guarded(|| env.render_named_str("n.txt", &src, ctx()))));
    put("template_from_str", fmt_res(guarded(|| env.template_from_str(&src)?.render(ctx()))));
    put("template_from_named_str", fmt_res(guarded(|| env.template_from_named_str("n.txt", &src)?.render(ctx()))));
    put("render_captured", fmt_res(guarded(|| Ok(env.template_from_str(&src)?.render_captured(ctx())?.into_output()))));
    put(
        "render_captured_to",
        fmt_res(guarded(|| {
            let mut buf: Vec<u8> = vec![];
            env.template_from_str(&src)?.render_captured_to(ctx(), &mut buf)?;
            Ok(String::from_utf8(buf).unwrap())
        })),
    );
    // the borrowing add_template
    {
        let mut envb: minijinja::Environment<'_> = mk_env(tlk, &f).unwrap();
        let r = guarded(|| envb.add_template("t", &src));
        match r {
            Ok(Ok(())) => put("add_template_borrowed", fmt_res(guarded(|| envb.get_template("t")?.render(ctx())))),
            Ok(Err(e)) => put("add_template_borrowed", format!("err:{}", error_kind_name(&e))),
            Err(_) => put("add_template_borrowed", "panic".into()),
        }
    }
    // reached from another template: included, and as the parent of a child that overrides nothing
    for (key, word) in [("include", "include"), ("extends", "extends")] {
        let mut envi = mk_env(tlk, &f).unwrap();
        let s3 = src.clone();
        let wrapper = format!("{} {} 't' {}", f.bs(), word, f.be());
        envi.set_loader(move |name| Ok(if name == "t" { Some(s3.clone()) } else if name == "w" { Some(wrapper.clone()) } else { None }));
        put(key, fmt_res(guarded(|| envi.get_template("w")?.render(ctx()))));
    }
    // add_template + get_template, then a clone of the environment, then flipped settings
    let mut env2 = mk_env(tlk, &f).unwrap();
    let added = guarded(|| env2.add_template_owned("t".to_string(), src.clone()));
    match added {
        Ok(Ok(())) => {
            put("add_template", fmt_res(guarded(|| env2.get_template("t")?.render(ctx()))));
            let env3 = env2.clone();
            put("clone", fmt_res(guarded(|| env3.get_template("t")?.render(ctx()))));
            set_tlk(&mut env2, &flip(tlk));
            put("late_add", fmt_res(guarded(|| env2.get_template("t")?.render(ctx()))));
        }
        Ok(Err(e)) => {
            let v = format!("err:{}", error_kind_name(&e));
            put("add_template", v.clone());
            put("clone", v.clone());
            put("late_add", v);
        }
        Err(_) => put("add_template", "panic".into()),
    }
    // loader-backed
    let mut env4 = mk_env(tlk, &f).unwrap();
    let s2 = src.clone();
    env4.set_loader(move |name| Ok(if name == "t" { Some(s2.clone()) } else { None }));
    let mut env5 = env4.clone();
    put("loader", fmt_res(guarded(|| env4.get_template("t")?.render(ctx()))));
    set_tlk(&mut env5, &flip(tlk));
    put("late_loader", fmt_res(guarded(|| env5.get_template("t")?.render(ctx()))));
    let envf = mk_env(&flip(tlk), &f).unwrap();
    put("flipped", fmt_res(guarded(|| envf.render_str(&src, ctx()))));
    let tok = lex(tlk, &f, &src);
    let mut line = format!("entry {} {} {}\tsrc={}\ttok={}", tlk, fam, segs, hexs(&src), tok);
    for (k, v) in fields {
        line.push_str(&format!("\t{}={}", k, v));
    }
    line
}

fn gen_entry(out: &mut impl Write, tier: &str, rng: &mut Rng) {
    let n = if tier == "thorough" { 20_000 } else { 2_500 };
    let fams = families();
    let texts: Vec<String> = text_core().iter().map(|s| t_item(s)).collect();
    let tags = tag_items();
    let raws = raw_items_tiny();
    for _ in 0..n {
        let len = 1 + rng.below(4) as usize;
        let mut parts: Vec<String> = vec![];
        for _ in 0..len {
            parts.push(if rng.chance(1, 2) {
                rng.pick(&texts).clone()
            } else if rng.chance(1, 6) {
                rng.pick(&raws).clone()
            } else {
                rng.pick(&tags).clone()
            });
        }
        let f = if rng.chance(3, 4) { &fams[0] } else { rng.pick(&fams) };
        let tlk = *rng.pick(&TLK);
        emit(out, run_entry(tlk, &f.enc(), &parts.join(";")));
    }
}

// -- text inside bodies -----------------------------------------------------------------------

/// `wrap <tlk> <fam> <kind> <segs>`: a body from the segment alphabet inside a for loop / macro /
/// call block / set block / filter block / block / with / autoescape block (`segs` is the whole
/// template in the `G` encoding); the expectation is computed by lib/props/c10.py from the rules
fn run_wrap(tlk: &str, fam: &str, kind: &str, segs: &str) -> String {
    let f = Fam::dec(fam);
    let src = unparse(&f, segs);
    let tok = lex(tlk, &f, &src);
    let out = match mk_env(tlk, &f) {
        Some(env) => render(&env, &src),
        None => "badcfg".into(),
    };
    format!("wrap {} {} {} {}\tsrc={}\ttok={}\tout={}", tlk, fam, kind, segs, hexs(&src), tok, out)
}

fn gen_wrap(out: &mut impl Write, tier: &str, rng: &mut Rng) {
    let n = if tier == "thorough" { 30_000 } else { 4_000 };
    let fams = families();
    let texts: Vec<String> = text_core().iter().map(|s| t_item(s)).collect();
    let kinds: [(&str, &str, &str); 8] = [
        ("for", " for i in seq ", " endfor "),
        ("macro", " macro m() ", " endmacro "),
        ("set", " set x ", " endset "),
        ("filter", " filter upper ", " endfilter "),
        ("block", " block b ", " endblock "),
        ("call", " call m() ", " endcall "),
        ("with", " with q = 1 ", " endwith "),
        ("autoescape", " autoescape false ", " endautoescape "),
    ];
    for _ in 0..n {
        let (kind, open, close) = *rng.pick(&kinds);
        let mut parts: Vec<String> = vec![];
        if rng.chance(1, 2) {
            parts.push(rng.pick(&texts).clone());
        }
        if kind == "call" {
            parts.push(g('b', '_', '_', " macro m() "));
            parts.push(t_item("["));
            parts.push(g('v', '_', '_', " caller() "));
            parts.push(t_item("]"));
            parts.push(g('b', '_', '_', " endmacro "));
        }
        parts.push(g('b', rand_mark(rng), rand_mark(rng), open));
        // body: texts, variable tags, comments, balanced if/endif, raw
        let len = rng.below(4) as usize;
        let mut open_if = false;
        for _ in 0..len {
            match rng.below(6) {
                0 | 1 | 2 => parts.push(rng.pick(&texts).clone()),
                3 => parts.push(g('v', rand_mark(rng), rand_mark(rng), " v ")),
                4 => parts.push(g('c', rand_mark(rng), rand_mark(rng), " c ")),
                _ => {
                    parts.push(g('b', rand_mark(rng), rand_mark(rng), if open_if { " endif " } else { " if t " }));
                    open_if = !open_if;
                }
            }
        }
        if open_if {
            parts.push(g('b', rand_mark(rng), rand_mark(rng), " endif "));
        }
        parts.push(g('b', rand_mark(rng), rand_mark(rng), close));
        match kind {
            "macro" => parts.push(g('v', rand_mark(rng), '_', " m() ")),
            "set" => parts.push(g('v', rand_mark(rng), '_', " x ")),
            _ => {}
        }
        if rng.chance(1, 2) {
            parts.push(rng.pick(&texts).clone());
        }
        let f = if rng.chance(4, 5) { &fams[0] } else { &fams[1 + rng.below(7) as usize] };
        let tlk = *rng.pick(&TLK);
        emit(out, run_wrap(tlk, &f.enc(), kind, &parts.join(";")));
    }
}

// -- configurations ---------------------------------------------------------------------------

fn gen_cfg(out: &mut impl Write) {
    for f in families() {
        emit(out, run_cfg(&f.enc()));
    }
    let bad = vec![
        Fam::new("dup-var-block", ["{{", "}}", "{{", "}}", "{#", "#}", "", ""]),
        Fam::new("dup-block-comment", ["<%", "%>", "<%=", "%>", "<%", "%>", "", ""]),
        Fam::new("dup-var-comment", ["<%", "%>", "<#", "%>", "<#", "#>", "", ""]),
        Fam::new("empty-var", ["{%", "%}", "", "}}", "{#", "#}", "", ""]),
        Fam::new("empty-block", ["", "%}", "{{", "}}", "{#", "#}", "", ""]),
        Fam::new("empty-comment", ["{%", "%}", "{{", "}}", "", "#}", "", ""]),
        Fam::new("dup-line-stmt-block", ["{%", "%}", "{{", "}}", "{#", "#}", "{%", ""]),
        Fam::new("dup-line-comment-var", ["{%", "%}", "{{", "}}", "{#", "#}", "", "{{"]),
        Fam::new("dup-line-both", ["{%", "%}", "{{", "}}", "{#", "#}", "#", "#"]),
        Fam::new("all-same", ["@", "@", "@", "@", "@", "@", "@", "@"]),
        // end delimiters
        Fam::new("empty-var-end", ["{%", "%}", "{{", "", "{#", "#}", "", ""]),
        Fam::new("empty-block-end", ["{%", "", "{{", "}}", "{#", "#}", "", ""]),
        Fam::new("empty-comment-end", ["{%", "%}", "{{", "}}", "{#", "", "", ""]),
        Fam::new("ws-lead-var-end", ["{%", "%}", "{{", " }}", "{#", "#}", "", ""]),
        Fam::new("ws-lead-block-end", ["{%", "\n%}", "{{", "}}", "{#", "#}", "", ""]),
        Fam::new("ws-lead-comment-end", ["{%", "%}", "{{", "}}", "{#", " #}", "", ""]),
        Fam::new("ws-trail-ends", ["{%", "%} ", "{{", "}} ", "{#", "#} ", "", ""]),
        Fam::new("ws-inner-ends", ["{%", "% }", "{{", "} }", "{#", "# }", "", ""]),
        Fam::new("ws-starts", ["{% ", "%}", "{{ ", "}}", "{# ", "#}", "", ""]),
        Fam::new("same-start-end", ["@", "@", "$", "$", "~~", "~~", "", ""]),
        Fam::new("ident-ends", ["<b", "b>", "<v", "v>", "<c", "c>", "", ""]),
        Fam::new("marker-ends", ["[%", "-]", "[[", "+]", "[#", "-]", "", ""]),
    ];
    for f in bad {
        emit(out, run_cfg(&f.enc()));
    }
}

fn main() {
    quiet_panics();
    let args: Vec<String> = std::env::args().collect();
    let stdout = std::io::stdout();
    let mut out = std::io::BufWriter::with_capacity(1 << 20, stdout.lock());
    match args.get(1).map(|s| s.as_str()) {
        Some("gen") => {
            let tier = args.get(2).map(|s| s.as_str()).unwrap_or("quick").to_string();
            let which = args.get(3).map(|s| s.as_str()).unwrap_or("all").to_string();
            let seed = seed_from_env();
            let chunk: usize = args.get(4).and_then(|s| s.parse().ok()).unwrap_or(0);
            let nchunks: usize = args.get(5).and_then(|s| s.parse().ok()).unwrap_or(1);
            if which == "all" || which.starts_with("seg") {
                // the three parts use independent generators so that they can run separately
                let sub = match which.as_str() { "seg-exh" => 0x11, "seg-sample" => 0x12, "seg-fam" => 0x13, _ => 0x10 };
                gen_seg(&mut out, &tier, &mut Rng::new(seed ^ sub), &which, chunk, nchunks);
            }
            if which == "all" || which == "prog" {
                gen_prog(&mut out, &tier, &mut Rng::new(seed ^ 0x20));
            }
            if which == "all" || which == "line" {
                gen_line(&mut out, &tier, &mut Rng::new(seed ^ 0x30));
            }
            if which == "all" || which == "rand" {
                gen_rand(&mut out, &tier, &mut Rng::new(seed ^ 0x40));
            }
            if which == "all" || which == "big" {
                gen_big(&mut out);
            }
            if which == "all" || which == "kern" {
                gen_kern(&mut out);
            }
            if which == "all" || which == "kac" {
                gen_kac(&mut out, &tier, &mut Rng::new(seed ^ 0x70));
            }
            if which == "all" || which == "kid" {
                gen_kid(&mut out);
            }
            if which == "all" || which == "itok" {
                gen_itok(&mut out, &tier, &mut Rng::new(seed ^ 0x80));
            }
            if which == "all" || which == "entry" {
                gen_entry(&mut out, &tier, &mut Rng::new(seed ^ 0x50));
            }
            if which == "all" || which == "wrap" {
                gen_wrap(&mut out, &tier, &mut Rng::new(seed ^ 0x60));
            }
            if which == "all" || which == "cfg" {
                gen_cfg(&mut out);
            }
        }
        Some("one") => {
            let a: Vec<&str> = args[2..].iter().map(|s| s.as_str()).collect();
            let line = match a[0] {
                "seg" => run_seg(a[1], a[2], a[3]),
                "prog" => run_prog(a[1], a[2], a[3]),
                "line" => run_line(a[1], a[2], a[3], a[4]),
                "cfg" => run_cfg(a[1]),
                "rand" => run_rand(a[1], a[2], a[3]),
                "kern" => run_kern(a[1], a[2]),
                "kac" => run_kac(a[1], a[2], a.get(3).copied().unwrap_or("")),
                "big" => run_seg(a[1], a[2], a[3]).replacen("seg ", "big ", 1),
                "kid" => run_kid(a[1]),
                "itok" => run_itok(a[1], a[2], a[3]),
                "entry" => run_entry(a[1], a[2], a[3]),
                "wrap" => run_wrap(a[1], a[2], a[3], a[4]),
                _ => panic!("bad stream"),
            };
            emit(&mut out, line);
        }
        // probe <tlk> <fam-name> <source text>: render a literal source (debugging aid)
        Some("probe") => {
            let f = families().into_iter().find(|f| f.name == args[3]).expect("family");
            let src = args[4].replace("\\n", "\n").replace("\\r", "\r").replace("\\t", "\t");
            let env = mk_env(&args[2], &f).unwrap();
            emit(&mut out, format!("tok={}\tout={}", lex(&args[2], &f, &src), render(&env, &src)));
        }
        _ => {
            eprintln!("usage: c10 gen <quick|thorough> [seg|prog|line|cfg] | c10 one <case…> | c10 probe <tlk> <fam> <src>");
            std::process::exit(2);
        }
    }
}
