//! C17 correspondence + oracle harness: `loader::safe_join` / `path_loader` confinement.
//!
//! Lines (`case<TAB>result`, strings percent-encoded: bytes 0x21..0x7e except `%` and `,` stand
//! for themselves, everything else `%xx`):
//!
//!   sj <base> <name>        none | some <path> <flags> <comps>      (the hook `verif_hooks::safe_join`)
//!   push <path> <seg>       <path>                                  (std `PathBuf::push`)
//!   comps <path>            <flags> <comps>                         (std `Path::components`)
//!   ld <variant> <name>     v:<via>;d=<disk>;get=<r>;include=<r>;import=<r>;from=<r>;extends=<r>;inclist=<r>;joincb=<r>;
//!                           fn=<r>;macro=<r>;nested=<r>[;incim=<r>;inclist2=<r>;filter=<r>]   (the last three for all but
//!                           the names of the alphabet product)
//!   tr <variant> <form> <name>   <i> <+hook path|-> <r>   (the syscall-oracle driver, `c17 trace`, run under strace)
//!   tl <variant> <name>     <r>        (Environment::templates() of the `get` environment)
//!   lc / lct / lcclear      the loader-lifecycle stream, see `run_lifecycle`
//!
//! `flags` = `R`/`r` (RootDir component or not) + `C`/`c` (leading CurDir component or not);
//! `comps` = the Normal/ParentDir components, comma-joined.
//!
//! `ld` runs the REAL `path_loader` over a scratch tree (`$TMPDIR/mjc17-<id>/tree`, no dot segment) whose every
//! file carries a marker `<<MJ17 K path>>` with K = `B` (beneath the base) or `C` (canary outside
//! the base) and its own canonical path (`~xx`-encoded).  `<r>` is `nf` (template not found),
//! `e:<ErrorKind>`, `panic:<msg>` or `f:<markers seen in the source / the rendered output>`.
//! `v:` is the canonical path of the file `safe_join(base, name)` designates (`-` when none).
//! Header lines start with `#`.
//!
//! usage: c17 gen <quick|thorough> [k n]   — all streams; only names with index % n == k
//!        c17 one <case fields…>           — one case (replay)
//!        c17 bases                        — build the tree, print the header lines
//!        c17 trace <quick|thorough>       — the syscall-oracle driver (run under strace, see below)
use minijinja::verif_hooks::safe_join;
use minijinja::{context, path_loader, Environment, ErrorKind};
use mjh::*;
use std::borrow::Cow;
use std::ffi::OsStr;
use std::fs;
use std::io::Write;
use std::os::unix::ffi::OsStrExt;
use std::path::{Component, Path, PathBuf};

fn pct(bytes: &[u8]) -> String {
    let mut s = String::new();
    for &b in bytes {
        if (0x21..=0x7e).contains(&b) && b != b'%' && b != b',' {
            s.push(b as char);
        } else {
            s.push_str(&format!("%{:02x}", b));
        }
    }
    s
}

fn unpct(s: &str) -> Vec<u8> {
    let b = s.as_bytes();
    let mut out = vec![];
    let mut i = 0;
    while i < b.len() {
        if b[i] == b'%' && i + 3 <= b.len() {
            out.push(u8::from_str_radix(&s[i + 1..i + 3], 16).expect("bad escape"));
            i += 3;
        } else {
            out.push(b[i]);
            i += 1;
        }
    }
    out
}

fn tilde(bytes: &[u8]) -> String {
    let mut s = String::new();
    for &b in bytes {
        if b.is_ascii_alphanumeric() || b == b'/' || b == b'.' || b == b'_' || b == b'-' {
            s.push(b as char);
        } else {
            s.push_str(&format!("~{:02x}", b));
        }
    }
    s
}

fn long_seg() -> String {
    "a".repeat(256)
}

/// the segment alphabet of the property's quantifier
fn alphabet() -> Vec<String> {
    vec![
        "".into(),
        ".".into(),
        "..".into(),
        "...".into(),
        "a".into(),
        ".a".into(),
        "a.".into(),
        "a..b".into(),
        "a\\b".into(),
        "..\\a".into(),
        "\0".into(),
        "%2e%2e".into(),
        "\u{2024}\u{2024}".into(),
        "\u{FF0E}\u{FF0E}".into(),
        long_seg(),
        // not in the property's alphabet: a plain name that exists only OUTSIDE the base
        ONLY_OUTSIDE.into(),
    ]
}

// ------------------------------------------------------------------------------------ the tree

const FILES: [&str; 7] = ["a.", "a..b", "%2e%2e", "\u{2024}\u{2024}", ".a", "a\\b", "..\\a"];
const SIDE_DIRS: [&str; 2] = ["...", "\u{FF0E}\u{FF0E}"];

fn marker(kind: char, path: &Path) -> String {
    format!("<<MJ17 {} {}>>", kind, tilde(path.as_os_str().as_bytes()))
}

/// a file name that exists ONLY outside the base: in the scratch root, in every ancestor of the
/// base and at every level of their `a/` sub-trees — never beneath the base
const ONLY_OUTSIDE: &str = "only_outside.txt";

fn write_file(path: &Path, kind: char, canaries: &mut Vec<PathBuf>) {
    let m = marker(kind, path);
    fs::write(path, format!("{m}{{% set tag = \"{m}\" %}}")).unwrap();
    if kind == 'C' {
        canaries.push(path.to_path_buf());
    }
}

fn populate(dir: &Path, depth: usize, kind: char, canaries: &mut Vec<PathBuf>) {
    fs::create_dir_all(dir).unwrap();
    for f in FILES {
        write_file(&dir.join(f), kind, canaries);
    }
    for d in SIDE_DIRS {
        fs::create_dir_all(dir.join(d)).unwrap();
        write_file(&dir.join(d).join("a."), kind, canaries);
    }
    if kind == 'C' {
        write_file(&dir.join(ONLY_OUTSIDE), kind, canaries);
    }
    if depth > 0 {
        populate(&dir.join("a"), depth - 1, kind, canaries);
    }
}

/// canary-only names in one directory outside the base: a name unique to that directory, a
/// directory that has no namesake beneath the base, and plain names without any dot
fn outside_only(dir: &Path, label: &str, canaries: &mut Vec<PathBuf>) {
    write_file(&dir.join(format!("only_{label}.txt")), 'C', canaries);
    write_file(&dir.join("onlyoutside"), 'C', canaries);
    // customary index / layout names, and namesakes of the base directory itself (`base`) with a suffix
    for f in ["index.html", "index.j2", "index.htm", "index.txt", "default.html", "layout.html", "base.html", "base.j2", "base.txt"] {
        write_file(&dir.join(f), 'C', canaries);
    }
    fs::create_dir_all(dir.join("outside_dir").join("sub")).unwrap();
    write_file(&dir.join("outside_dir").join("x.txt"), 'C', canaries);
    write_file(&dir.join("outside_dir").join("sub").join("y.txt"), 'C', canaries);
    // nested beneath the directory name that also exists inside the base
    write_file(&dir.join("a").join(format!("only_{label}_nested.txt")), 'C', canaries);
}

/// request stems that exist nowhere as such — only DECORATED spellings of them exist, and only
/// outside the base: with a template suffix, as a directory with an index file, in another case,
/// with blanks around, in another Unicode normal form
const GHOSTS: [&str; 6] = ["ghost", "Ghost.txt", "ghost2", "caf\u{e9}", "\u{fb01}le", "partial.html"];
const SUFFIXES: [&str; 8] = [".j2", ".html", ".txt", ".jinja", ".jinja2", ".tmpl", ".htm", ".tpl"];

/// decorated namesakes (all canaries) in one directory outside the base
fn decorate(dir: &Path, canaries: &mut Vec<PathBuf>) {
    for stem in GHOSTS.iter().chain(["a.", "only_outside.txt", "onlyoutside", "a"].iter()) {
        for suf in SUFFIXES {
            let p = dir.join(format!("{stem}{suf}"));
            if !p.exists() {
                write_file(&p, 'C', canaries);
            }
        }
    }
    for stem in GHOSTS {
        fs::create_dir_all(dir.join(stem)).unwrap();
        for idx in ["index.html", "index.j2", "index", "default.html"] {
            write_file(&dir.join(stem).join(idx), 'C', canaries);
        }
    }
    // other case, blanks, other normal forms of the ghosts
    for f in ["GHOST", "Ghost", "ghost.txt", "GHOST.TXT", " ghost2", "ghost2 ", "ghost2\n", "cafe\u{301}", "file", "PARTIAL.HTML"] {
        let p = dir.join(f);
        if !p.exists() {
            write_file(&p, 'C', canaries);
        }
    }
}

/// the names that go with `decorate`: the undecorated stems (absolute and relative spellings) and
/// decorated requests
fn decorated_requests(t: &Tree) -> Vec<String> {
    let mut v = vec![];
    let stems: Vec<&str> = GHOSTS.iter().copied().chain(["a.", "only_outside.txt", "onlyoutside"]).collect();
    for dir in t.decorated.iter() {
        for stem in &stems {
            let p = dir.join(stem).to_str().unwrap().to_string();
            v.push(format!("/{p}"));
            v.push(format!("{p}/"));
            v.push(p);
        }
    }
    for stem in &stems {
        v.push(stem.to_string());
        v.push(format!("/{stem}"));
        v.push(format!("{stem}/"));
        v.push(format!("a/{stem}"));
        v.push(format!("{stem}/index.html"));
        v.push(format!("{stem}/index"));
        for suf in SUFFIXES {
            v.push(format!("{stem}{suf}"));
        }
        v.push(stem.to_uppercase());
        v.push(stem.to_lowercase());
        v.push(format!(" {stem}"));
        v.push(format!("{stem} "));
    }
    v
}

struct Tree {
    /// the directories outside the base that hold decorated namesakes
    decorated: Vec<PathBuf>,
    root: PathBuf,
    p4: PathBuf,
    base: PathBuf,
    /// scratch root, p1 … p4 (the base's ancestors inside the scratch tree)
    chain: Vec<PathBuf>,
    /// every canary file (all of them are outside the base)
    canaries: Vec<PathBuf>,
}

/// The scratch tree lives at a path WITHOUT any dot segment (so not under `.build`): absolute
/// template names that spell a canary's path must get past `safe_join`'s hidden-segment rule,
/// otherwise they test nothing.  One directory per copy of the harness (the mutant test bed has
/// its own), removed by the check when it is done.
fn tree_root() -> PathBuf {
    if let Ok(d) = std::env::var("VERIF_C17_DIR") {
        return PathBuf::from(d);
    }
    let mut h: u32 = 0x811c9dc5;
    for b in env!("CARGO_MANIFEST_DIR").bytes() {
        h = (h ^ b as u32).wrapping_mul(0x01000193);
    }
    std::env::temp_dir().join(format!("mjc17-{:08x}", h)).join("tree")
}

fn build_tree() -> Tree {
    let root = tree_root();
    let _ = fs::remove_dir_all(&root);
    fs::create_dir_all(&root).unwrap();
    let root = fs::canonicalize(&root).unwrap();
    assert!(
        root.components().all(|c| !c.as_os_str().as_bytes().starts_with(b".")),
        "the scratch tree must not sit below a hidden directory: {root:?}"
    );
    let mut canaries = vec![];
    let mut chain = vec![root.clone()];
    let mut dir = root.clone();
    populate(&dir, 1, 'C', &mut canaries);
    outside_only(&dir, "root", &mut canaries);
    for p in ["p1", "p2", "p3", "p4"] {
        dir = dir.join(p);
        populate(&dir, 3, 'C', &mut canaries);
        outside_only(&dir, p, &mut canaries);
        chain.push(dir.clone());
    }
    let p4 = dir.clone();
    // a sibling of the base
    fs::create_dir_all(p4.join("sibling")).unwrap();
    write_file(&p4.join("sibling").join("only_sibling.txt"), 'C', &mut canaries);
    let mut decorated = chain.clone();
    decorated.push(p4.join("sibling"));
    decorated.push(p4.join("a"));
    for d in &decorated {
        decorate(d, &mut canaries);
    }
    let base = p4.join("base");
    let mut none = vec![];
    populate(&base, 4, 'B', &mut none);
    fs::write(base.join("inc"), "{% include name %}").unwrap();
    std::env::set_current_dir(&p4).unwrap();
    Tree { decorated, root, p4, base, chain, canaries }
}

/// the spellings of the base directory handed to `path_loader` (cwd = the base's parent)
fn variants(t: &Tree) -> Vec<(&'static str, PathBuf)> {
    let abs = t.base.clone();
    let mut abs_slash = abs.clone().into_os_string();
    abs_slash.push("/");
    vec![
        ("abs", abs),
        ("abs/", PathBuf::from(abs_slash)),
        ("rel", PathBuf::from("base")),
        ("./rel/", PathBuf::from("./base/")),
        ("../rel", PathBuf::from("../p4/base")),
    ]
}

const PURE_BASES: [&str; 8] = ["/b", "/b/", "", "b", "../t", ".", "/", "b//"];

// ------------------------------------------------------------------------------------ streams

fn describe(p: &Path) -> String {
    let mut root = 'r';
    let mut cur = 'c';
    let mut comps = vec![];
    for c in p.components() {
        match c {
            Component::RootDir => root = 'R',
            Component::CurDir => cur = 'C',
            Component::ParentDir => comps.push("..".to_string()),
            Component::Normal(s) => comps.push(pct(s.as_bytes())),
            Component::Prefix(_) => comps.push("<prefix>".into()),
        }
    }
    format!("{}{} {}", root, cur, comps.join(","))
}

fn run_sj(base: &[u8], name: &str) -> String {
    let base = Path::new(OsStr::from_bytes(base));
    match guarded(|| safe_join(base, name)) {
        Err(m) => format!("panic:{}", pct(m.as_bytes())),
        Ok(None) => "none".into(),
        Ok(Some(p)) => format!("some {} {}", pct(p.as_os_str().as_bytes()), describe(&p)),
    }
}

fn run_push(p: &[u8], seg: &[u8]) -> String {
    let mut pb = PathBuf::from(OsStr::from_bytes(p));
    pb.push(Path::new(OsStr::from_bytes(seg)));
    pct(pb.as_os_str().as_bytes())
}

fn markers(text: &str) -> Vec<String> {
    let mut out = vec![];
    let mut rest = text;
    while let Some(i) = rest.find("<<MJ17 ") {
        let after = &rest[i + 7..];
        match after.find(">>") {
            Some(j) => {
                let m = after[..j].replace(' ', ":");
                if !out.contains(&m) {
                    out.push(m);
                }
                rest = &after[j + 2..];
            }
            None => break,
        }
    }
    out.sort();
    out
}

fn classify_text(text: &str, empty_is_missing: bool) -> String {
    let ms = markers(text);
    if !ms.is_empty() {
        format!("f:{}", ms.join("+"))
    } else if text.is_empty() && empty_is_missing {
        "nf".into()
    } else {
        format!("f:?{}", pct(&text.as_bytes()[..text.len().min(40)]))
    }
}

fn classify_err(e: &minijinja::Error) -> String {
    // an error raised while loading a template from within another one may be wrapped
    let mut kind = e.kind();
    let mut src: Option<&(dyn std::error::Error + 'static)> = std::error::Error::source(e);
    while kind == ErrorKind::BadInclude {
        match src.and_then(|s| s.downcast_ref::<minijinja::Error>()) {
            Some(inner) => {
                kind = inner.kind();
                src = std::error::Error::source(inner);
            }
            None => break,
        }
    }
    if kind == ErrorKind::TemplateNotFound {
        "nf".into()
    } else {
        format!("e:{:?}", kind)
    }
}

/// forms that run for EVERY name; the remaining ones of `FORMS` run for the targeted, disguised,
/// shaped and noise names, in the lifecycle stream and under the syscall oracle
const CORE_FORMS: usize = 10;

const FORMS: [(&str, &str); 13] = [
    ("get", ""),
    ("include", "{% include name %}"),
    ("import", "{% import name as m %}{{ m.tag }}"),
    ("from", "{% from name import tag %}{{ tag }}"),
    ("extends", "{% extends name %}"),
    ("inclist", "{% include [name, name] ignore missing %}"),
    ("joincb", "{% include name %}"),
    // `State::get_template` called from a function of the host
    ("fn", "{{ load(name) }}"),
    // the include sits in a macro body
    ("macro", "{% macro m(n) %}{% include n %}{% endmacro %}{{ m(name) }}"),
    // the include sits in a template that itself came from the loader (`inc` = `{% include name %}`)
    ("nested", "{% include \"inc\" %}"),
    // a single include that tolerates a missing template
    ("incim", "{% include name ignore missing %}"),
    // the name is the SECOND choice of a list whose first choice does not exist
    ("inclist2", "{% include [\"mj17-nope\", name] %}"),
    // `State::get_template` called from a filter of the host
    ("filter", "{{ name|load }}"),
];

/// name of the including template in the join-callback form
const CB_PARENT: &str = "a/a/drv";

/// the callback from the documentation of `set_path_join_callback`
fn doc_join(name: &str, parent: &str) -> String {
    let mut rv = parent.split('/').collect::<Vec<_>>();
    rv.pop();
    name.split('/').for_each(|segment| match segment {
        "." => {}
        ".." => {
            rv.pop();
        }
        _ => {
            rv.push(segment);
        }
    });
    rv.join("/")
}

/// a fresh environment whose loader is the REAL `path_loader(base)`, constructed now
fn make_env(base: &Path, form: &str) -> Environment<'static> {
    make_env_with(path_loader(base), form)
}

fn make_env_with<F>(loader: F, form: &str) -> Environment<'static>
where
    F: Fn(&str) -> Result<Option<String>, minijinja::Error> + Send + Sync + 'static,
{
    let mut env = Environment::new();
    env.set_loader(loader);
    if form == "joincb" {
        env.set_path_join_callback(|name, parent| Cow::Owned(doc_join(name, parent)));
    }
    if form == "fn" {
        env.add_function("load", |state: &minijinja::State, name: &str| -> Result<String, minijinja::Error> {
            state.get_template(name).map(|t| t.source().to_string())
        });
    }
    if form == "filter" {
        env.add_filter("load", |state: &minijinja::State, name: &str| -> Result<String, minijinja::Error> {
            state.get_template(name).map(|t| t.source().to_string())
        });
    }
    env
}

fn run_form(env: &Environment<'_>, form: &str, src: &str, name: &str) -> String {
    let r = guarded(|| {
        if form == "get" {
            match env.get_template(name) {
                Ok(t) => classify_text(t.source(), false),
                Err(e) => classify_err(&e),
            }
        } else {
            let drv = if form == "joincb" { CB_PARENT } else { "<drv>" };
            match env.render_named_str(drv, src, context! { name => name }) {
                Ok(out) => classify_text(&out, form == "inclist" || form == "incim"),
                Err(e) => classify_err(&e),
            }
        }
    });
    match r {
        Ok(r) => r,
        Err(m) => format!("panic:{}", pct(m.as_bytes())),
    }
}

struct Loaders {
    /// one environment per (variant, form) so that no form is answered from another one's cache
    envs: Vec<(String, PathBuf, Vec<Environment<'static>>)>,
}

fn make_loaders(t: &Tree) -> Loaders {
    let mut envs = vec![];
    for (vname, base) in variants(t) {
        let per_form = FORMS.iter().map(|(form, _)| make_env(&base, form)).collect();
        envs.push((vname.to_string(), base, per_form));
    }
    Loaders { envs }
}

fn run_ld(l: &Loaders, variant: &str, name: &str, all_forms: bool) -> String {
    let Some((_, base, envs)) = l.envs.iter().find(|x| x.0 == variant) else {
        return "bad-case".into();
    };
    let via = match guarded(|| safe_join(base, name)) {
        Ok(Some(p)) if fs::metadata(&p).map(|m| m.is_file()).unwrap_or(false) => match fs::canonicalize(&p) {
            Ok(c) => tilde(c.as_os_str().as_bytes()),
            Err(_) => "-".into(),
        },
        _ => "-".into(),
    };
    // what `fs::read_to_string` answers at the path the hook designates, asked by the harness
    // itself: `-` NotFound (or no path), `!` another error, `+` content
    let disk = match guarded(|| safe_join(base, name)) {
        Ok(Some(p)) => match disk_answer(&p).as_str() {
            "-" => "-",
            "!" => "!",
            _ => "+",
        },
        _ => "-",
    };
    let mut parts = vec![format!("v:{}", via), format!("d={}", disk)];
    for (i, (form, src)) in FORMS.iter().enumerate() {
        if i < CORE_FORMS || all_forms {
            parts.push(format!("{}={}", form, run_form(&envs[i], form, src, name)));
        }
    }
    parts.join(";")
}

/// `Environment::templates()` of the `get` environments: `tl <variant> <name>\t<markers>`
fn run_tl(l: &Loaders, out: &mut dyn Write) {
    for (vname, _, envs) in &l.envs {
        let mut rows: Vec<(String, String)> =
            envs[0].templates().map(|(n, t)| (pct(n.as_bytes()), classify_text(t.source(), false))).collect();
        rows.sort();
        for (n, r) in rows {
            writeln!(out, "tl {} {}\t{}", vname, n, r).unwrap();
        }
    }
}

// ------------------------------------------------------------------------------------ routes
//
// `rt <variant> <form> <name>\t<names the loader closure was called with, in order>\t<result>\t
//      <candidate store name>,<hook path>,<disk answer - ! +> …`
//
// A FRESH environment per request whose loader is the real `path_loader(base)` wrapped in a
// recorder: which names reach the loader closure, over which route, is compared with the Lean
// model of the routes (`Engine.loaderCalls`, `MJ/Model/PathRoutes.lean`).

fn run_rt(base: &Path, form_idx: usize, name: &str) -> String {
    let (form, src) = FORMS[form_idx];
    let rec: std::sync::Arc<std::sync::Mutex<Vec<String>>> = Default::default();
    let rec2 = rec.clone();
    let inner = path_loader(base);
    let env = make_env_with(
        move |n: &str| {
            rec2.lock().unwrap().push(pct(n.as_bytes()));
            inner(n)
        },
        form,
    );
    let r = run_form(&env, form, src, name);
    let calls = rec.lock().unwrap().join(",");
    let mut cands: Vec<String> = vec![name.to_string(), "inc".into(), "mj17-nope".into()];
    if form == "joincb" {
        cands.push(doc_join(name, CB_PARENT));
    }
    // `<name>,<hook path>,<- | ! | +>`: the comma is the one printable character `pct` always encodes
    let d: Vec<String> = cands
        .iter()
        .map(|c| match guarded(|| safe_join(base, c)) {
            Ok(Some(p)) => {
                let cls = match disk_answer(&p).as_str() {
                    "-" => "-",
                    "!" => "!",
                    _ => "+",
                };
                format!("{},{},{}", pct(c.as_bytes()), pct(p.as_os_str().as_bytes()), cls)
            }
            _ => format!("{},,-", pct(c.as_bytes())),
        })
        .collect();
    format!("{}\t{}\t{}", calls, r, d.join(" "))
}

// ------------------------------------------------------------------------------------ lifecycle
//
// The loader is a value with a life: it is constructed at one moment and asked at later ones, and
// the disk and the working directory change in between.  `lc` lines:
//
//   #lcbase <scenario> <spelling> <configured base>
//   lc <scenario> <phase> <spelling> <name>\tcwd=<dir>;bc=<canonical base at construction|->;
//        bl=<canonical base now|->;v=<hook path>|<disk>;vj=<joined name>|<hook path>|<disk>;
//        vi=<hook path>|<disk> of `inc`;vn=<hook path>|<disk> of `mj17-nope`;<form>=<r>;…
//   lct <scenario> <phase> <spelling>\t<name>=<r>;…          (Environment::templates of the `get` env)
//
// `<disk>` = what `fs::read_to_string(hook path)` answers at that moment, asked by the harness
// itself: `-` NotFound, `!` another error, else the markers of the content.

const LC_SCENARIOS: [(&str, &[&str]); 12] = [
    // the configured base is a regular FILE (nothing is beneath a file) …
    ("base-is-file", &["cd L", "mkfile", "build", "load"]),
    // … that is later replaced by a directory
    ("file-then-dir", &["cd L", "mkfile", "build", "load", "rmfile", "mk", "load"]),
    ("clear", &["cd L", "mk", "build", "load", "rm", "clear", "load", "mk", "load"]),
    ("exists", &["cd L", "mk", "build", "load"]),
    ("created-after", &["cd L", "build", "load", "mk", "load"]),
    ("absent", &["cd L", "build", "load"]),
    ("rm-recreate", &["cd L", "mk", "build", "load", "rm", "load", "mk", "load"]),
    ("removed", &["cd L", "mk", "build", "rm", "load"]),
    ("chdir", &["cd L", "mk", "build", "load", "cd other", "load", "cd L", "load"]),
    ("chdir-late", &["cd other2", "mk", "build", "load", "cd L", "load"]),
    ("chdir-created", &["cd other2", "build", "cd L", "mk", "load", "cd other", "load"]),
    ("empty", &["mk", "cd T", "build", "load", "cd L", "load"]),
];

const LC_SPELLINGS: [(&str, &str); 10] = [
    ("abs-enddd", "{L}/site/templates/sub/.."),
    ("abs//", "//{L}/site/templates"),
    // a symbolic link TO the base (the owner's configuration, not a link inside the base)
    ("symlink", "{L}/tlink"),
    ("abs", "{L}/site/templates"),
    ("abs/", "{L}/site/templates/"),
    ("abs/.", "{L}/site/templates/."),
    ("abs-dd", "{L}/site/../site/templates"),
    ("rel", "site/templates"),
    ("./rel/", "./site/templates/"),
    ("rel-dd", "site/../site/templates"),
];
const LC_EMPTY_SPELLINGS: [(&str, &str); 2] = [("empty", ""), ("dot", ".")];

/// files a working directory of the process holds (all of them outside every base, except that
/// in the `empty` scenario the working directory IS the base)
const CWD_FILES: [&str; 9] = [
    "only_cwd.txt", "a.", "a/a.", "index.txt", "etc/passwd", "secret.txt", "site/secret.txt", "site/only_site.txt", "inc",
];
const BASE_FILES: [&str; 5] = ["a.", "a/a.", "index.txt", "only_inside.txt", "sub/deep/x.txt"];

fn lc_write(path: &Path, kind: char) {
    fs::create_dir_all(path.parent().unwrap()).unwrap();
    let m = marker(kind, path);
    fs::write(path, format!("{m}{{% set tag = \"{m}\" %}}")).unwrap();
}

fn lc_mk_base(base: &Path) {
    for f in BASE_FILES {
        lc_write(&base.join(f), 'B');
    }
    fs::write(base.join("inc"), "{% include name %}").unwrap();
}

fn lc_names(l: &Path, root: &Path) -> Vec<String> {
    let mut v: Vec<String> = [
        // beneath the base
        "a.", "a/a.", "index.txt", "/a.", "a//a.", "only_inside.txt", "sub/deep/x.txt", "deep/x.txt", "x.txt",
        // relative to a working directory / to directories above the base
        "only_cwd.txt", "/only_cwd.txt", "etc/passwd", "/etc/passwd", "secret.txt", "site/secret.txt",
        "site/only_site.txt", "only_site.txt", "site/templates/a.", "templates/a.", "site/templates/only_inside.txt",
        "other/only_cwd.txt", "only_other.txt", "only_lc.txt", "only_outside.txt", "only_root.txt",
        // classic
        "../only_site.txt", "../secret.txt", "..", ".", "a/../../only_site.txt", "", "/", "a", "a/", "a./", "nope.txt",
    ]
    .iter()
    .map(|s| s.to_string())
    .collect();
    for abs in [l.join("only_cwd.txt"), l.join("site").join("secret.txt"), root.join("only_root.txt"), l.join("site/templates/a.")] {
        let a = abs.to_str().unwrap().to_string();
        v.push(format!("/{a}"));
        v.push(a);
    }
    v
}

fn disk_answer(p: &Path) -> String {
    match fs::read_to_string(p) {
        Ok(text) => {
            let ms = markers(&text);
            if ms.is_empty() {
                "?".into()
            } else {
                ms.join("+")
            }
        }
        Err(e) if e.kind() == std::io::ErrorKind::NotFound => "-".into(),
        Err(_) => "!".into(),
    }
}

fn hook_and_disk(base: &Path, name: &str) -> String {
    match guarded(|| safe_join(base, name)) {
        Ok(Some(p)) => format!("{}|{}", pct(p.as_os_str().as_bytes()), disk_answer(&p)),
        _ => "|".into(),
    }
}

fn canon_or_dash(cwd_relative: &Path) -> String {
    let p = if cwd_relative.as_os_str().is_empty() { Path::new(".") } else { cwd_relative };
    // only a DIRECTORY has something beneath it
    match fs::canonicalize(p) {
        Ok(c) if c.is_dir() => tilde(c.as_os_str().as_bytes()),
        _ => "-".into(),
    }
}

fn run_lifecycle(t: &Tree, out: &mut dyn Write, only: Option<(&str, &str, &str)>) {
    use minijinja_autoreload::AutoReloader;
    let l = t.root.join("lc");
    let names = lc_names(&l, &t.root);
    for (scn, ops) in LC_SCENARIOS {
        let spellings: &[(&str, &str)] = if scn == "empty" { &LC_EMPTY_SPELLINGS } else { &LC_SPELLINGS };
        for (sp, pat) in spellings {
            if let Some((s, p, _)) = only {
                if s != scn || p != *sp {
                    continue;
                }
            }
            // a fresh disk: canaries in every directory the process will ever stand in or above
            std::env::set_current_dir(&t.root).unwrap();
            let _ = fs::remove_dir_all(&l);
            for dir in [l.clone(), l.join("other"), l.join("other2"), l.join("site")] {
                for f in CWD_FILES {
                    lc_write(&dir.join(f), 'C');
                }
            }
            lc_write(&l.join("only_lc.txt"), 'C');
            let _ = std::os::unix::fs::symlink(l.join("site").join("templates"), l.join("tlink"));
            lc_write(&l.join("other").join("only_other.txt"), 'C');
            // seen from `other`, the relative spellings of the base name this directory
            lc_mk_base(&l.join("other").join("site").join("templates"));
            let abs_base = l.join("site").join("templates");
            let base_str = pat.replace("{L}", l.to_str().unwrap());
            let base = PathBuf::from(&base_str);
            writeln!(out, "#lcbase {} {} {}", scn, sp, pct(base_str.as_bytes())).unwrap();
            let mut envs: Vec<Environment<'static>> = vec![];
            let mut reloaders: Vec<AutoReloader> = vec![];
            let mut bc = "-".to_string();
            let mut phase = 0;
            for op in ops.iter() {
                match *op {
                    "cd L" => std::env::set_current_dir(&l).unwrap(),
                    "cd other" => std::env::set_current_dir(l.join("other")).unwrap(),
                    "cd other2" => std::env::set_current_dir(l.join("other2")).unwrap(),
                    "cd T" => std::env::set_current_dir(&abs_base).unwrap(),
                    "mk" => lc_mk_base(&abs_base),
                    "mkfile" => lc_write(&abs_base, 'C'),
                    "rmfile" => fs::remove_file(&abs_base).unwrap(),
                    "rm" => fs::remove_dir_all(&abs_base).unwrap(),
                    "clear" => {
                        // `Environment::clear_templates`; the reloaders rebuild their environment instead
                        envs.iter_mut().for_each(|e| e.clear_templates());
                        reloaders.iter().for_each(|r| r.notifier().request_reload());
                        writeln!(out, "lcclear {} {} {}\t-", scn, phase + 1, sp).unwrap();
                    }
                    "build" => {
                        bc = canon_or_dash(&base);
                        envs = FORMS.iter().map(|(form, _)| make_env(&base, form)).collect();
                        for _ in 0..2 {
                            let b = base.clone();
                            let r = AutoReloader::new(move |_| Ok(make_env(&b, "get")));
                            let _ = r.acquire_env().map(|_| ()); // the environment (and its loader) exists from now on
                            reloaders.push(r);
                        }
                    }
                    "load" => {
                        phase += 1;
                        // the second reloader is told to rebuild its environment before every phase
                        reloaders[1].notifier().request_reload();
                        let cwd = tilde(std::env::current_dir().unwrap().as_os_str().as_bytes());
                        let bl = canon_or_dash(&base);
                        for name in &names {
                            if let Some((_, _, n)) = only {
                                if n != name {
                                    continue;
                                }
                            }
                            let joined = doc_join(name, CB_PARENT);
                            let mut parts = vec![
                                format!("cwd={}", cwd),
                                format!("bc={}", bc),
                                format!("bl={}", bl),
                                format!("v={}", hook_and_disk(&base, name)),
                                format!("vj={}|{}", pct(joined.as_bytes()), hook_and_disk(&base, &joined)),
                                // the helper names two forms look up BEFORE the name: `inc` (nested), `mj17-nope` (inclist2)
                                format!("vi={}", hook_and_disk(&base, "inc")),
                                format!("vn={}", hook_and_disk(&base, "mj17-nope")),
                            ];
                            for (i, (form, src)) in FORMS.iter().enumerate() {
                                parts.push(format!("{}={}", form, run_form(&envs[i], form, src, name)));
                            }
                            for (i, form) in ["ar", "arr"].iter().enumerate() {
                                let r = match guarded(|| match reloaders[i].acquire_env() {
                                    Ok(env) => run_form(&env, "get", "", name),
                                    Err(e) => classify_err(&e),
                                }) {
                                    Ok(r) => r,
                                    Err(m) => format!("panic:{}", pct(m.as_bytes())),
                                };
                                parts.push(format!("{}={}", form, r));
                            }
                            writeln!(out, "lc {} {} {} {}\t{}", scn, phase, sp, pct(name.as_bytes()), parts.join(";")).unwrap();
                        }
                        let mut rows: Vec<String> = envs[0]
                            .templates()
                            .map(|(n, t)| format!("{}={}", pct(n.as_bytes()), classify_text(t.source(), false)))
                            .collect();
                        rows.sort();
                        writeln!(out, "lct {} {} {}\t{}", scn, phase, sp, rows.join(";")).unwrap();
                    }
                    _ => unreachable!(),
                }
            }
        }
    }
    std::env::set_current_dir(&t.p4).unwrap();
}

// ------------------------------------------------------------------------------------ names

fn noise_name(rng: &mut Rng) -> String {
    const POOL: [&str; 24] = [
        "/", "/", "/", ".", ".", "..", "\\", "a", "b", "a.", "\0", "%", "2e", "%2f", "%5c", "\u{2024}", "\u{FF0E}",
        "\u{2215}", "\u{FF0F}", " ", "\t", "\n", "~", ":",
    ];
    let n = rng.below(12);
    if rng.chance(1, 3) {
        // raw bytes, made valid UTF-8 the lossy way (names are `&str`)
        let bytes: Vec<u8> = (0..n * 2)
            .map(|_| if rng.chance(1, 3) { *rng.pick(b"/.\\\0a%") } else { rng.below(256) as u8 })
            .collect();
        String::from_utf8_lossy(&bytes).into_owned()
    } else {
        let mut s = String::new();
        for _ in 0..n {
            if rng.chance(1, 12) {
                s.push(char::from_u32(rng.below(0x11_0000) as u32).unwrap_or('\u{FFFD}'));
            } else {
                s.push_str(*rng.pick(&POOL[..]));
            }
        }
        s
    }
}


// ------------------------------------------------------------------------------------ disguises
//
// A check/use mismatch (the filter looks at one spelling, the file system gets another: trimmed,
// decoded, folded, NUL-stripped, truncated, re-split …) needs a name that LOOKS harmless to the
// filter and becomes an escaping spelling after the clean-up.  The generator does not guess the
// clean-up: it takes escaping spellings whose target canary exists (`kernels`) and applies every
// disguise of a family of inverse clean-ups (pads, encodings, look-alikes, prefixes, suffixes).

/// escaping spellings whose target exists as a canary (relative to `p4/base`, or absolute)
fn kernels(t: &Tree) -> Vec<String> {
    let mut v: Vec<String> = [
        "../a.", "../a/a.", "../../a.", "a/../../a.", "a/a/../../../a.", "../only_outside.txt", "../onlyoutside",
        "a/../../onlyoutside", "../outside_dir/x.txt", "../sibling/only_sibling.txt",
    ]
    .iter()
    .map(|s| s.to_string())
    .collect();
    v.push(t.p4.join("a.").to_str().unwrap().to_string());
    v.push(t.p4.join("onlyoutside").to_str().unwrap().to_string());
    v
}

/// blanks, controls, NUL, zero-width and format characters a clean-up may strip
const PADS: [&str; 14] = [
    " ", "\t", "\n", "\r", "\u{a0}", "\u{3000}", "\u{200b}", "\u{feff}", "\u{ad}", "\0", "\u{7f}", "\u{1}", "\u{200e}", "\u{2060}",
];
/// spellings a clean-up may turn into `.`
const DOTS: [&str; 9] = ["%2e", "%2E", "%252e", "\u{2024}", "\u{FF0E}", "\u{FE52}", "\u{3002}", "&#46;", "\\."];
/// spellings a clean-up may turn into `..`
const DOTDOTS: [&str; 4] = ["\u{2025}", "%2e.", ".%2e", "\u{FF0E}."];
/// spellings a clean-up may turn into a separator
const SLASHES: [&str; 16] = [
    "\\", "%2f", "%2F", "%5c", "%5C", "%252f", "\u{2215}", "\u{FF0F}", "\u{2044}", "\u{29F8}", "\u{FF3C}", "\u{2216}", ":", ";", "|", "\\\\",
];
const PREFIXES: [&str; 15] = [
    "C:", "c:/", "C:\\", "file://", "file:", "//", "\\\\?\\", "\\\\", "~/", "./", "%00", "\0", " ", "http://x/", "a/",
];
const TAILS: [&str; 11] = ["\0", "\0.txt", "%00", " ", ".", "/", "/.", "?x", "#x", ";x", "::$DATA"];

fn map_dotdot(k: &str, f: &dyn Fn(&str) -> String) -> String {
    k.split('/').map(|s| if s == ".." { f(s) } else { s.to_string() }).collect::<Vec<_>>().join("/")
}

fn disguised(t: &Tree) -> Vec<String> {
    let mut v: Vec<String> = vec![];
    for k in kernels(t) {
        // a short token in front of every `..` that a clean-up may cut off (drive, scheme, marker)
        for x in ["C:", "x:", "file:", "~", "@", "%00", "+", "-"] {
            v.push(map_dotdot(&k, &|s| format!("{x}{s}")));
        }
        for x in PADS {
            v.push(map_dotdot(&k, &|s| format!("{x}{s}")));
            v.push(map_dotdot(&k, &|s| format!("{s}{x}")));
            v.push(map_dotdot(&k, &|_| format!(".{x}.")));
            v.push(format!("{x}{k}"));
            v.push(format!("{k}{x}"));
            v.push(k.split('/').map(|s| format!("{x}{s}")).collect::<Vec<_>>().join("/"));
        }
        for d in DOTS {
            v.push(map_dotdot(&k, &|_| format!("{d}{d}")));
            v.push(map_dotdot(&k, &|_| format!(".{d}")));
            v.push(map_dotdot(&k, &|_| format!("{d}.")));
        }
        for d in DOTDOTS {
            v.push(map_dotdot(&k, &|_| d.to_string()));
        }
        if k.starts_with("a/") {
            for s in SLASHES {
                v.push(k.replace('/', s));
                v.push(format!("a/{}", k[2..].replace('/', s)));
                v.push(format!("a/x{s}../{}", &k[2..]));
            }
            for (d, s) in [("%2e", "%2f"), ("\u{FF0E}", "\u{FF0F}"), ("%2E", "%5C"), ("\u{2024}", "\u{2215}"), ("%252e", "%252f")] {
                v.push(k.replace("..", &format!("{d}{d}")).replace('/', s));
            }
        }
        for x in PREFIXES {
            v.push(format!("{x}{k}"));
        }
        for x in TAILS {
            v.push(format!("{k}{x}"));
        }
    }
    v
}

/// the same escaping spellings in shapes a fast path or a limit may single out: very long (by
/// repeated separators, by `a/../` round trips), very deep, beyond NAME_MAX / PATH_MAX
fn shaped(t: &Tree) -> Vec<String> {
    let mut v: Vec<String> = vec![];
    for k in kernels(t) {
        v.push(k.replace('/', &"/".repeat(300)));
        v.push(format!("{}{}", "/".repeat(1200), k));
        v.push(format!("{}{}", "a/../".repeat(60), k));
        v.push(format!("{}{}", "a/../".repeat(250), k));
        v.push(format!("{}{}", "a//".repeat(3), k));
    }
    for j in [6usize, 9, 17, 33, 65, 130, 260] {
        v.push(format!("{}a/../../a.", "/".repeat(j)));
        v.push(format!("{}a/../../onlyoutside", "/".repeat(j)));
    }
    v.push(format!("{}{}a.", "a/".repeat(4), "../".repeat(5)));
    v.push(format!("{}{}onlyoutside", "a/".repeat(3), "../".repeat(4)));
    v.push("a".repeat(5000));
    v.push("a/".repeat(2500));
    v.push(format!("{}a.", "../".repeat(2000)));
    v.push(format!("{}/a.", "a".repeat(255)));
    v.push(format!("a/{}", "a.".repeat(200)));
    v
}

/// ESCAPES AT EVERY DEPTH (generalises the seeded change C17-6 and the own mutants m13 / m21-m23):
/// names of 2..=41 segments in which the escaping piece sits at EVERY position, so that a filter
/// that looks at a window of the pieces only (the first K: `splitn`, `take`, `enumerate` + limit;
/// all but the first K: `skip`; the last K: `rsplitn`) lets one of them through, whatever K is.
/// The pieces around the `..` are empty segments (they resolve wherever the path is) and — in the
/// second family — up to four real directories `a` (they exist beneath the base) matched by as
/// many extra `..`; the third family puts an ABSOLUTE canary path behind i leading pieces (the
/// unfiltered remainder of a limited split starts with `/` and replaces the base when pushed).
fn deep(t: &Tree) -> Vec<String> {
    let mut v: Vec<String> = vec![];
    let tails = ["a.", "onlyoutside", "only_outside.txt", "sibling/only_sibling.txt"];
    for n in 2usize..=41 {
        for i in 0..n - 1 {
            // family 1: empties, one `..`, empties, the canary's name (`base//..///a.` = `p4/a.`)
            let tail = tails[(n + i) % tails.len()];
            let mut segs = vec![""; n];
            segs[i] = "..";
            segs[n - 1] = tail;
            v.push(segs.join("/"));
            // family 2: d real directories among the pieces before position i, d+1 `..` from i on
            let d = 1 + (n + 2 * i) % 4;
            if i >= d && i + d + 1 < n {
                let mut segs = vec![""; n];
                for j in 0..d {
                    // spread the directories over the pieces in front of the escape
                    segs[j * i / d] = "a";
                }
                for j in 0..=d {
                    segs[i + j] = "..";
                }
                segs[n - 1] = tail;
                v.push(segs.join("/"));
            }
        }
    }
    // family 3: i pieces (empty / real directories), then an absolute canary path
    for abs in [t.p4.join("a."), t.p4.join("onlyoutside"), t.root.join("a.")] {
        let abs = abs.to_str().unwrap().to_string();
        for i in 0usize..=41 {
            v.push(format!("{}{}", "/".repeat(i), abs));
            v.push(format!("{}{}{}", "a/".repeat(i.min(4)), "/".repeat(i.saturating_sub(4)), abs));
            v.push(format!("x{}{}", "/".repeat(i), abs));
        }
    }
    v
}

/// Windows spellings as plain data on this platform: device names, drive prefixes, UNC / verbatim
/// / device-namespace prefixes, alternate data streams, trailing dots and blanks, short names
const WINDOWS_DATA: [&str; 44] = [
    "CON", "NUL", "nul", "COM1", "LPT1", "AUX", "PRN", "CON.txt", "NUL/a.", "a/NUL", "C:", "C:a.", "C:/a.", "C:\\a.", "c:a/a.",
    "C:..", "C:../a.", "C:/../a.", "C:..\\a.", "D:", "D:x/y", "\\\\?\\C:\\a.", "//?/C:/a.", "\\\\.\\C:\\a.", "//./C:/a.",
    "\\\\server\\share\\a.", "//server/share/a.", "a.:stream", "a.::$DATA", "a:b", "a. ", "a..", "a. . .", "A.", "a~1",
    "PROGRA~1/a.", "a/C:/a.", "a/C:../../a.", "C:onlyoutside", "C:/onlyoutside", "CONIN$", "a/..:/a.", "..:", "C:.",
];

fn targeted(t: &Tree) -> Vec<String> {
    let mut v: Vec<String> = vec![];
    let canaries = [
        t.p4.join("a."),
        t.p4.join("a").join("a."),
        t.p4.parent().unwrap().join("a."),
        t.root.join("a."),
        t.p4.join("base").join("..").join("a."),
    ];
    for c in canaries {
        let c = c.to_str().unwrap().to_string();
        v.push(c.clone());
        v.push(format!("/{c}"));
        v.push(format!("//{c}"));
        v.push(format!("a/{c}"));
        v.push(c.replace('/', "\\"));
        v.push(format!("file://{c}"));
    }
    // every canary file requested by its file name and by its name relative to each of the
    // directories above it inside the scratch tree (plain, rooted, doubled and trailing slashes)
    let mut rels: Vec<String> = vec![];
    v.extend(decorated_requests(t));
    for c in &t.canaries {
        let mut cands = vec![c.file_name().unwrap().to_str().unwrap().to_string()];
        for d in &t.chain {
            if let Ok(r) = c.strip_prefix(d) {
                cands.push(r.to_str().unwrap().to_string());
            }
        }
        for r in cands {
            if !rels.contains(&r) {
                rels.push(r);
            }
        }
    }
    for r in rels.iter().filter(|r| !r.contains('/')) {
        // every canary's file name as an escaping spelling
        v.push(format!("../{r}"));
        v.push(format!("a/../../{r}"));
    }
    for r in rels {
        v.push(format!("/{r}"));
        v.push(format!("{r}/"));
        v.push(r.replace('/', "//"));
        v.push(format!("a/{r}"));
        v.push(format!("a/a/{r}"));
        v.push(r);
    }
    for s in [
        "../a.", "../a/a.", "..\\a.", "../../a.", "a/../../a.", "./../a.", "%2e%2e/a.", "..%2fa.", "%2e%2e%2fa.",
        "\u{2024}\u{2024}/a.", "\u{FF0E}\u{FF0E}/a.", "..//a.", "..\0/a.", "../a.\0", "a./../../a.", "/../a.",
        "....//a.", ".../a.", "..;/a.", " ../a.", ".. /a.", "..\u{2215}a.", "..\u{FF0F}a.", "a/..", "..", ".",
        "a/.", "a/a/a/a/a.", "a/a.", "a.", "a//a.", "a/a./", "/a.", "a", "a/", "", "/", ".a", "a/.a", ".../a.",
        "a/.../a.", "\u{FF0E}\u{FF0E}/a.",
    ] {
        v.push(s.to_string());
    }
    v.extend(disguised(t));
    v.extend(shaped(t));
    v.extend(deep(t));
    v.extend(WINDOWS_DATA.iter().map(|s| s.to_string()));
    v
}

fn main() {
    quiet_panics();
    let args: Vec<String> = std::env::args().collect();
    let out = std::io::stdout();
    let mut out = std::io::BufWriter::new(out.lock());
    match args.get(1).map(|s| s.as_str()) {
        Some("gen") => {
            let thorough = args.get(2).map(|s| s == "thorough").unwrap_or(false);
            let k: u64 = args.get(3).and_then(|s| s.parse().ok()).unwrap_or(0);
            let n: u64 = args.get(4).and_then(|s| s.parse().ok()).unwrap_or(1);
            let mut rng = Rng::new(seed_from_env());
            let t = build_tree();
            let l = make_loaders(&t);
            let vs = variants(&t);
            writeln!(out, "#tree {}", pct(t.root.as_os_str().as_bytes())).unwrap();
            for (vn, b) in &vs {
                writeln!(out, "#base {} {}", vn, pct(b.as_os_str().as_bytes())).unwrap();
            }
            let alpha = alphabet();
            let a = alpha.len();
            let mut idx: u64 = 0;
            let emit = |out: &mut dyn Write, name: &str, idx: u64, all_forms: bool| {
                if idx % n != k {
                    return;
                }
                // the primary spelling of the base for every name …
                let abs = vs[0].1.as_os_str().as_bytes();
                writeln!(out, "sj {} {}\t{}", pct(abs), pct(name.as_bytes()), run_sj(abs, name)).unwrap();
                writeln!(out, "ld abs {}\t{}", pct(name.as_bytes()), run_ld(&l, "abs", name, all_forms)).unwrap();
                // … and one more, rotating over the other spellings and the disk-free bases
                let r = ((idx / n) % 12) as usize;
                if r < 4 {
                    let (vn, b) = &vs[r + 1];
                    let b = b.as_os_str().as_bytes();
                    writeln!(out, "sj {} {}\t{}", pct(b), pct(name.as_bytes()), run_sj(b, name)).unwrap();
                    writeln!(out, "ld {} {}\t{}", vn, pct(name.as_bytes()), run_ld(&l, vn, name, all_forms)).unwrap();
                } else {
                    let b = PURE_BASES[r - 4].as_bytes();
                    writeln!(out, "sj {} {}\t{}", pct(b), pct(name.as_bytes()), run_sj(b, name)).unwrap();
                }
            };
            let full_len = if thorough { 5 } else { 4 };
            for len in 1..=full_len {
                let total = (a as u64).pow(len as u32);
                for code in 0..total {
                    let mut c = code;
                    let mut segs = vec![""; len];
                    for j in (0..len).rev() {
                        segs[j] = alpha[(c % a as u64) as usize].as_str();
                        c /= a as u64;
                    }
                    emit(&mut out, &segs.join("/"), idx, false);
                    idx += 1;
                }
            }
            if !thorough {
                for _ in 0..20000 {
                    let segs: Vec<&str> = (0..5).map(|_| rng.pick(&alpha).as_str()).collect();
                    emit(&mut out, &segs.join("/"), idx, false);
                    idx += 1;
                }
            }
            for name in targeted(&t) {
                emit(&mut out, &name, idx, true);
                idx += 1;
            }
            let noise = if thorough { 200000 } else { 20000 };
            for _ in 0..noise {
                let name = noise_name(&mut rng);
                emit(&mut out, &name, idx, true);
                idx += 1;
            }
            if k == 0 {
                run_tl(&l, &mut out);
                run_lifecycle(&t, &mut out, None);
                // the routes: every form for every targeted name, 1..2-segment alphabet names and noise,
                // the two spellings of the base in rotation
                let mut names: Vec<String> = targeted(&t);
                names.extend(lc_names(&t.root.join("lc"), &t.root));
                for x in &alpha {
                    names.push(x.clone());
                    for y in &alpha {
                        names.push(format!("{x}/{y}"));
                    }
                }
                for _ in 0..(if thorough { 5000 } else { 500 }) {
                    names.push(noise_name(&mut rng));
                }
                let mut seen = std::collections::BTreeSet::new();
                names.retain(|n| seen.insert(n.clone()));
                for (i, name) in names.iter().enumerate() {
                    let (vn, b) = &vs[if i % 2 == 0 { 0 } else { 2 }];
                    for fi in 0..FORMS.len() {
                        // the first 1000 (thorough: 6000) names over every form, the others over one
                        // form in rotation
                        if i >= (if thorough { 6000 } else { 1000 }) && (i + fi) % FORMS.len() != 0 {
                            continue;
                        }
                        writeln!(out, "rt {} {} {}\t{}", vn, FORMS[fi].0, pct(name.as_bytes()), run_rt(b, fi, name)).unwrap();
                    }
                }
            }
            if k == 0 {
                // the std functions the model transcribes, outside the region `safe_join` reaches
                for _ in 0..(if thorough { 40000 } else { 8000 }) {
                    let p = noise_name(&mut rng);
                    let s = noise_name(&mut rng);
                    writeln!(out, "push {} {}\t{}", pct(p.as_bytes()), pct(s.as_bytes()), run_push(p.as_bytes(), s.as_bytes()))
                        .unwrap();
                    writeln!(out, "comps {}\t{}", pct(p.as_bytes()), describe(Path::new(&p))).unwrap();
                }
            }
        }
        Some("trace") => {
            // Run under `strace -f -xx -e trace=file`: every request is bracketed by two probes of
            // sentinel paths (`/MJ17-B/<i>`, `/MJ17-E/<i>`), so the file-system calls the loader
            // makes for request i can be read off the trace.  stdout: `tr <variant> <name>\t<i> <hook path>`.
            let thorough = args.get(2).map(|s| s == "thorough").unwrap_or(false);
            let mut rng = Rng::new(seed_from_env());
            let t = build_tree();
            let vs = variants(&t);
            writeln!(out, "#tree {}", pct(t.root.as_os_str().as_bytes())).unwrap();
            for (vn, b) in &vs {
                writeln!(out, "#base {} {}", vn, pct(b.as_os_str().as_bytes())).unwrap();
            }
            let alpha = alphabet();
            let mut names: Vec<String> = targeted(&t);
            names.extend(lc_names(&t.root.join("lc"), &t.root));
            for len in 1..=(if thorough { 3 } else { 2 }) {
                let total = alpha.len().pow(len as u32);
                for code in 0..total {
                    let mut c = code;
                    let mut segs = vec![""; len];
                    for j in (0..len).rev() {
                        segs[j] = alpha[c % alpha.len()].as_str();
                        c /= alpha.len();
                    }
                    names.push(segs.join("/"));
                }
            }
            for _ in 0..(if thorough { 5000 } else { 500 }) {
                names.push(noise_name(&mut rng));
            }
            let mut seen = std::collections::BTreeSet::new();
            names.retain(|n| seen.insert(n.clone()));
            // the loader closure itself over the absolute spelling; over the relative spelling every
            // route by which a name reaches the loader, in rotation (stdout: `tr <variant> <form> <name>`)
            let direct = path_loader(&vs[0].1);
            let envs: Vec<Environment<'static>> = FORMS.iter().map(|(form, _)| make_env(&vs[2].1, form)).collect();
            // the helper template of the `nested` form is loaded before the first bracket
            for env in &envs {
                let _ = env.get_template("inc");
            }
            let mut found_cb = std::collections::BTreeSet::new();
            out.flush().unwrap();
            for (i, name) in names.iter().enumerate() {
                for (vi, vn) in [(0usize, "abs"), (2usize, "rel")] {
                    let idx = i * 2 + (vi / 2);
                    let fi = i % FORMS.len();
                    let (form, src) = if vi == 0 { ("direct", "") } else { FORMS[fi] };
                    // the name the loader is asked for (the join callback rewrites it)
                    let asked = if form == "joincb" { doc_join(name, CB_PARENT) } else { name.clone() };
                    // a joined name that was found before is answered from the store (no file-system call)
                    let stored = form == "joincb" && found_cb.contains(&asked);
                    let hook = match guarded(|| safe_join(&vs[vi].1, &asked)) {
                        Ok(Some(p)) if !stored => format!("+{}", pct(p.as_os_str().as_bytes())),
                        _ => "-".into(),
                    };
                    let _ = fs::metadata(format!("/MJ17-B/{idx}"));
                    let r = guarded(|| {
                        if vi == 0 {
                            match direct(name) {
                                Ok(Some(text)) => classify_text(&text, false),
                                Ok(None) => "nf".into(),
                                Err(e) => classify_err(&e),
                            }
                        } else {
                            run_form(&envs[fi], form, src, name)
                        }
                    });
                    let _ = fs::metadata(format!("/MJ17-E/{idx}"));
                    let r = r.unwrap_or_else(|m| format!("panic:{}", pct(m.as_bytes())));
                    if form == "joincb" && r.starts_with("f:") {
                        found_cb.insert(asked);
                    }
                    writeln!(out, "tr {} {} {}\t{} {} {}", vn, form, pct(name.as_bytes()), idx, hook, r).unwrap();
                }
            }
        }
        Some("bases") => {
            let t = build_tree();
            writeln!(out, "#tree {}", pct(t.root.as_os_str().as_bytes())).unwrap();
            for (vn, b) in variants(&t) {
                writeln!(out, "#base {} {}", vn, pct(b.as_os_str().as_bytes())).unwrap();
            }
        }
        Some("one") => {
            let f: Vec<&str> = args[2..].iter().map(|s| s.as_str()).collect();
            let arg = |i: usize| unpct(f.get(i).copied().unwrap_or(""));
            let r = match f.first().copied() {
                Some("sj") => run_sj(&arg(1), &String::from_utf8(arg(2)).unwrap()),
                Some("push") => run_push(&arg(1), &arg(2)),
                Some("comps") => describe(Path::new(OsStr::from_bytes(&arg(1)))),
                Some("lc") => {
                    // lc <scenario> <phase> <spelling> <name>: the whole scenario is replayed for that name
                    let t = build_tree();
                    let name = String::from_utf8(arg(4)).unwrap();
                    let mut buf: Vec<u8> = vec![];
                    run_lifecycle(&t, &mut buf, Some((f[1], f[3], &name)));
                    let text = String::from_utf8_lossy(&buf).into_owned();
                    let want = format!("lc {} {} {} ", f[1], f[2], f[3]);
                    text.lines()
                        .find(|l| l.starts_with(&want))
                        .and_then(|l| l.split_once('\t').map(|x| x.1.to_string()))
                        .unwrap_or_else(|| "bad-case".into())
                }
                Some("rt") => {
                    let t = build_tree();
                    let vs = variants(&t);
                    let fi = FORMS.iter().position(|x| x.0 == f[2]).unwrap_or(0);
                    let b = vs.iter().find(|x| x.0 == f[1]).map(|x| x.1.clone()).unwrap_or_else(|| vs[0].1.clone());
                    run_rt(&b, fi, &String::from_utf8(arg(3)).unwrap())
                }
                Some("ld") => {
                    let t = build_tree();
                    let l = make_loaders(&t);
                    run_ld(&l, f[1], &String::from_utf8(arg(2)).unwrap(), true)
                }
                _ => "bad-case".into(),
            };
            writeln!(out, "{}\t{}", f.join(" "), r).unwrap();
        }
        _ => {
            eprintln!("usage: c17 gen <quick|thorough> [k n] | c17 one <case> | c17 bases");
            std::process::exit(2);
        }
    }
}
