//! C06 correspondence harness: inheritance, super(), include and import.
//!
//! A case is an abstract environment of templates (template name = index `t<i>`, block name
//! `b<n>`, variable name `v<n>`); the same token line is (a) pretty-printed to Jinja source and
//! rendered by the real engine here and (b) evaluated by the Lean model (`drive_c06`).
//!
//! line    := fam ntmpl { tmpl }
//! tmpl    := "T" ext nlayout {item} nblocks { bname nitems {item} }      (name = t<i>.<ext>)
//! item    := "t" text | "b" n | "s" | "x" exec(0/1) mode(s/d/c) t | "i" ign k names..
//!          | "v" v | "set" v str | "mac" v str | "imp" t v | "from" t name alias
//!          | "attr" v a | "keys" v | "call" v | "req" | "ssuper" v | "sself" v m | "self" m
//!          | "for" v k strs.. nitems items.. | "inmac" m arg str nitems items.. | "ae" mode nitems items..
//!          | "bad" kind | "macv" m w
//!          | "ia" ign arg | "impa" arg v | "froma" arg name alias      (include / import / from-import of a *value*)
//!          | "fx" hide name expected   (a pure expression that applies the filter / performs the test `name`;
//!                                       hide: 0 printed, 1 in a branch that is not taken, 2 behind a short-circuit;
//!                                       expected = what the expression prints when it is rendered on its own)
//!          | "fuse"                    (`{{ fuse() }}`: prints nothing; fails at its k-th call while the harness has it armed)
//!          | "tryb" n k                (`{{ try_block("b<n>", k) }}`: a function with `&mut State` renders block n with the fuse
//!                                       armed at k, swallows whatever happens and prints nothing: the State stays in use)
//! extends modes: s static name, d name from a variable, c `{% if c0/c1 %}`, q `{% if 3 is number/string %}` (decided by a test)
//! arg     := kind k cand..    kind: str sc lit tup ctx slice rev lazy once rep map ctxmap pobj plain
//! cand    := t (the string naming template t) | "!i" (42) | "!n" (none) | "!u" (undefined) | "!b" (true)
//! fam     := name [ "~" L S P U B N ]   (configuration, see `Cfgv`; N = shape of the variable names)
//!
//! Result: `ok:<output>` | `err:<kind chain>` | `panic` | `hang` | `crash:<status>` | `syntax:<kind>`
//! | `skipped` (after three hangs the remaining cases are not run).
//! The kind chain is `K1>K2>…` (outermost first), compared exactly: the model accounts for the
//! recursion limit (frames + include/macro costs) like the engine does.
//!
//! usage: c06 gen <quick|thorough>    — supervisor: runs the cases in child processes (a hang or
//!                                       a stack overflow of the engine kills only the child)
//!        c06 work <tier> <start>      — child: run cases start.. and print the result lines
//!        c06 list <tier>              — print the case lines only
//!        c06 one <case tokens…>       — run one case in-process (replay); `c06 src <case…>` prints the sources
use minijinja::{Environment, Error, Value};
use mjh::*;
use std::collections::BTreeMap;
use std::io::{BufRead, Write};

/// one candidate an include argument yields: a template name or a value that is not a string
#[derive(Clone, Copy, Debug, PartialEq)]
enum Cand {
    T(usize),
    Int,
    NoneV,
    Undef,
    Bool,
}

/// the value of the expression behind include / import / from-import.  `kind` says how the
/// value is produced (and so which kind of `Value` reaches `perform_include`):
/// `str` a string literal, `sc` a non-string scalar, `lit` a list literal, `tup` a tuple, `ctx` a
/// `Vec` from the environment, `slice` a sliced list (`g[1:]`, lazily evaluated), `rev` a list
/// through `|reverse` (lazy), `lazy` `Value::make_iterable`, `once` a one-shot iterator, `rep`
/// list repetition (`g * 2`, lazy; yields the candidates twice), `map` a map literal / `ctxmap` a
/// `BTreeMap` from the environment (candidates = keys in iteration order, i.e. sorted), `pobj`
/// a custom object with `ObjectRepr::Plain` that enumerates, `plain` an object that cannot be
/// iterated (the function `range`)
#[derive(Clone, Debug, PartialEq)]
struct Arg {
    kind: String,
    cands: Vec<Cand>,
}

impl Arg {
    fn new(kind: &str, cands: Vec<Cand>) -> Arg {
        Arg { kind: kind.into(), cands }
    }
    fn names(kind: &str, names: &[usize]) -> Arg {
        Arg { kind: kind.into(), cands: names.iter().map(|n| Cand::T(*n)).collect() }
    }
    /// the name of the environment global that holds the value (kinds that need one)
    fn global(&self) -> String {
        let mut g = format!("g{}", self.kind);
        for c in &self.cands {
            g.push('_');
            match c {
                Cand::T(t) => g.push_str(&t.to_string()),
                Cand::Int => g.push('I'),
                Cand::NoneV => g.push('N'),
                Cand::Undef => g.push('U'),
                Cand::Bool => g.push('B'),
            }
        }
        g
    }
    fn needs_global(&self) -> bool {
        matches!(self.kind.as_str(), "ctx" | "slice" | "lazy" | "once" | "rep" | "ctxmap" | "pobj")
    }
}

#[derive(Clone, Debug)]
enum Item {
    Text(String),
    CallBlock(usize),
    Super,
    Extends { exec: bool, mode: char, t: usize },
    Incl { names: Vec<usize>, ign: bool },
    EmitVar(usize),
    SetVar(usize, String),
    DefMacro(usize, String),
    /// `{% macro vM() %}<mM:{{ vW }}>{% endmacro %}`: a macro with a free variable
    DefMacroV(usize, usize),
    ImportAs(usize, usize),
    FromImport(usize, usize, usize),
    EmitAttr(usize, usize),
    EmitKeys(usize),
    CallVar(usize),
    Required,
    SetSuper(usize),
    SetSelf(usize, usize),
    SelfCall(usize),
    Loop(usize, Vec<String>, Vec<Item>),
    InMacro(usize, usize, String, Vec<Item>),
    /// `{% autoescape "mode" %}…{% endautoescape %}`
    AutoEsc(String, Vec<Item>),
    /// `extends` / `include` with a name that is not a string (kinds 0..3)
    BadTarget(usize),
    /// `{% include <arg> %}`
    InclArg { arg: Arg, ign: bool },
    /// `{% import <arg> as v %}`
    ImportArg(Arg, usize),
    /// `{% from <arg> import name as alias %}`
    FromArg(Arg, usize, usize),
    /// a pure expression using one filter (`f<k>`) or one test (`t<k>`) of the menus `FX_FILTERS` /
    /// `FX_TESTS`; `hide` 0: `{{ expr }}`, 1: inside `{% if 1 > 2 %}`, 2: `{% if 0 and expr %}`.
    /// The filter / test gets a per-template local id in source order whether or not it runs.
    Fx(u8, String),
    /// `{{ fuse() }}`
    Fuse,
    /// `{{ try_block("b<n>", k) }}`
    TryBlock(usize, usize),
}
use Item::*;

/// filters applied to `[4, 2, 9]` and tests probed with four values; every result is an integer,
/// which all auto-escape modes print alike
const FX_FILTERS: [&str; 6] = ["length", "first", "last", "sum", "min", "max"];
const FX_TESTS: [&str; 7] = ["defined", "none", "string", "number", "sequence", "iterable", "undefined"];

fn fx_expr(name: &str) -> String {
    let k: usize = name[1..].parse().unwrap_or(0);
    if name.starts_with('f') {
        format!("[4, 2, 9]|{}", FX_FILTERS[k % FX_FILTERS.len()])
    } else {
        let t = FX_TESTS[k % FX_TESTS.len()];
        format!("(1 if 3 is {t} else 0) + (2 if \"a\" is {t} else 0) + (4 if none is {t} else 0) + (8 if [1] is {t} else 0)")
    }
}

/// what the expression prints when it is the only thing in the only template of a fresh
/// environment (one activation, the filter / test has local id 0): the reference for every
/// composed use
fn fx_expected(name: &str) -> String {
    use std::sync::Mutex;
    static CACHE: Mutex<BTreeMap<String, String>> = Mutex::new(BTreeMap::new());
    let mut c = CACHE.lock().unwrap();
    if let Some(v) = c.get(name) {
        return v.clone();
    }
    let env = Environment::new();
    let v = match env.render_str(&format!("{{{{ {} }}}}", fx_expr(name)), ()) {
        Ok(s) if !s.is_empty() && !s.contains(char::is_whitespace) => s,
        Ok(_) => "?".to_string(),
        Err(e) => format!("!{:?}", e.kind()),
    };
    c.insert(name.to_string(), v.clone());
    v
}

// the fuse: `{{ fuse() }}` prints nothing; while armed (FUSE_AT = k > 0) its k-th call fails
static FUSE_AT: std::sync::atomic::AtomicUsize = std::sync::atomic::AtomicUsize::new(0);
static FUSE_CALLS: std::sync::atomic::AtomicUsize = std::sync::atomic::AtomicUsize::new(0);

fn fuse_arm(k: usize) {
    FUSE_CALLS.store(0, std::sync::atomic::Ordering::SeqCst);
    FUSE_AT.store(k, std::sync::atomic::Ordering::SeqCst);
}

/// A helper as applications write them: render a block on the running State, fall back to nothing
/// when it fails.  Here the result is dropped in both cases, so the call prints nothing and — a
/// render of a block leaves no variables behind — must not change anything that follows.  While
/// the call runs the fuse is armed at `k` (unless the recovery stream has it armed already).
fn try_block(state: &mut minijinja::State, name: &str, k: usize) -> Value {
    use std::sync::atomic::Ordering::SeqCst;
    let outer = FUSE_AT.load(SeqCst);
    if outer == 0 {
        fuse_arm(k);
    }
    let _ = state.render_block(name);
    if outer == 0 {
        fuse_arm(0);
    }
    Value::from_safe_string(String::new())
}

fn fuse() -> Result<Value, Error> {
    use std::sync::atomic::Ordering::SeqCst;
    let at = FUSE_AT.load(SeqCst);
    if at != 0 && FUSE_CALLS.fetch_add(1, SeqCst) + 1 == at {
        return Err(Error::new(minijinja::ErrorKind::InvalidOperation, "the fuse has blown"));
    }
    Ok(Value::from_safe_string(String::new()))
}

#[derive(Clone, Debug)]
struct Tmpl {
    layout: Vec<Item>,
    blocks: BTreeMap<usize, Vec<Item>>,
    /// the template is named `t<i>.<ext>`; the extension selects the initial auto-escape mode
    ext: String,
}

impl Default for Tmpl {
    fn default() -> Tmpl {
        Tmpl { layout: vec![], blocks: BTreeMap::new(), ext: "txt".into() }
    }
}

#[derive(Clone, Debug)]
struct Case {
    fam: String,
    tmpls: Vec<Tmpl>,
}

// ------------------------------------------------------------------ token form
fn ser_items(items: &[Item], out: &mut Vec<String>) {
    out.push(items.len().to_string());
    for it in items {
        ser_item(it, out);
    }
}

fn ser_item(it: &Item, out: &mut Vec<String>) {
    match it {
        Text(s) => {
            out.push("t".into());
            out.push(s.clone());
        }
        CallBlock(n) => {
            out.push("b".into());
            out.push(n.to_string());
        }
        Super => out.push("s".into()),
        Extends { exec, mode, t } => {
            out.push("x".into());
            out.push((*exec as u8).to_string());
            out.push(mode.to_string());
            out.push(t.to_string());
        }
        Incl { names, ign } => {
            out.push("i".into());
            out.push((*ign as u8).to_string());
            out.push(names.len().to_string());
            for n in names {
                out.push(n.to_string());
            }
        }
        EmitVar(v) => {
            out.push("v".into());
            out.push(v.to_string());
        }
        SetVar(v, s) => {
            out.push("set".into());
            out.push(v.to_string());
            out.push(s.clone());
        }
        DefMacro(v, s) => {
            out.push("mac".into());
            out.push(v.to_string());
            out.push(s.clone());
        }
        DefMacroV(m, w) => {
            out.push("macv".into());
            out.push(m.to_string());
            out.push(w.to_string());
        }
        ImportAs(t, v) => {
            out.push("imp".into());
            out.push(t.to_string());
            out.push(v.to_string());
        }
        FromImport(t, n, a) => {
            out.push("from".into());
            out.push(t.to_string());
            out.push(n.to_string());
            out.push(a.to_string());
        }
        EmitAttr(v, a) => {
            out.push("attr".into());
            out.push(v.to_string());
            out.push(a.to_string());
        }
        EmitKeys(v) => {
            out.push("keys".into());
            out.push(v.to_string());
        }
        CallVar(v) => {
            out.push("call".into());
            out.push(v.to_string());
        }
        Required => out.push("req".into()),
        SetSuper(v) => {
            out.push("ssuper".into());
            out.push(v.to_string());
        }
        SetSelf(v, m) => {
            out.push("sself".into());
            out.push(v.to_string());
            out.push(m.to_string());
        }
        SelfCall(m) => {
            out.push("self".into());
            out.push(m.to_string());
        }
        Loop(v, vals, body) => {
            out.push("for".into());
            out.push(v.to_string());
            out.push(vals.len().to_string());
            out.extend(vals.iter().cloned());
            ser_items(body, out);
        }
        InMacro(m, arg, val, body) => {
            out.push("inmac".into());
            out.push(m.to_string());
            out.push(arg.to_string());
            out.push(val.clone());
            ser_items(body, out);
        }
        AutoEsc(mode, body) => {
            out.push("ae".into());
            out.push(mode.clone());
            ser_items(body, out);
        }
        BadTarget(k) => {
            out.push("bad".into());
            out.push(k.to_string());
        }
        InclArg { arg, ign } => {
            out.push("ia".into());
            out.push((*ign as u8).to_string());
            ser_arg(arg, out);
        }
        ImportArg(arg, v) => {
            out.push("impa".into());
            ser_arg(arg, out);
            out.push(v.to_string());
        }
        FromArg(arg, n, a) => {
            out.push("froma".into());
            ser_arg(arg, out);
            out.push(n.to_string());
            out.push(a.to_string());
        }
        Fx(hide, name) => {
            out.push("fx".into());
            out.push(hide.to_string());
            out.push(name.clone());
            out.push(fx_expected(name));
        }
        Fuse => out.push("fuse".into()),
        TryBlock(n, k) => {
            out.push("tryb".into());
            out.push(n.to_string());
            out.push(k.to_string());
        }
    }
}

fn ser_arg(a: &Arg, out: &mut Vec<String>) {
    out.push(a.kind.clone());
    out.push(a.cands.len().to_string());
    for c in &a.cands {
        out.push(match c {
            Cand::T(t) => t.to_string(),
            Cand::Int => "!i".into(),
            Cand::NoneV => "!n".into(),
            Cand::Undef => "!u".into(),
            Cand::Bool => "!b".into(),
        });
    }
}

fn ser_case(c: &Case) -> String {
    let mut out = vec![c.fam.clone(), c.tmpls.len().to_string()];
    for t in &c.tmpls {
        out.push("T".into());
        out.push(t.ext.clone());
        ser_items(&t.layout, &mut out);
        out.push(t.blocks.len().to_string());
        for (n, body) in &t.blocks {
            out.push(n.to_string());
            ser_items(body, &mut out);
        }
    }
    out.join(" ")
}

struct Toks<'a> {
    t: Vec<&'a str>,
    i: usize,
}
impl<'a> Toks<'a> {
    fn next(&mut self) -> Result<&'a str, String> {
        let r = self.t.get(self.i).copied().ok_or("unexpected end of case")?;
        self.i += 1;
        Ok(r)
    }
    fn num(&mut self) -> Result<usize, String> {
        self.next()?.parse().map_err(|_| "number expected".to_string())
    }
    fn items(&mut self) -> Result<Vec<Item>, String> {
        let n = self.num()?;
        (0..n).map(|_| self.item()).collect()
    }
    fn item(&mut self) -> Result<Item, String> {
        Ok(match self.next()? {
            "t" => Text(self.next()?.to_string()),
            "b" => CallBlock(self.num()?),
            "s" => Super,
            "x" => {
                let exec = self.num()? == 1;
                let mode = self.next()?.chars().next().unwrap();
                Extends { exec, mode, t: self.num()? }
            }
            "i" => {
                let ign = self.num()? == 1;
                let k = self.num()?;
                let names = (0..k).map(|_| self.num()).collect::<Result<_, _>>()?;
                Incl { names, ign }
            }
            "v" => EmitVar(self.num()?),
            "set" => SetVar(self.num()?, self.next()?.to_string()),
            "mac" => DefMacro(self.num()?, self.next()?.to_string()),
            "macv" => DefMacroV(self.num()?, self.num()?),
            "imp" => ImportAs(self.num()?, self.num()?),
            "from" => FromImport(self.num()?, self.num()?, self.num()?),
            "attr" => EmitAttr(self.num()?, self.num()?),
            "keys" => EmitKeys(self.num()?),
            "call" => CallVar(self.num()?),
            "req" => Required,
            "ssuper" => SetSuper(self.num()?),
            "sself" => SetSelf(self.num()?, self.num()?),
            "self" => SelfCall(self.num()?),
            "for" => {
                let v = self.num()?;
                let k = self.num()?;
                let vals = (0..k).map(|_| self.next().map(|s| s.to_string())).collect::<Result<_, _>>()?;
                Loop(v, vals, self.items()?)
            }
            "inmac" => InMacro(self.num()?, self.num()?, self.next()?.to_string(), self.items()?),
            "ae" => AutoEsc(self.next()?.to_string(), self.items()?),
            "bad" => BadTarget(self.num()?),
            "ia" => {
                let ign = self.num()? == 1;
                InclArg { arg: self.arg()?, ign }
            }
            "impa" => {
                let arg = self.arg()?;
                ImportArg(arg, self.num()?)
            }
            "froma" => {
                let arg = self.arg()?;
                FromArg(arg, self.num()?, self.num()?)
            }
            "fx" => {
                let hide = self.num()? as u8;
                let name = self.next()?.to_string();
                if !(name.starts_with('f') || name.starts_with('t')) || name[1..].parse::<usize>().is_err() {
                    return Err("fx name expected".into());
                }
                let _expected = self.next()?;
                Fx(hide, name)
            }
            "fuse" => Fuse,
            "tryb" => TryBlock(self.num()?, self.num()?),
            other => return Err(format!("bad item tag {other}")),
        })
    }
    fn arg(&mut self) -> Result<Arg, String> {
        let kind = self.next()?.to_string();
        let k = self.num()?;
        let mut cands = vec![];
        for _ in 0..k {
            cands.push(match self.next()? {
                "!i" => Cand::Int,
                "!n" => Cand::NoneV,
                "!u" => Cand::Undef,
                "!b" => Cand::Bool,
                t => Cand::T(t.parse().map_err(|_| "candidate expected".to_string())?),
            });
        }
        Ok(Arg { kind, cands })
    }
}

fn parse_case(line: &str) -> Result<Case, String> {
    let mut tk = Toks { t: line.split_whitespace().collect(), i: 0 };
    let fam = tk.next()?.to_string();
    let n = tk.num()?;
    let mut tmpls = vec![];
    for _ in 0..n {
        if tk.next()? != "T" {
            return Err("T expected".into());
        }
        let ext = tk.next()?.to_string();
        let layout = tk.items()?;
        let nb = tk.num()?;
        let mut blocks = BTreeMap::new();
        for _ in 0..nb {
            let name = tk.num()?;
            blocks.insert(name, tk.items()?);
        }
        tmpls.push(Tmpl { layout, blocks, ext });
    }
    Ok(Case { fam, tmpls })
}

// ------------------------------------------------------------------ configuration of a case
/// `fam~LSPUB`: loader-backed templates?, custom syntax?, path-join callback (templates live in
/// directories and refer to each other relatively)?, undefined behaviour (0 lenient, 1 chainable,
/// 2 semi-strict, 3 strict), block index used by the `render_block` streams
#[derive(Clone, Copy, Debug, Default)]
struct Cfgv {
    loader: bool,
    syntax: bool,
    pathjoin: bool,
    ub: u8,
    blk: usize,
    /// shape of the variable / macro names: 0 `v3`, 1 `_v3` (leading underscore), 2 `V3_`
    names: u8,
}

fn cfg_of(fam: &str) -> Cfgv {
    match fam.split_once('~') {
        Some((_, c)) => {
            let d: Vec<u8> = c.bytes().map(|b| b.wrapping_sub(b'0')).collect();
            Cfgv {
                loader: d.first() == Some(&1),
                syntax: d.get(1) == Some(&1),
                pathjoin: d.get(2) == Some(&1),
                ub: d.get(3).copied().unwrap_or(0).min(3),
                blk: d.get(4).copied().unwrap_or(0).min(2) as usize,
                names: d.get(5).copied().unwrap_or(0).min(2),
            }
        }
        None => Cfgv::default(),
    }
}

// ------------------------------------------------------------------ pretty printer (trusted, small)
struct Pr<'a> {
    exts: Vec<&'a str>,
    cfg: Cfgv,
}

impl Pr<'_> {
    fn ext(&self, i: usize) -> &str {
        let e = self.exts.get(i).copied().unwrap_or("txt");
        e.split('!').next().unwrap()
    }
    /// `Some(kind)`: the name exists but looking it up fails — `s` the source does not compile,
    /// `r` the loader returns InvalidOperation, `c` the loader returns another error kind
    fn broken(&self, i: usize) -> Option<char> {
        self.exts.get(i).and_then(|e| e.split_once('!')).and_then(|(_, k)| k.chars().next())
    }
    /// the name template `i` is registered under
    fn reg(&self, i: usize) -> String {
        if self.cfg.pathjoin {
            format!("d{}/t{i}.{}", i % 3, self.ext(i))
        } else {
            format!("t{i}.{}", self.ext(i))
        }
    }
    /// how templates refer to template `i` (relative to their own directory under path joining)
    fn rf(&self, i: usize) -> String {
        if self.cfg.pathjoin {
            format!("../d{}/t{i}.{}", i % 3, self.ext(i))
        } else {
            self.reg(i)
        }
    }
    fn blk(&self, s: &str) -> String {
        if self.cfg.syntax {
            format!("<% {s} %>")
        } else {
            format!("{{% {s} %}}")
        }
    }
    fn var(&self, s: &str) -> String {
        if self.cfg.syntax {
            format!("${{ {s} }}")
        } else {
            format!("{{{{ {s} }}}}")
        }
    }
}

/// `with context` / `without context` are accepted and mean nothing
fn ctx_marker(k: usize) -> &'static str {
    match k % 3 {
        0 => "",
        1 => " with context",
        _ => " without context",
    }
}

/// a candidate as an expression of the template language
fn cand_expr(pr: &Pr, c: &Cand) -> String {
    match c {
        Cand::T(t) => format!("\"{}\"", pr.rf(*t)),
        Cand::Int => "42".into(),
        Cand::NoneV => "none".into(),
        Cand::Undef => "nope9".into(),
        Cand::Bool => "true".into(),
    }
}

/// the expression that evaluates to the argument value
fn arg_expr(pr: &Pr, a: &Arg) -> String {
    let exprs: Vec<String> = a.cands.iter().map(|c| cand_expr(pr, c)).collect();
    match a.kind.as_str() {
        "str" | "sc" => exprs[0].clone(),
        "lit" => format!("[{}]", exprs.join(", ")),
        "tup" => match exprs.len() {
            1 => format!("({},)", exprs[0]),
            _ => format!("({})", exprs.join(", ")),
        },
        "rev" => {
            let mut r = exprs.clone();
            r.reverse();
            format!("[{}]|reverse", r.join(", "))
        }
        "map" => {
            // written in the reverse of the iteration order: the order comes from the map
            let mut r: Vec<String> = exprs.iter().enumerate().map(|(i, e)| format!("{e}: {i}")).collect();
            r.reverse();
            format!("{{{}}}", r.join(", "))
        }
        "slice" => format!("{}[1:]", a.global()),
        "rep" => format!("{} * 2", a.global()),
        "plain" => "range".into(),
        _ => a.global(),
    }
}

fn print_items(pr: &Pr, t: &Tmpl, items: &[Item], used: &mut Vec<usize>, out: &mut String) {
    for it in items {
        match it {
            InclArg { arg, ign } => {
                let ig = if *ign { " ignore missing" } else { "" };
                out.push_str(&pr.blk(&format!("include {}{ig}", arg_expr(pr, arg))));
            }
            ImportArg(arg, v) => out.push_str(&pr.blk(&format!("import {} as v{v}", arg_expr(pr, arg)))),
            FromArg(arg, n, a) => out.push_str(&pr.blk(&format!("from {} import v{n} as v{a}", arg_expr(pr, arg)))),
            Text(s) => out.push_str(s),
            Fx(hide, name) => match hide {
                0 => out.push_str(&pr.var(&fx_expr(name))),
                1 => {
                    out.push_str(&pr.blk("if 1 > 2"));
                    out.push_str(&pr.var(&fx_expr(name)));
                    out.push_str(&pr.blk("endif"));
                }
                _ => {
                    out.push_str(&pr.blk(&format!("if 0 and ({})", fx_expr(name))));
                    out.push_str("<never>");
                    out.push_str(&pr.blk("endif"));
                }
            },
            Fuse => out.push_str(&pr.var("fuse()")),
            TryBlock(n, k) => out.push_str(&pr.var(&format!("try_block(\"b{n}\", {k})"))),
            CallBlock(n) => {
                used.push(*n);
                let body = t.blocks.get(n).expect("block body in table");
                if matches!(body.as_slice(), [Required]) {
                    out.push_str(&pr.blk(&format!("block b{n} required")));
                    out.push_str(&pr.blk("endblock"));
                } else {
                    out.push_str(&pr.blk(&format!("block b{n}")));
                    print_items(pr, t, body, used, out);
                    out.push_str(&pr.blk("endblock"));
                }
            }
            Required => panic!("`required` only as the whole body of a block"),
            SetSuper(v) => out.push_str(&pr.blk(&format!("set v{v} = super()"))),
            SetSelf(v, m) => out.push_str(&pr.blk(&format!("set v{v} = self.b{m}()"))),
            SelfCall(m) => out.push_str(&pr.var(&format!("self.b{m}()"))),
            Super => out.push_str(&pr.var("super()")),
            Extends { exec, mode, t } => match mode {
                's' => out.push_str(&pr.blk(&format!("extends \"{}\"", pr.rf(*t)))),
                'd' => out.push_str(&pr.blk(&format!("extends dyn{t}"))),
                'q' => {
                    // decided by a test: `number` holds for 3, `string` does not
                    out.push_str(&pr.blk(if *exec { "if 3 is number" } else { "if 3 is string" }));
                    out.push_str(&pr.blk(&format!("extends \"{}\"", pr.rf(*t))));
                    out.push_str(&pr.blk("endif"));
                }
                _ => {
                    out.push_str(&pr.blk(&format!("if c{}", *exec as u8)));
                    out.push_str(&pr.blk(&format!("extends \"{}\"", pr.rf(*t))));
                    out.push_str(&pr.blk("endif"));
                }
            },
            BadTarget(k) => out.push_str(&pr.blk(match k {
                0 => "extends 42",
                1 => "extends nope9",
                2 => "include 42",
                _ => "include nope9 ignore missing",
            })),
            Incl { names, ign } => {
                let k = names.iter().sum::<usize>() + names.len() + *ign as usize;
                let (before, after) = match k % 3 {
                    2 => (ctx_marker(k), ""),
                    _ => ("", ctx_marker(k)),
                };
                let ig = if *ign { " ignore missing" } else { "" };
                let target = if names.len() == 1 && k % 5 == 3 {
                    // the name comes from a variable
                    format!("dyn{}", names[0])
                } else if names.len() == 1 {
                    format!("\"{}\"", pr.rf(names[0]))
                } else {
                    let l: Vec<String> = names.iter().map(|n| format!("\"{}\"", pr.rf(*n))).collect();
                    format!("[{}]", l.join(", "))
                };
                out.push_str(&pr.blk(&format!("include {target}{before}{ig}{after}")));
            }
            EmitVar(v) => out.push_str(&pr.var(&format!("v{v}"))),
            SetVar(v, s) => out.push_str(&pr.blk(&format!("set v{v} = \"{s}\""))),
            DefMacro(v, s) => {
                out.push_str(&pr.blk(&format!("macro v{v}()")));
                out.push_str(s);
                out.push_str(&pr.blk("endmacro"));
            }
            DefMacroV(m, w) => {
                out.push_str(&pr.blk(&format!("macro v{m}()")));
                out.push_str(&format!("<m{m}:"));
                out.push_str(&pr.var(&format!("v{w}")));
                out.push_str(">");
                out.push_str(&pr.blk("endmacro"));
            }
            ImportAs(t, v) => out.push_str(&pr.blk(&format!("import \"{}\" as v{v}{}", pr.rf(*t), ctx_marker(t + v)))),
            FromImport(t, n, a) => {
                out.push_str(&pr.blk(&format!("from \"{}\" import v{n} as v{a}{}", pr.rf(*t), ctx_marker(t + n + a))))
            }
            EmitAttr(v, a) => out.push_str(&pr.var(&format!("v{v}.v{a}"))),
            EmitKeys(v) => out.push_str(&pr.var(&format!("v{v}|sort|join(\",\")"))),
            CallVar(v) => out.push_str(&pr.var(&format!("v{v}()"))),
            Loop(v, vals, body) => {
                let l: Vec<String> = vals.iter().map(|s| format!("\"{s}\"")).collect();
                out.push_str(&pr.blk(&format!("for v{v} in [{}]", l.join(", "))));
                print_items(pr, t, body, used, out);
                out.push_str(&pr.blk("endfor"));
            }
            InMacro(m, arg, val, body) => {
                out.push_str(&pr.blk(&format!("macro v{m}(v{arg})")));
                print_items(pr, t, body, used, out);
                out.push_str(&pr.blk("endmacro"));
                out.push_str(&pr.var(&format!("v{m}(\"{val}\")")));
            }
            AutoEsc(mode, body) => {
                out.push_str(&pr.blk(&format!("autoescape \"{mode}\"")));
                print_items(pr, t, body, used, out);
                out.push_str(&pr.blk("endautoescape"));
            }
        }
    }
}

/// the canonical names `v<n>` rewritten into the configured shape (`shape` 1: `_v<n>`, 2: `V<n>_`);
/// `back` = the inverse, applied to what the engine printed (module keys, macro reprs)
fn rename_vars(src: &str, shape: u8, back: bool) -> String {
    if shape == 0 {
        return src.to_string();
    }
    let (from_pre, from_suf, to_pre, to_suf) = match (shape, back) {
        (1, false) => ("v", "", "_v", ""),
        (1, true) => ("_v", "", "v", ""),
        (_, false) => ("v", "", "V", "_"),
        (_, true) => ("V", "_", "v", ""),
    };
    let cs: Vec<char> = src.chars().collect();
    let word = |c: char| c.is_alphanumeric() || c == '_';
    let mut out = String::with_capacity(src.len() + 16);
    let mut i = 0;
    while i < cs.len() {
        // in what the engine printed a name may touch its neighbours (`M&2` + `_v2`): no boundaries there
        let at_boundary = back || i == 0 || !word(cs[i - 1]);
        let pre: Vec<char> = from_pre.chars().collect();
        if at_boundary && cs[i..].starts_with(&pre) {
            let mut j = i + pre.len();
            let d0 = j;
            while j < cs.len() && cs[j].is_ascii_digit() {
                j += 1;
            }
            let suf: Vec<char> = from_suf.chars().collect();
            if j > d0 && cs[j..].starts_with(&suf) && (back || j + suf.len() == cs.len() || !word(cs[j + suf.len()])) {
                out.push_str(to_pre);
                out.extend(&cs[d0..j]);
                out.push_str(to_suf);
                i = j + suf.len();
                continue;
            }
        }
        out.push(cs[i]);
        i += 1;
    }
    out
}

fn source_of(pr: &Pr, t: &Tmpl) -> String {
    rename_vars(&source_of_canonical(pr, t), pr.cfg.names, false)
}

fn source_of_canonical(pr: &Pr, t: &Tmpl) -> String {
    let mut out = String::new();
    let mut used = vec![];
    print_items(pr, t, &t.layout, &mut used, &mut out);
    let mut u = used.clone();
    u.sort();
    let keys: Vec<usize> = t.blocks.keys().copied().collect();
    assert_eq!(u, keys, "every block of the table is printed exactly once");
    out
}

// ------------------------------------------------------------------ engine
fn kind_of(e: &Error) -> String {
    let k = format!("{:?}", e.kind());
    if k == "SyntaxError" {
        // a syntax error carries the name of the template that does not compile
        let name = e.name().unwrap_or("?");
        let base = name.rsplit('/').next().unwrap_or(name);
        format!("{k}@{}", base.split('.').next().unwrap_or(base))
    } else {
        k
    }
}

fn kind_chain(e: &Error) -> String {
    let mut v = vec![kind_of(e)];
    let mut cur: &dyn std::error::Error = e;
    while let Some(s) = cur.source() {
        if let Some(m) = s.downcast_ref::<Error>() {
            v.push(kind_of(m));
        }
        cur = s;
    }
    v.join(">")
}

fn innermost_detail(e: &Error) -> String {
    let mut last: &Error = e;
    let mut cur: &dyn std::error::Error = e;
    while let Some(s) = cur.source() {
        if let Some(m) = s.downcast_ref::<Error>() {
            last = m;
        }
        cur = s;
    }
    let d = last.detail().unwrap_or("");
    for (pat, tag) in [
        ("cycle in template inheritance", "cycle"),
        ("tried to extend a second time", "second-extends"),
        ("no parent block exists", "no-parent-block"),
        ("recursion limit exceeded", "recursion-limit"),
        ("cannot super outside of block", "super-outside"),
        ("does not exist", "template-missing"),
        ("non-existing template", "include-missing"),
        ("none of which existed", "include-missing"),
    ] {
        if d.contains(pat) {
            return tag.to_string();
        }
    }
    "other".to_string()
}

/// the render context of every case; `v0` carries every character the modes treat differently
const V0: &str = "C<&\"'/\u{e9}0";

fn context(pr: &Pr) -> Value {
    let mut ctx: BTreeMap<String, Value> = BTreeMap::new();
    ctx.insert("c1".into(), Value::from(true));
    ctx.insert("c0".into(), Value::from(false));
    ctx.insert(rename_vars("v0", pr.cfg.names, false), Value::from(V0));
    Value::from(ctx)
}

static NAME_SHAPE: std::sync::atomic::AtomicU8 = std::sync::atomic::AtomicU8::new(0);

fn res_of(r: Result<String, Error>) -> (String, String) {
    match r {
        Ok(s) => (format!("ok:{}", rename_vars(&s, NAME_SHAPE.load(std::sync::atomic::Ordering::SeqCst), true)), "ok".to_string()),
        Err(e) => (format!("err:{}", kind_chain(&e)), innermost_detail(&e)),
    }
}

/// the path join callback of the documentation: `./x` and `../x` are relative to the directory
/// of the template that contains the tag
fn join_path<'a>(name: &'a str, parent: &str) -> std::borrow::Cow<'a, str> {
    if !name.starts_with("./") && !name.starts_with("../") {
        return std::borrow::Cow::Borrowed(name);
    }
    let mut rv: Vec<&str> = parent.split('/').collect();
    rv.pop();
    for seg in name.split('/') {
        match seg {
            "." => {}
            ".." => {
                rv.pop();
            }
            s => rv.push(s),
        }
    }
    std::borrow::Cow::Owned(rv.join("/"))
}

/// a custom object with `ObjectRepr::Plain` that can be enumerated
#[derive(Debug)]
struct PlainSeq(Vec<Value>);

impl minijinja::value::Object for PlainSeq {
    fn repr(self: &std::sync::Arc<Self>) -> minijinja::value::ObjectRepr {
        minijinja::value::ObjectRepr::Plain
    }
    fn get_value(self: &std::sync::Arc<Self>, key: &Value) -> Option<Value> {
        self.0.get(key.as_usize()?).cloned()
    }
    fn enumerate(self: &std::sync::Arc<Self>) -> minijinja::value::Enumerator {
        minijinja::value::Enumerator::Seq(self.0.len())
    }
}

fn cand_value(pr: &Pr, c: &Cand) -> Value {
    match c {
        Cand::T(t) => Value::from(pr.rf(*t)),
        Cand::Int => Value::from(42),
        Cand::NoneV => Value::from(()),
        Cand::Undef => Value::UNDEFINED,
        Cand::Bool => Value::from(true),
    }
}

/// the Rust-side value behind an argument that lives in the environment
fn arg_value(pr: &Pr, a: &Arg) -> Value {
    let vals: Vec<Value> = a.cands.iter().map(|c| cand_value(pr, c)).collect();
    match a.kind.as_str() {
        "slice" => {
            let mut v = vec![Value::from("pad-missing.txt")];
            v.extend(vals);
            Value::from(v)
        }
        "lazy" => Value::make_iterable(move || vals.clone().into_iter()),
        "once" => Value::make_one_shot_iterator(vals.into_iter()),
        "ctxmap" => {
            let m: BTreeMap<String, Value> =
                vals.iter().enumerate().map(|(i, v)| (v.as_str().unwrap_or("?").to_string(), Value::from(i))).collect();
            Value::from(m)
        }
        "pobj" => Value::from_object(PlainSeq(vals)),
        _ => Value::from(vals),
    }
}

fn collect_args(items: &[Item], out: &mut Vec<Arg>) {
    for it in items {
        match it {
            InclArg { arg, .. } | ImportArg(arg, _) | FromArg(arg, _, _) => {
                if !out.contains(arg) {
                    out.push(arg.clone());
                }
            }
            Loop(_, _, b) | InMacro(_, _, _, b) | AutoEsc(_, b) => collect_args(b, out),
            _ => {}
        }
    }
}

fn case_args(c: &Case) -> Vec<Arg> {
    let mut out = vec![];
    for t in &c.tmpls {
        collect_args(&t.layout, &mut out);
        for b in t.blocks.values() {
            collect_args(b, &mut out);
        }
    }
    out
}

/// maps yield their keys in sorted order: the case line must list the candidates that way
fn maps_canonical(pr: &Pr, args: &[Arg]) -> bool {
    args.iter().filter(|a| a.kind == "map" || a.kind == "ctxmap").all(|a| {
        let keys: Vec<String> = a
            .cands
            .iter()
            .map(|c| match c {
                Cand::T(t) => pr.rf(*t),
                _ => String::new(),
            })
            .collect();
        keys.iter().all(|k| !k.is_empty()) && keys.windows(2).all(|w| w[0] < w[1])
    })
}

fn make_env(
    cfg: Cfgv,
    sources: &[(String, String, Option<char>)],
    dyn_names: &[String],
    pr: &Pr,
    args: &[Arg],
) -> Result<Environment<'static>, Error> {
    let mut env = Environment::new();
    env.add_function("fuse", fuse);
    env.add_function("try_block", try_block);
    for a in args.iter().filter(|a| a.needs_global()) {
        env.add_global(a.global(), arg_value(pr, a));
    }
    if cfg.syntax {
        env.set_syntax(
            minijinja::syntax::SyntaxConfig::builder()
                .block_delimiters("<%", "%>")
                .variable_delimiters("${", "}")
                .comment_delimiters("<#", "#>")
                .build()
                .unwrap(),
        );
    }
    if cfg.pathjoin {
        env.set_path_join_callback(join_path);
    }
    env.set_undefined_behavior(match cfg.ub {
        1 => minijinja::UndefinedBehavior::Chainable,
        2 => minijinja::UndefinedBehavior::SemiStrict,
        3 => minijinja::UndefinedBehavior::Strict,
        _ => minijinja::UndefinedBehavior::Lenient,
    });
    // names held in variables are globals, so that they also resolve on a fresh state
    for (i, v) in dyn_names.iter().enumerate() {
        env.add_global(format!("dyn{i}"), Value::from(v.clone()));
    }
    // templates that cannot be loaded only exist behind a loader
    if cfg.loader || sources.iter().any(|x| x.2.is_some()) {
        // loader-backed: the templates are compiled on first use
        let map: BTreeMap<String, (String, Option<char>)> =
            sources.iter().map(|(n, s, b)| (n.clone(), (s.clone(), *b))).collect();
        env.set_loader(move |name| match map.get(name) {
            None => Ok(None),
            Some((_, Some('r'))) => Err(Error::new(minijinja::ErrorKind::InvalidOperation, "the loader refuses this template")),
            Some((_, Some('c'))) => Err(Error::new(minijinja::ErrorKind::BadSerialization, "the loader failed on this template")),
            Some((src, _)) => Ok(Some(src.clone())),
        });
        // surface syntax errors of the generator like add_template would
        for (n, _, b) in sources {
            if b.is_none() {
                env.get_template(n)?;
            }
        }
    } else {
        for (n, s, _) in sources {
            env.add_template_owned(n.clone(), s.clone())?;
        }
    }
    Ok(env)
}

/// sources that do not compile (several kinds of syntax error)
fn broken_source(pr: &Pr, i: usize) -> String {
    match i % 4 {
        0 => format!("<K>{}", pr.blk("if")),
        1 => format!("<K>{}", pr.var("1 +")),
        2 => format!("<K>{}", pr.blk("endblock")),
        _ => format!("<K>{}{}", pr.blk("for x in"), pr.blk("endfor")),
    }
}

struct Outcome {
    res: String,
    detail: String,
    meta: String,
    rblock: String,
    fresh: String,
    /// the recovery stream (cases with a fuse): `skip` | `same:<failures injected>` | `diff:…`
    recov: String,
    /// the other entry points against `Template::render` / `State::render_block`: `skip` | `same` | `diff:<entry>:…`
    entry: String,
}

/// Every way into the engine renders the same composition: `render_captured` (its output),
/// `render_captured_to` (what it wrote), `Environment::render_named_str` (a template that is not
/// stored in the environment, same name and source) against `Template::render`; on the captured
/// state `State::render_block_to_write` against `State::render_block`.
fn entry_stream(env: &Environment<'static>, main: &str, src0: &str, pr: &Pr, bname: &str, res: &str) -> String {
    let tmpl = env.get_template(main).unwrap();
    let cap = tmpl.render_captured(context(pr));
    let got = match &cap {
        Ok(c) => res_of(Ok(c.output().to_string())).0,
        Err(e) => format!("err:{}", kind_chain(e)),
    };
    if got != res {
        return format!("diff:render_captured:{got}");
    }
    let mut buf: Vec<u8> = vec![];
    let got = match tmpl.render_captured_to(context(pr), &mut buf) {
        Ok(_) => res_of(Ok(String::from_utf8_lossy(&buf).into_owned())).0,
        Err(e) => format!("err:{}", kind_chain(&e)),
    };
    if got != res {
        return format!("diff:render_captured_to:{got}");
    }
    let got = res_of(env.render_named_str(main, src0, context(pr))).0;
    if got != res {
        return format!("diff:render_named_str:{got}");
    }
    if let Ok(mut c) = cap {
        let a = res_of(c.with_state_mut(|state| state.render_block(bname))).0;
        let mut buf: Vec<u8> = vec![];
        let b = match c.with_state_mut(|state| state.render_block_to_write(bname, &mut buf)) {
            Ok(()) => res_of(Ok(String::from_utf8_lossy(&buf).into_owned())).0,
            Err(e) => format!("err:{}", kind_chain(&e)),
        };
        if a != b {
            return format!("diff:render_block_to_write:{b}|render_block:{a}");
        }
    }
    "same".into()
}

fn items_have_fuse(items: &[Item]) -> bool {
    items.iter().any(|it| match it {
        Fuse => true,
        Loop(_, _, b) | InMacro(_, _, _, b) | AutoEsc(_, b) => items_have_fuse(b),
        _ => false,
    })
}

fn case_has_fuse(c: &Case) -> bool {
    c.tmpls.iter().any(|t| items_have_fuse(&t.layout) || t.blocks.values().any(|b| items_have_fuse(b)))
}

/// The recovery stream: on ONE state — the one left by `render_captured`, then a fresh one from
/// `new_state` — for every block name and for k = 1, 2, 3: render the block (reference), render
/// it again with the fuse armed to fail at its k-th call, then — the failure is over, the state is
/// still in use — render all three blocks again.  Each must give its reference: a failed render
/// of a block must not change which definition the next render of that block (or of any other)
/// resolves to.
fn recovery_stream(env: &Environment<'static>, main: &str, pr: &Pr) -> String {
    let tmpl = env.get_template(main).unwrap();
    let mut injected = 0usize;
    if let Ok(mut captured) = tmpl.render_captured(context(pr)) {
        match recovery_on("captured", &mut |b| captured.with_state_mut(|state| state.render_block(b))) {
            Ok(n) => injected += n,
            Err(diff) => return diff,
        }
    }
    let mut state = tmpl.new_state();
    match recovery_on("fresh", &mut |b| state.render_block(b)) {
        Ok(n) => injected += n,
        Err(diff) => return diff,
    }
    format!("same:{}", injected.min(9))
}

fn recovery_on(which: &str, render: &mut dyn FnMut(&str) -> Result<String, Error>) -> Result<usize, String> {
    let mut injected = 0usize;
    let names = ["b0", "b1", "b2"];
    let reference: Vec<String> = names.iter().map(|b| res_of(render(b)).0).collect();
    for n in 0..3usize {
        for k in 1..=3usize {
            fuse_arm(k);
            let armed = render(names[n]);
            let blown = FUSE_CALLS.load(std::sync::atomic::Ordering::SeqCst) >= k;
            fuse_arm(0);
            if !blown {
                // fewer than k calls of the fuse: nothing was injected, larger k neither
                break;
            }
            injected += 1;
            if armed.is_ok() {
                return Err(format!("diff:b{n}:k{k}:b{n}:[{which} state] the render in which the fuse failed reported success"));
            }
            // the block that failed first, then every other block: all resolve as before
            for m in (0..3usize).map(|d| (n + d) % 3) {
                let again = res_of(render(names[m])).0;
                if again != reference[m] {
                    return Err(format!("diff:b{n}:k{k}:b{m}:[{which} state] {again}|before the failure:{}", reference[m]));
                }
            }
        }
    }
    Ok(injected)
}

/// Renders t0 and, with the same environment:
/// * the metamorphic wrapper: a template of a *different* auto-escape mode that consists of
///   `{% include "t0…" %}` (sometimes inside an `{% autoescape %}` block) must render exactly what
///   t0 renders on its own with the same variables (an error gets one `BadInclude` in front);
/// * `render_captured` + `State::render_block("b<B>")`;
/// * `new_state().render_block("b<B>")`.
fn run_case(c: &Case, variant: usize) -> Outcome {
    let cfg = cfg_of(&c.fam);
    // a panic of the engine during an armed render must not leave the fuse armed for the next case
    fuse_arm(0);
    NAME_SHAPE.store(cfg.names, std::sync::atomic::Ordering::SeqCst);
    let pr = Pr { exts: c.tmpls.iter().map(|t| t.ext.as_str()).collect(), cfg };
    let mut sources: Vec<(String, String, Option<char>)> = c
        .tmpls
        .iter()
        .enumerate()
        .map(|(i, t)| match pr.broken(i) {
            Some(k) => (pr.reg(i), broken_source(&pr, i), Some(k)),
            None => (pr.reg(i), source_of(&pr, t), None),
        })
        .collect();
    let wexts = ["html", "txt", "json", "xml.j2"];
    let wext = wexts[variant % 4];
    let inc = pr.blk(&format!("include \"{}\"", pr.rf(0)));
    let wsrc = match (variant / 4) % 3 {
        0 => inc,
        1 => format!("{}{inc}{}", pr.blk("autoescape \"html\""), pr.blk("endautoescape")),
        _ => format!("{}{inc}{}", pr.blk("autoescape \"none\""), pr.blk("endautoescape")),
    };
    let wname = if cfg.pathjoin { format!("d0/w.{wext}") } else { format!("w.{wext}") };
    sources.push((wname.clone(), wsrc, None));
    let skip = |res: String, detail: String| Outcome {
        res,
        detail,
        meta: "skip".into(),
        rblock: "skip".into(),
        fresh: "skip".into(),
        recov: "skip".into(),
        entry: "skip".into(),
    };
    let args = case_args(c);
    if !maps_canonical(&pr, &args) {
        return skip("syntax:map-candidates-not-in-iteration-order".into(), "syntax".into());
    }
    // a one-shot iterator in the environment is used up by a render: every entry point gets an
    // environment of its own then
    let has_once = args.iter().any(|a| a.kind == "once");
    let r = guarded(|| {
        let dyn_names: Vec<String> = (0..100).map(|i| pr.rf(i)).collect();
        let build = || make_env(cfg, &sources, &dyn_names, &pr, &args);
        let mut env = match build() {
            Ok(env) => env,
            Err(e) => return skip(format!("syntax:{}", error_kind_name(&e)), "syntax".to_string()),
        };
        let main = pr.reg(0);
        if let Err(e) = env.get_template(&main) {
            // the main template itself cannot be loaded: every entry point reports that
            let r = format!("err:{}", kind_chain(&e));
            return Outcome { res: r.clone(), detail: "load-error".into(), meta: "skip".into(), rblock: r.clone(), fresh: r, recov: "skip".into(), entry: "skip".into() };
        }
        let (res, detail) = res_of(env.get_template(&main).unwrap().render(context(&pr)));
        let bname = format!("b{}", cfg.blk);
        if has_once {
            env = build().unwrap();
        }
        let rblock = match env.get_template(&main).unwrap().render_captured(context(&pr)) {
            Ok(mut captured) => res_of(captured.with_state_mut(|state| state.render_block(&bname))).0,
            Err(e) => format!("err:{}", kind_chain(&e)),
        };
        if has_once {
            env = build().unwrap();
        }
        let fresh = res_of(env.get_template(&main).unwrap().new_state().render_block(&bname)).0;
        if has_once {
            env = build().unwrap();
        }
        let meta = if detail == "recursion-limit" {
            // ten more units of depth in front of a run that hits the limit: not comparable
            "skip".to_string()
        } else {
            let (wres, _) = res_of(env.get_template(&wname).unwrap().render(context(&pr)));
            let expect = match res.strip_prefix("err:") {
                Some(chain) => format!("err:BadInclude>{chain}"),
                None => res.clone(),
            };
            if wres == expect {
                format!("same:{wext}")
            } else {
                format!("diff:{wname}:{wres}")
            }
        };
        let recov = if case_has_fuse(c) && !has_once { recovery_stream(&env, &main, &pr) } else { "skip".to_string() };
        // a run that ends at the recursion limit depends on the depth the entry point starts at
        let entry = if has_once || detail == "recursion-limit" {
            "skip".to_string()
        } else {
            entry_stream(&env, &main, &sources[0].1, &pr, &bname, &res)
        };
        Outcome { res, detail, meta, rblock, fresh, recov, entry }
    });
    match r {
        Ok(x) => x,
        Err(msg) => skip("panic".to_string(), format!("panic:{}", msg.replace(['\t', '\n'], " "))),
    }
}

// ------------------------------------------------------------------ generators
fn tx(s: String) -> Item {
    Text(format!("<{s}>"))
}

#[derive(Clone, Copy, PartialEq, Debug)]
enum Asg {
    Absent,
    Plain,
    SuperBefore,
    SuperAfter,
    /// `{% set v5 = super() %}` … `{{ v5 }}`: super() in value position (captured)
    SuperCaptured,
    /// `{% block n required %}{% endblock %}`
    Required,
}
const ASGS: [Asg; 4] = [Asg::Absent, Asg::Plain, Asg::SuperBefore, Asg::SuperAfter];

/// body of block `n` of chain template `j`
fn block_body(j: usize, n: usize, a: Asg, nested: Option<usize>) -> Vec<Item> {
    if a == Asg::Required {
        return vec![Required];
    }
    let mut b = vec![];
    if a == Asg::SuperCaptured {
        b.push(SetSuper(5));
    }
    if a == Asg::SuperBefore {
        b.push(Super);
    }
    b.push(tx(format!("T{j}:b{n}:a")));
    if let Some(m) = nested {
        b.push(CallBlock(m));
        b.push(tx(format!("T{j}:b{n}:z")));
    }
    if a == Asg::SuperAfter {
        b.push(Super);
    }
    if a == Asg::SuperCaptured {
        b.push(Text("(".into()));
        b.push(EmitVar(5));
        b.push(Text(")".into()));
    }
    b
}

/// chain template `j` of `len` (root = len-1): blocks per assignment, `nest` = b1 inside b0,
/// `mode` of the extends tag (ignored for the root), `pre_block` = put the first top-level block
/// before the extends tag
fn chain_template(j: usize, len: usize, asg: [Asg; 3], nest: bool, mode: (char, bool), pre_block: bool) -> Tmpl {
    let mut t = Tmpl::default();
    let nested = nest && asg[0] != Asg::Absent && asg[0] != Asg::Required && asg[1] != Asg::Absent;
    for n in 0..3 {
        if asg[n] != Asg::Absent {
            let inner = if n == 0 && nested { Some(1) } else { None };
            t.blocks.insert(n, block_body(j, n, asg[n], inner));
        }
    }
    let top: Vec<usize> = (0..3).filter(|n| asg[*n] != Asg::Absent && !(nested && *n == 1)).collect();
    let root = j + 1 == len;
    t.layout.push(tx(format!("T{j}:pre")));
    let mut rest = top.clone();
    if !root {
        if pre_block && !rest.is_empty() {
            t.layout.push(CallBlock(rest.remove(0)));
        }
        t.layout.push(Extends { exec: mode.1, mode: mode.0, t: j + 1 });
        t.layout.push(tx(format!("T{j}:post")));
    }
    for (k, n) in rest.iter().enumerate() {
        t.layout.push(CallBlock(*n));
        t.layout.push(tx(format!("T{j}:l{k}")));
    }
    t
}

// aux templates appended after a chain of `len` templates: indexes len + AUX_*
const AUX_X: usize = 0; // prints v0 (context) and v1 (includer's local)
const AUX_B: usize = 1; // extends the chain's root, own block b0 with super
const AUX_Q: usize = 2; // extends AUX_P
const AUX_P: usize = 3; // base of AUX_Q
const AUX_M: usize = 4; // module: top-level set/macro + scoped sets
const AUX_S: usize = 5; // super() at top level
const AUX_I: usize = 6; // includes AUX_X, sets v6 at top level
const AUX_E: usize = 7; // module whose block body includes a missing template
const AUX_K: usize = 8; // exists but does not compile
const AUX_KR: usize = 9; // the loader refuses it (InvalidOperation)
const AUX_KC: usize = 10; // the loader fails with another error kind
const AUX_RT: usize = 11; // compiles, fails at its first instruction
const AUX_N: usize = 12; // number of aux templates; len+AUX_N.. are missing names

fn aux_templates(len: usize) -> Vec<Tmpl> {
    let root = len - 1;
    let mut v = vec![];
    // X
    v.push(Tmpl {
        layout: vec![Text("<X:".into()), EmitVar(0), Text(":".into()), EmitVar(1), Text(">".into())],
        blocks: BTreeMap::new(),
        ext: "html".into(),
    });
    // B: extends the chain's root (spurious cycle candidate), overrides b0 and b2
    let mut b = Tmpl::default();
    b.layout = vec![
        tx("B:pre".into()),
        Extends { exec: true, mode: 's', t: root },
        tx("B:post".into()),
        CallBlock(0),
        CallBlock(2),
    ];
    b.blocks.insert(0, vec![tx("B:b0".into()), Super]);
    b.blocks.insert(2, vec![tx("B:b2".into()), EmitVar(0)]);
    b.ext = "xml".into();
    v.push(b);
    // Q extends P
    let mut q = Tmpl::default();
    q.layout = vec![Extends { exec: true, mode: 's', t: len + AUX_P }, CallBlock(0), CallBlock(1)];
    q.blocks.insert(0, vec![Super, tx("Q:b0".into())]);
    q.blocks.insert(1, vec![tx("Q:b1".into()), EmitVar(0)]);
    q.ext = "json".into();
    v.push(q);
    let mut p = Tmpl::default();
    p.layout = vec![tx("P:top".into()), CallBlock(0), tx("P:end".into())];
    p.blocks.insert(0, vec![tx("P:b0".into()), EmitVar(1)]);
    p.ext = "html.j2".into();
    v.push(p);
    // M
    let mut m = Tmpl::default();
    m.layout = vec![
        tx("M:t".into()),
        SetVar(2, "M<2a".into()),
        DefMacro(3, "<M:mac3>".into()),
        Loop(9, vec!["a".into()], vec![SetVar(4, "L<4".into())]),
        CallBlock(7),
        SetVar(2, "M&2".into()),
        EmitVar(1),
    ];
    m.blocks.insert(7, vec![SetVar(5, "B5".into()), tx("M:b7".into())]);
    m.ext = "htm".into();
    v.push(m);
    // S
    v.push(Tmpl { layout: vec![tx("S".into()), Super], blocks: BTreeMap::new(), ext: "txt".into() });
    // I
    v.push(Tmpl {
        layout: vec![
            tx("I:a".into()),
            Incl { names: vec![len + AUX_X], ign: false },
            SetVar(6, "I6".into()),
            tx("I:z".into()),
        ],
        blocks: BTreeMap::new(),
        ext: "js".into(),
    });
    // E
    let mut e = Tmpl::default();
    e.layout = vec![tx("E:t".into()), CallBlock(7), SetVar(2, "E2".into())];
    e.blocks.insert(7, vec![tx("E:b7".into()), Incl { names: vec![len + AUX_N], ign: false }]);
    e.ext = "yaml".into();
    v.push(e);
    for (ext, _) in [("html!s", AUX_K), ("txt!r", AUX_KR), ("json!c", AUX_KC)] {
        v.push(Tmpl { ext: ext.into(), ..Tmpl::default() });
    }
    v.push(Tmpl { layout: vec![CallVar(77), tx("RT".into())], blocks: BTreeMap::new(), ext: "txt".into() });
    v
}

/// a snippet of items exercising include/import (index into a fixed menu)
const N_SNIPPETS: usize = 48;
fn snippet(k: usize, len: usize) -> Vec<Item> {
    let a = |x: usize| len + x;
    let miss = len + AUX_N;
    match k {
        0 => vec![Incl { names: vec![a(AUX_X)], ign: false }],
        1 => vec![Incl { names: vec![miss, a(AUX_X), a(AUX_P)], ign: false }],
        2 => vec![Incl { names: vec![miss, miss + 1], ign: true }],
        3 => vec![Incl { names: vec![miss], ign: false }],
        4 => vec![Incl { names: vec![miss, miss + 1], ign: false }],
        5 => vec![Incl { names: vec![a(AUX_B)], ign: false }],
        6 => vec![Incl { names: vec![a(AUX_Q)], ign: true }],
        7 => vec![Incl { names: vec![a(AUX_I)], ign: false }, EmitVar(6)],
        8 => vec![ImportAs(a(AUX_M), 8), EmitAttr(8, 2), EmitAttr(8, 4), EmitAttr(8, 5), EmitKeys(8)],
        9 => vec![FromImport(a(AUX_M), 3, 7), CallVar(7)],
        10 => vec![FromImport(a(AUX_M), 2, 7), EmitVar(7)],
        11 => vec![FromImport(a(AUX_M), 0, 7), Text("[".into()), EmitVar(7), Text("]".into())],
        12 => vec![FromImport(a(AUX_M), 4, 7), Text("[".into()), EmitVar(7), Text("]".into())],
        13 => vec![FromImport(a(AUX_M), 1, 7), Text("[".into()), EmitVar(7), Text("]".into())],
        14 => vec![ImportAs(miss, 8)],
        15 => vec![FromImport(miss, 2, 7)],
        16 => vec![Incl { names: vec![a(AUX_S)], ign: false }],
        17 => vec![SetVar(1, "S<1&".into()), Incl { names: vec![a(AUX_X)], ign: false }],
        18 => vec![Incl { names: vec![a(AUX_X), miss], ign: true }],
        19 => vec![ImportAs(a(AUX_I), 8), EmitKeys(8), EmitAttr(8, 6)],
        20 => vec![ImportAs(a(AUX_Q), 8), Text("[".into()), EmitKeys(8), Text("]".into())],
        21 => vec![FromImport(a(AUX_S), 2, 7)],
        22 => vec![Incl { names: vec![], ign: false }],
        23 => vec![FromImport(a(AUX_E), 2, 7), EmitVar(7)],
        24 => vec![ImportAs(a(AUX_E), 8), EmitAttr(8, 2)],
        25 => vec![Incl { names: vec![a(AUX_E)], ign: true }],
        26 => vec![SelfCall(2)],
        27 => vec![SetSelf(5, 1), Text("(".into()), EmitVar(5), Text(")".into())],
        28 => vec![SelfCall(0)],
        30 => vec![Incl { names: vec![a(AUX_K)], ign: false }],
        31 => vec![Incl { names: vec![a(AUX_K)], ign: true }],
        32 => vec![Incl { names: vec![miss, a(AUX_K), a(AUX_X)], ign: true }],
        33 => vec![Incl { names: vec![a(AUX_KR)], ign: true }],
        34 => vec![ImportAs(a(AUX_KC), 8)],
        35 => vec![FromImport(a(AUX_K), 2, 7)],
        36 => vec![Incl { names: vec![a(AUX_RT)], ign: true }],
        37 => vec![Incl { names: vec![miss, a(AUX_KC)], ign: true }],
        // the argument is a value: lazily evaluated iterables, maps, objects
        38 => vec![InclArg { arg: Arg::names("lazy", &[miss, a(AUX_X), a(AUX_P)]), ign: false }],
        39 => vec![InclArg { arg: Arg::names("slice", &[miss, a(AUX_B)]), ign: false }],
        40 => vec![InclArg { arg: Arg::names("rev", &[miss, miss + 1]), ign: true }],
        41 => vec![InclArg { arg: Arg::names("rev", &[miss, miss + 1]), ign: false }],
        42 => vec![ImportArg(Arg::names("lazy", &[miss, a(AUX_M)]), 8), EmitAttr(8, 2), EmitKeys(8)],
        43 => vec![FromArg(Arg::names("ctx", &[miss, a(AUX_M)]), 3, 7), CallVar(7)],
        44 => vec![InclArg { arg: Arg::names("map", &[a(AUX_Q)]), ign: false }],
        45 => vec![InclArg { arg: Arg::new("plain", vec![]), ign: true }],
        46 => vec![InclArg { arg: Arg::new("pobj", vec![Cand::T(miss), Cand::Int, Cand::T(a(AUX_X))]), ign: true }],
        47 => vec![InclArg { arg: Arg::names("rep", &[miss]), ign: true }],
        _ => vec![Incl { names: vec![a(AUX_Q)], ign: false }, Incl { names: vec![a(AUX_X)], ign: false }],
    }
}

fn wrap(kind: usize, items: Vec<Item>) -> Vec<Item> {
    match kind {
        0 => items,
        1 => vec![Loop(1, vec!["i<1".into(), "i&2".into()], items)],
        2 => vec![InMacro(9, 1, "a<1>".into(), items)],
        3 => vec![AutoEsc("html".into(), items)],
        4 => vec![AutoEsc("json".into(), items)],
        _ => vec![AutoEsc("none".into(), items)],
    }
}

fn insert_at(v: &mut Vec<Item>, pos: usize, items: Vec<Item>) {
    let pos = pos.min(v.len());
    for (k, it) in items.into_iter().enumerate() {
        v.insert(pos + k, it);
    }
}

struct ChainSpec {
    len: usize,
    asg: Vec<[Asg; 3]>,
    nest: Vec<bool>,
    modes: Vec<(char, bool)>,
    pre_block: Vec<bool>,
}

fn build_chain(s: &ChainSpec) -> Vec<Tmpl> {
    (0..s.len)
        .map(|j| chain_template(j, s.len, s.asg[j], s.nest[j], s.modes[j], s.pre_block[j]))
        .collect()
}

fn random_chain(rng: &mut Rng, extras: bool) -> Case {
    let len = 1 + rng.below(4) as usize;
    let mut s = ChainSpec { len, asg: vec![], nest: vec![], modes: vec![], pre_block: vec![] };
    // assignments are drawn from the root downwards; a super() without any ancestor definition
    // (an error by specification) is kept only occasionally so that most shapes render
    let mut defined_above = [false; 3];
    let mut asg_rev = vec![];
    for _ in 0..len {
        let mut a = [Asg::Absent; 3];
        for (n, x) in a.iter_mut().enumerate() {
            *x = if rng.chance(1, 4) {
                Asg::Absent
            } else {
                match rng.below(20) {
                    0..=1 => Asg::SuperCaptured,
                    2 => Asg::Required,
                    k => ASGS[1 + (k % 3) as usize],
                }
            };
            if matches!(*x, Asg::SuperBefore | Asg::SuperAfter | Asg::SuperCaptured) && !defined_above[n] && !rng.chance(1, 12) {
                *x = Asg::Plain;
            }
        }
        for n in 0..3 {
            defined_above[n] |= a[n] != Asg::Absent;
        }
        asg_rev.push(a);
    }
    asg_rev.reverse();
    s.asg = asg_rev;
    for _ in 0..len {
        s.nest.push(rng.chance(1, 2));
        s.modes.push(match rng.below(10) {
            0..=3 => ('s', true),
            4..=6 => ('d', true),
            7..=8 => ('c', true),
            _ => ('c', false),
        });
        s.pre_block.push(rng.chance(1, 8));
    }
    let mut tmpls = build_chain(&s);
    // mixed template names: the extension selects the initial auto-escape mode; a variable in
    // some block bodies makes the mode visible through extends / super / block calls
    const EXTS: [&str; 10] = ["txt", "html", "json", "xml", "js", "html.j2", "txt.j2", "htm", "yaml.jinja", "j2"];
    for t in tmpls.iter_mut() {
        t.ext = rng.pick(&EXTS).to_string();
        for body in t.blocks.values_mut() {
            if !matches!(body.as_slice(), [Required]) && rng.chance(1, 3) {
                let pos = rng.below(body.len() as u64 + 1) as usize;
                body.insert(pos, EmitVar(0));
            }
        }
        if rng.chance(1, 4) {
            let pos = rng.below(t.layout.len() as u64 + 1) as usize;
            t.layout.insert(pos, EmitVar(0));
        }
    }
    let mut fam = format!("chain{len}");
    if extras {
        tmpls.extend(aux_templates(len));
        let n_extra = 1 + rng.below(2) as usize;
        fam.push_str("+x");
        for _ in 0..n_extra {
            let k = rng.below(N_SNIPPETS as u64) as usize;
            let w = match rng.below(8) {
                0 => 1,
                1 => 2,
                2 => 3,
                3 => 4,
                4 => 5,
                _ => 0,
            };
            let items = wrap(w, snippet(k, len));
            let j = rng.below(len as u64) as usize;
            let t = &mut tmpls[j];
            let keys: Vec<usize> = t
                .blocks
                .iter()
                .filter(|(_, b)| !matches!(b.as_slice(), [Required]))
                .map(|(k, _)| *k)
                .collect();
            if !keys.is_empty() && rng.chance(1, 2) {
                let n = *rng.pick(&keys);
                let body = t.blocks.get_mut(&n).unwrap();
                let pos = rng.below(body.len() as u64 + 1) as usize;
                insert_at(body, pos, items);
            } else {
                let pos = rng.below(t.layout.len() as u64 + 1) as usize;
                insert_at(&mut t.layout, pos, items);
            }
        }
    }
    prune_unreferenced(&mut tmpls);
    Case { fam, tmpls }
}

fn refs(items: &[Item], out: &mut Vec<usize>) {
    for it in items {
        match it {
            Extends { t, .. } => out.push(*t),
            Incl { names, .. } => out.extend(names.iter().copied()),
            ImportAs(t, _) | FromImport(t, _, _) => out.push(*t),
            InclArg { arg, .. } | ImportArg(arg, _) | FromArg(arg, _, _) => {
                for c in &arg.cands {
                    if let Cand::T(t) = c {
                        out.push(*t);
                    }
                }
            }
            Loop(_, _, b) | InMacro(_, _, _, b) | AutoEsc(_, b) => refs(b, out),
            _ => {}
        }
    }
}

/// templates that cannot be reached from t0 become empty stubs (the names keep their indexes)
fn prune_unreferenced(tmpls: &mut [Tmpl]) {
    let mut seen = vec![false; tmpls.len()];
    let mut todo = vec![0usize];
    while let Some(i) = todo.pop() {
        if i >= tmpls.len() || seen[i] {
            continue;
        }
        seen[i] = true;
        let mut r = vec![];
        refs(&tmpls[i].layout, &mut r);
        for b in tmpls[i].blocks.values() {
            refs(b, &mut r);
        }
        todo.extend(r);
    }
    for (i, t) in tmpls.iter_mut().enumerate() {
        if !seen[i] {
            *t = Tmpl::default();
        }
    }
}

fn all_small(out: &mut Vec<Case>, thorough: bool) {
    // one template: every assignment (super without parent = error)
    for code in 0..64usize {
        for nest in [false, true] {
            let asg = [ASGS[code % 4], ASGS[(code / 4) % 4], ASGS[code / 16]];
            let s = ChainSpec { len: 1, asg: vec![asg], nest: vec![nest], modes: vec![('s', true)], pre_block: vec![false] };
            out.push(Case { fam: "all1".into(), tmpls: build_chain(&s) });
        }
    }
    // two templates: every pair of assignments, nesting variants
    for code in 0..4096usize {
        let a0 = [ASGS[code % 4], ASGS[(code / 4) % 4], ASGS[(code / 16) % 4]];
        let a1 = [ASGS[(code / 64) % 4], ASGS[(code / 256) % 4], ASGS[(code / 1024) % 4]];
        for nest in 0..4usize {
            let n0 = nest & 1 == 1;
            let n1 = nest & 2 == 2;
            // nesting only matters when both b0 and b1 are defined in that template
            if n0 && (a0[0] == Asg::Absent || a0[1] == Asg::Absent) {
                continue;
            }
            if n1 && (a1[0] == Asg::Absent || a1[1] == Asg::Absent) {
                continue;
            }
            let modes: &[(char, bool)] = if thorough { &[('s', true), ('d', true), ('c', true), ('c', false)] } else { &[('s', true)] };
            for m in modes {
                let s = ChainSpec {
                    len: 2,
                    asg: vec![a0, a1],
                    nest: vec![n0, n1],
                    modes: vec![*m, ('s', true)],
                    pre_block: vec![false, false],
                };
                out.push(Case { fam: "all2".into(), tmpls: build_chain(&s) });
            }
        }
    }
}

fn simple(layout: Vec<Item>, blocks: Vec<(usize, Vec<Item>)>) -> Tmpl {
    Tmpl { layout, blocks: blocks.into_iter().collect(), ext: "txt".into() }
}

fn ext(mode: char, t: usize) -> Item {
    Extends { exec: true, mode, t }
}

fn error_families(out: &mut Vec<Case>) {
    let modes = ['s', 'd', 'c'];
    // inheritance cycles of length 1..4, entered directly or after a prefix, with and without blocks
    for m in modes {
        for cyc in 1..=4usize {
            for prefix in 0..=2usize {
                for with_blocks in [false, true] {
                    let n = prefix + cyc;
                    let mut tmpls = vec![];
                    for j in 0..n {
                        let target = if j + 1 < n { j + 1 } else { prefix };
                        let mut t = Tmpl::default();
                        t.layout.push(tx(format!("T{j}:pre")));
                        t.layout.push(ext(m, target));
                        t.layout.push(tx(format!("T{j}:post")));
                        if with_blocks {
                            t.layout.push(CallBlock(0));
                            t.blocks.insert(0, vec![tx(format!("T{j}:b0")), Super]);
                        }
                        tmpls.push(t);
                    }
                    out.push(Case { fam: "cycle".into(), tmpls });
                }
            }
        }
    }
    // double extends: same/different target, second one not executed, missing second target
    for m in modes {
        for (second, second_exec) in [(1usize, true), (2, true), (2, false), (9, true)] {
            for between in [false, true] {
                let mut l = vec![tx("T0:pre".into()), ext(m, 1)];
                if between {
                    l.push(tx("T0:mid".into()));
                    l.push(CallBlock(0));
                }
                l.push(Extends { exec: second_exec, mode: if second_exec { m } else { 'c' }, t: second });
                l.push(tx("T0:post".into()));
                if !between {
                    l.push(CallBlock(0));
                }
                let t0 = simple(l, vec![(0, vec![tx("T0:b0".into())])]);
                let t1 = simple(vec![tx("T1:top".into()), CallBlock(0)], vec![(0, vec![tx("T1:b0".into())])]);
                let t2 = simple(vec![tx("T2:top".into()), CallBlock(0)], vec![(0, vec![tx("T2:b0".into())])]);
                out.push(Case { fam: "double-extends".into(), tmpls: vec![t0, t1, t2] });
            }
        }
    }
    // double extends in the middle of a chain
    {
        let t0 = simple(vec![ext('s', 1), CallBlock(0)], vec![(0, vec![tx("T0:b0".into()), Super])]);
        let t1 = simple(vec![ext('s', 2), ext('s', 2), CallBlock(0)], vec![(0, vec![tx("T1:b0".into())])]);
        let t2 = simple(vec![tx("T2".into()), CallBlock(0)], vec![(0, vec![tx("T2:b0".into())])]);
        out.push(Case { fam: "double-extends".into(), tmpls: vec![t0, t1, t2] });
    }
    // names that are not strings
    for k in 0..4usize {
        for place in 0..3usize {
            let mut l = vec![tx("T0:a".into())];
            let mut blocks = vec![];
            match place {
                0 => l.push(BadTarget(k)),
                1 => {
                    l.push(ext('s', 1));
                    l.push(BadTarget(k));
                }
                _ => {
                    l.push(CallBlock(0));
                    blocks.push((0, vec![BadTarget(k)]));
                }
            }
            l.push(tx("T0:z".into()));
            if place == 2 && k < 2 {
                continue; // extends inside a block is outside the model
            }
            let t0 = simple(l, blocks);
            let t1 = simple(vec![tx("T1".into())], vec![]);
            out.push(Case { fam: "bad-name".into(), tmpls: vec![t0, t1] });
        }
    }
    // extends inside a loop: executed twice
    {
        let t0 = simple(vec![Loop(1, vec!["a".into(), "b".into()], vec![tx("T0:in".into())]), ext('s', 1)], vec![]);
        let t1 = simple(vec![tx("T1".into())], vec![]);
        out.push(Case { fam: "double-extends".into(), tmpls: vec![t0, t1] });
    }
    // missing templates: extends / include / import / from-import at every depth of a chain
    for m in modes {
        for len in 1..=3usize {
            let mut tmpls = vec![];
            for j in 0..len {
                let target = if j + 1 < len { j + 1 } else { 50 };
                tmpls.push(simple(
                    vec![tx(format!("T{j}:pre")), ext(m, target), tx(format!("T{j}:post")), CallBlock(0)],
                    vec![(0, vec![tx(format!("T{j}:b0"))])],
                ));
            }
            out.push(Case { fam: "missing-extends".into(), tmpls });
        }
    }
    for w in 0..3usize {
        for ign in [false, true] {
            for names in [vec![50usize], vec![50, 51], vec![50, 1], vec![1, 50], vec![]] {
                for place in 0..3usize {
                    let inc = wrap(w, vec![Incl { names: names.clone(), ign }]);
                    let mut l = vec![tx("T0:a".into())];
                    let mut blocks = vec![];
                    match place {
                        0 => l.extend(inc),
                        1 => {
                            l.push(CallBlock(0));
                            let mut b = vec![tx("T0:b0".into())];
                            b.extend(inc);
                            blocks.push((0, b));
                        }
                        _ => {
                            // inside a block reached through super()
                            l.push(ext('s', 2));
                            l.push(CallBlock(0));
                            blocks.push((0, vec![tx("T0:b0".into()), Super]));
                        }
                    }
                    l.push(tx("T0:z".into()));
                    let t0 = simple(l, blocks);
                    let t1 = simple(vec![tx("T1".into()), EmitVar(1)], vec![]);
                    let mut b2 = vec![tx("T2:b0".into())];
                    if place == 2 {
                        b2.extend(wrap(w, vec![Incl { names: names.clone(), ign }]));
                    }
                    let t2 = simple(vec![tx("T2:top".into()), CallBlock(0), tx("T2:end".into())], vec![(0, b2)]);
                    out.push(Case { fam: "missing-include".into(), tmpls: vec![t0, t1, t2] });
                }
            }
        }
    }
    // errors inside an included template must surface even with `ignore missing`
    for ign in [false, true] {
        for inner in [
            vec![Incl { names: vec![50], ign: false }],
            vec![ext('s', 50)],
            vec![ImportAs(50, 2)],
            vec![FromImport(50, 2, 3)],
            vec![Super],
            vec![ext('s', 2), ext('s', 2)],
            vec![ext('s', 1)],
        ] {
            let t0 = simple(vec![tx("T0:a".into()), Incl { names: vec![1], ign }, tx("T0:z".into())], vec![]);
            let mut l1 = vec![tx("T1:a".into())];
            l1.extend(inner.clone());
            l1.push(tx("T1:z".into()));
            let t1 = simple(l1, vec![]);
            let t2 = simple(vec![tx("T2".into())], vec![]);
            out.push(Case { fam: "include-inner-error".into(), tmpls: vec![t0, t1, t2] });
        }
    }
    for w in 0..3usize {
        for item in [ImportAs(50, 2), FromImport(50, 2, 3)] {
            let t0 = simple(
                {
                    let mut l = vec![tx("T0:a".into())];
                    l.extend(wrap(w, vec![item.clone()]));
                    l.push(tx("T0:z".into()));
                    l
                },
                vec![],
            );
            out.push(Case { fam: "missing-import".into(), tmpls: vec![t0] });
        }
    }
    // include cycles: self, mutual, through a block, through super, through loop / macro / import,
    // with ignore missing and include lists
    for ign in [false, true] {
        for via in 0..8usize {
            for cyc in 1..=2usize {
                let back = Incl { names: if via == 7 { vec![60, 0] } else { vec![0] }, ign };
                let inner: Vec<Item> = match via {
                    0 | 7 => vec![back.clone()],
                    1 => vec![CallBlock(0)],
                    2 => wrap(1, vec![back.clone()]),
                    3 => wrap(2, vec![back.clone()]),
                    4 => vec![ImportAs(0, 2)],
                    5 => vec![FromImport(0, 2, 3)],
                    _ => vec![CallBlock(0)],
                };
                let mut last_layout = vec![tx("L:a".into())];
                last_layout.extend(inner);
                last_layout.push(tx("L:z".into()));
                let mut blocks = vec![];
                let mut tmpls = vec![];
                if via == 1 {
                    blocks.push((0, vec![tx("L:b0".into()), back.clone()]));
                }
                if via == 6 {
                    // block with super(); the parent's block includes t0 again
                    last_layout.insert(0, ext('s', cyc));
                    blocks.push((0, vec![tx("L:b0".into()), Super]));
                }
                let last = simple(last_layout, blocks);
                if cyc == 1 {
                    tmpls.push(last);
                } else {
                    tmpls.push(simple(vec![tx("T0:a".into()), Incl { names: vec![1], ign: false }], vec![]));
                    tmpls.push(last);
                }
                if via == 6 {
                    tmpls.push(simple(
                        vec![tx("P".into()), CallBlock(0)],
                        vec![(0, vec![tx("P:b0".into()), Incl { names: vec![0], ign }])],
                    ));
                }
                out.push(Case { fam: "include-cycle".into(), tmpls });
            }
        }
    }
    // blocks nested in opposite order in parent and child (block recursion through super)
    {
        let t0 = simple(
            vec![ext('s', 1), CallBlock(0)],
            vec![(0, vec![tx("T0:b0".into()), CallBlock(1)]), (1, vec![tx("T0:b1".into()), Super])],
        );
        let t1 = simple(
            vec![tx("T1".into()), CallBlock(1)],
            vec![(1, vec![tx("T1:b1".into()), CallBlock(0)]), (0, vec![tx("T1:b0".into())])],
        );
        out.push(Case { fam: "crossing".into(), tmpls: vec![t0, t1] });
    }
    // super() in odd places
    {
        out.push(Case { fam: "super-misc".into(), tmpls: vec![simple(vec![tx("A".into()), Super], vec![])] });
        let t0 = simple(vec![CallBlock(0)], vec![(0, vec![tx("T0:b0".into()), Incl { names: vec![1], ign: false }])]);
        let t1 = simple(vec![tx("T1".into()), Super], vec![]);
        out.push(Case { fam: "super-misc".into(), tmpls: vec![t0, t1] });
        let t0 = simple(vec![CallBlock(0)], vec![(0, vec![tx("T0:b0".into()), Incl { names: vec![1], ign: false }])]);
        let t1 = simple(vec![tx("T1".into()), CallBlock(0), Super], vec![(0, vec![tx("T1:b0".into())])]);
        out.push(Case { fam: "super-misc".into(), tmpls: vec![t0, t1] });
        let t0 = simple(vec![CallBlock(0)], vec![(0, vec![tx("T0:b0".into()), InMacro(9, 1, "a".into(), vec![Super])])]);
        out.push(Case { fam: "super-misc".into(), tmpls: vec![t0] });
    }
}

/// minimised witnesses of the defects this check found in the pinned tree (fixed in /repo)
fn regressions(out: &mut Vec<Case>) {
    // an included template extends a template of the includer's own chain: not a cycle
    let t0 = simple(
        vec![ext('s', 1), CallBlock(0)],
        vec![(0, vec![tx("T0:b0".into()), Incl { names: vec![2], ign: false }])],
    );
    let t1 = simple(vec![tx("T1:top".into()), CallBlock(0), tx("T1:end".into())], vec![(0, vec![tx("T1:b0".into())])]);
    let t2 = simple(vec![ext('s', 1), CallBlock(0)], vec![(0, vec![tx("T2:b0".into()), Super])]);
    out.push(Case { fam: "regress".into(), tmpls: vec![t0, t1, t2] });
    // super() at the top level of a template included from inside a block (was a panic)
    let t0 = simple(
        vec![ext('s', 1), CallBlock(0)],
        vec![(0, vec![tx("T0:b0".into()), Incl { names: vec![2], ign: false }])],
    );
    let t1 = simple(vec![tx("T1:top".into()), CallBlock(0)], vec![(0, vec![tx("T1:b0".into())])]);
    let t2 = simple(vec![tx("T2".into()), Super], vec![]);
    out.push(Case { fam: "regress".into(), tmpls: vec![t0, t1, t2] });
    // from-import of a name the module does not define must not pick up the importer's variable
    for name in [0usize, 1] {
        let t0 = simple(
            vec![SetVar(1, "mine".into()), FromImport(1, name, 7), Text("[".into()), EmitVar(7), Text("]".into())],
            vec![],
        );
        let t1 = simple(vec![SetVar(2, "M&2".into())], vec![]);
        out.push(Case { fam: "regress".into(), tmpls: vec![t0, t1] });
    }
}

/// auto-escape modes across template boundaries: includer × included extension × placement ×
/// include / import / from-import, and child × parent extension for extends / super
fn mode_families(out: &mut Vec<Case>) {
    let exts = ["txt", "html", "json", "xml.j2"];
    for a in exts {
        for b in exts {
            for place in 0..6usize {
                for kind in 0..3usize {
                    let use_it: Vec<Item> = match kind {
                        0 => vec![Incl { names: vec![1], ign: false }],
                        1 => vec![ImportAs(1, 8), Text("[".into()), EmitAttr(8, 2), Text("]".into())],
                        _ => vec![FromImport(1, 2, 7), Text("[".into()), EmitVar(7), Text("]".into())],
                    };
                    let mut t0 = Tmpl { ext: a.into(), ..Tmpl::default() };
                    t0.layout.push(Text("<a:".into()));
                    t0.layout.push(EmitVar(0));
                    t0.layout.push(Text(">".into()));
                    match place {
                        0 => t0.layout.extend(use_it),
                        1 => {
                            t0.layout.push(CallBlock(0));
                            t0.blocks.insert(0, use_it);
                        }
                        k => t0.layout.extend(wrap(k - 1, use_it)),
                    }
                    t0.layout.push(EmitVar(0));
                    let t1 = Tmpl {
                        ext: b.into(),
                        layout: vec![Text("<b:".into()), EmitVar(0), SetVar(2, "m<&2".into()), EmitVar(2), Text(">".into())],
                        blocks: BTreeMap::new(),
                    };
                    out.push(Case { fam: "modes-include".into(), tmpls: vec![t0, t1] });
                }
            }
        }
    }
    for a in exts {
        for b in exts {
            for variant in 0..3usize {
                let mut t0 = Tmpl { ext: a.into(), ..Tmpl::default() };
                t0.layout = vec![EmitVar(0), ext('s', 1), CallBlock(0)];
                t0.blocks.insert(
                    0,
                    match variant {
                        0 => vec![Text("<c0:".into()), EmitVar(0), Text(">".into()), Super],
                        1 => vec![SetSuper(5), Text("<c0:".into()), EmitVar(5), Text(">".into())],
                        _ => vec![AutoEsc("html".into(), vec![Super, EmitVar(0)])],
                    },
                );
                let mut t1 = Tmpl { ext: b.into(), ..Tmpl::default() };
                t1.layout = vec![Text("<p:".into()), EmitVar(0), Text(">".into()), CallBlock(0), SetSelf(6, 0), EmitVar(6)];
                t1.blocks.insert(0, vec![Text("<p0:".into()), EmitVar(0), Text(">".into())]);
                out.push(Case { fam: "modes-extends".into(), tmpls: vec![t0, t1] });
            }
        }
    }
}

/// lookups that fail although the name exists: templates that do not compile (`!s`), that the
/// loader refuses (`!r`) or fails on with another kind (`!c`), referenced from include (single,
/// lists with the broken name at each position, with and without `ignore missing`), extends,
/// import, from-import, through chains and blocks, and as the rendered template itself
fn load_error_families(out: &mut Vec<Case>) {
    for kind in ["txt!s", "html!r", "json!c", "xml!s"] {
        let broken = Tmpl { ext: kind.into(), ..Tmpl::default() };
        let okt = simple(vec![tx("OK".into()), EmitVar(0)], vec![]);
        // t0 uses t1 (broken) and t2 (fine); 50/51 are missing
        let lists: Vec<Vec<usize>> = vec![vec![1], vec![50, 1, 2], vec![1, 2], vec![2, 1], vec![50, 51, 1], vec![50, 1]];
        for ign in [false, true] {
            for names in &lists {
                for place in 0..4usize {
                    let inc = vec![Incl { names: names.clone(), ign }];
                    let mut l = vec![tx("T0:a".into())];
                    let mut blocks = vec![];
                    match place {
                        0 => l.extend(inc),
                        1 => {
                            l.push(CallBlock(0));
                            blocks.push((0, {
                                let mut b = vec![tx("T0:b0".into())];
                                b.extend(inc);
                                b
                            }));
                        }
                        2 => l.extend(wrap(1, inc)),
                        _ => l.extend(wrap(2, inc)),
                    }
                    l.push(tx("T0:z".into()));
                    out.push(Case { fam: "load-error-include".into(), tmpls: vec![simple(l, blocks), broken.clone(), okt.clone()] });
                }
            }
        }
        // import / from-import of a template that cannot be loaded
        for item in [ImportAs(1, 8), FromImport(1, 2, 7)] {
            for place in 0..2usize {
                let mut l = vec![tx("T0:a".into())];
                let mut blocks = vec![];
                if place == 0 {
                    l.push(item.clone());
                } else {
                    l.push(CallBlock(0));
                    blocks.push((0, vec![item.clone(), tx("T0:b0".into())]));
                }
                l.push(tx("T0:z".into()));
                out.push(Case { fam: "load-error-import".into(), tmpls: vec![simple(l, blocks), broken.clone()] });
            }
        }
        // a valid child extending a broken parent (directly, and two levels up), with blocks
        for m in ['s', 'd', 'c'] {
            let t0 = simple(vec![tx("T0:pre".into()), ext(m, 1), CallBlock(0)], vec![(0, vec![tx("T0:b0".into()), Super])]);
            out.push(Case { fam: "load-error-extends".into(), tmpls: vec![t0, broken.clone()] });
            let t0 = simple(vec![ext(m, 2), CallBlock(0)], vec![(0, vec![tx("T0:b0".into())])]);
            let t2 = simple(vec![tx("T2:pre".into()), ext('s', 1), CallBlock(0)], vec![(0, vec![tx("T2:b0".into())])]);
            out.push(Case { fam: "load-error-extends".into(), tmpls: vec![t0, broken.clone(), t2] });
        }
        // a block of the parent includes the broken template; the child reaches it through super()
        for ign in [false, true] {
            let t0 = simple(vec![ext('s', 2), CallBlock(0)], vec![(0, vec![tx("T0:b0".into()), Super])]);
            let t2 = simple(
                vec![tx("T2".into()), CallBlock(0)],
                vec![(0, vec![tx("T2:b0".into()), Incl { names: vec![50, 1], ign }])],
            );
            out.push(Case { fam: "load-error-include".into(), tmpls: vec![t0, broken.clone(), t2] });
        }
        // an included (valid) template whose own include / extends hits the broken one
        for inner in [vec![Incl { names: vec![1], ign: true }], vec![ext('s', 1)]] {
            let t0 = simple(vec![tx("T0:a".into()), Incl { names: vec![2], ign: true }, tx("T0:z".into())], vec![]);
            let mut l2 = vec![tx("T2:a".into())];
            l2.extend(inner);
            out.push(Case { fam: "load-error-include".into(), tmpls: vec![t0, broken.clone(), simple(l2, vec![])] });
        }
        // the rendered template itself cannot be loaded
        out.push(Case { fam: "load-error-main".into(), tmpls: vec![broken.clone()] });
    }
    // compiles but fails at its first instruction: never forgiven either
    for ign in [false, true] {
        for names in [vec![1usize], vec![50, 1, 2]] {
            let t0 = simple(vec![tx("T0:a".into()), Incl { names, ign }, tx("T0:z".into())], vec![]);
            let t1 = simple(vec![CallVar(77), tx("T1".into())], vec![]);
            let t2 = simple(vec![tx("OK".into())], vec![]);
            out.push(Case { fam: "runtime-error-include".into(), tmpls: vec![t0, t1, t2] });
        }
    }
}

/// macro closures across template composition: the includer declares a macro over the free
/// variable v3 and (re)assigns v3 before / after the tag; the included file (or a library that
/// itself includes a second file) assigns v3 and declares its own macro over it; macros are
/// called on both sides, before and after
fn closure_families(out: &mut Vec<Case>, thorough: bool) {
    let w = 3usize;
    for use_kind in 0..4usize {
        for a in 0..16usize {
            for b in 0..64usize {
                // quick: a sample of the 4096 combinations per kind, thorough: all
                if !thorough && (a * 64 + b + use_kind) % 5 != 0 {
                    continue;
                }
                let mut l0 = vec![tx("a".into())];
                if a & 1 != 0 {
                    l0.push(SetVar(w, "A<0".into()));
                }
                l0.push(DefMacroV(5, w));
                if a & 2 != 0 {
                    l0.push(CallVar(5));
                }
                let mut blocks0 = vec![];
                match use_kind {
                    0 => l0.push(Incl { names: vec![1], ign: false }),
                    1 => {
                        l0.push(ImportAs(1, 8));
                        l0.push(EmitAttr(8, w));
                    }
                    2 => {
                        l0.push(FromImport(1, 6, 7));
                        l0.push(CallVar(7));
                    }
                    _ => {
                        // the include sits in a block: another frame
                        l0.push(CallBlock(0));
                        blocks0.push((0, vec![SetVar(w, "K0".into()), DefMacroV(4, w), Incl { names: vec![1], ign: false }, CallVar(4), CallVar(5)]));
                    }
                }
                if a & 4 != 0 {
                    l0.push(SetVar(w, "A&1".into()));
                }
                l0.push(CallVar(5));
                if a & 8 != 0 {
                    l0.push(CallVar(6));
                }
                l0.push(EmitVar(w));
                let mut l1 = vec![tx("b".into())];
                if b & 1 != 0 {
                    l1.push(SetVar(w, "B0".into()));
                }
                if b & 2 != 0 {
                    l1.push(DefMacroV(6, w));
                }
                if b & 4 != 0 {
                    l1.push(Incl { names: vec![2], ign: false });
                }
                if b & 8 != 0 {
                    l1.push(SetVar(w, "B<1".into()));
                }
                if b & 16 != 0 {
                    l1.push(CallVar(6));
                }
                if b & 32 != 0 {
                    l1.push(CallVar(5));
                }
                let l2 = vec![tx("c".into()), SetVar(w, "C0".into()), DefMacroV(9, w), SetVar(w, "C1".into()), CallVar(9)];
                out.push(Case {
                    fam: "closures".into(),
                    tmpls: vec![simple(l0, blocks0), simple(l1, vec![]), simple(l2, vec![])],
                });
            }
        }
    }
    // macro libraries: several macros per file share the file's one closure (declared before
    // and after the include tag), the library itself split over two files via include
    for c in 0..16usize {
        let mut l0 = vec![tx("a".into()), SetVar(w, "A0".into()), DefMacroV(5, w)];
        if c & 1 != 0 {
            l0.push(DefMacroV(4, w));
        }
        l0.push(Incl { names: vec![1], ign: false });
        if c & 2 != 0 {
            l0.push(DefMacroV(4, w));
        }
        l0.push(SetVar(w, "A<1".into()));
        l0.push(CallVar(5));
        if c & 3 != 0 {
            l0.push(CallVar(4));
        }
        l0.push(CallVar(6));
        if c & 4 != 0 {
            l0.push(CallVar(2));
        }
        let mut l1 = vec![tx("b".into()), SetVar(w, "B0".into()), DefMacroV(6, w)];
        if c & 4 != 0 {
            l1.push(DefMacroV(2, w));
        }
        if c & 8 != 0 {
            l1.push(Incl { names: vec![2], ign: false });
        }
        l1.push(SetVar(w, "B&1".into()));
        l1.push(CallVar(6));
        if c & 4 != 0 {
            l1.push(CallVar(2));
        }
        if c & 8 != 0 {
            l1.push(CallVar(9));
        }
        let l2 = vec![tx("c".into()), SetVar(w, "C0".into()), DefMacroV(9, w), SetVar(w, "C1".into()), CallVar(9)];
        out.push(Case {
            fam: "closures-library".into(),
            tmpls: vec![simple(l0, vec![]), simple(l1, vec![]), simple(l2, vec![])],
        });
    }
    // macros through an extends chain: the child declares the macro, the parent assigns the
    // variable and calls the macro from its layout and from a block
    for a in 0..8usize {
        let mut l0 = vec![];
        if a & 1 != 0 {
            l0.push(SetVar(w, "A0".into()));
        }
        l0.push(DefMacroV(5, w));
        l0.push(ext('s', 1));
        if a & 2 != 0 {
            l0.push(SetVar(w, "A1".into()));
        }
        l0.push(CallBlock(0));
        let t0 = simple(l0, vec![(0, vec![tx("c0".into()), CallVar(5), Super])]);
        let mut l1 = vec![tx("p".into()), CallVar(5)];
        if a & 4 != 0 {
            l1.push(SetVar(w, "P0".into()));
        }
        l1.push(CallVar(5));
        l1.push(CallBlock(0));
        let t1 = simple(l1, vec![(0, vec![tx("p0".into()), SetVar(w, "PB".into()), CallVar(5)])]);
        out.push(Case { fam: "closures-extends".into(), tmpls: vec![t0, t1] });
    }
}

/// The include / import / from-import ARGUMENT as an axis: every kind of value that can carry
/// the candidates × which candidate exists (first / a later one / none / empty / non-string
/// entries in front of or behind an existing name) × ignore missing × the three statements ×
/// placement (top level, loop, macro call, autoescape block, block).  t1 and t2 exist (small
/// modules that also print the includer's variables), t50 / t51 are missing.
fn arg_families(out: &mut Vec<Case>) {
    let t = |n: usize| Cand::T(n);
    let name_pats: Vec<Vec<Cand>> = vec![
        vec![t(1), t(50), t(2)],
        vec![t(50), t(51), t(2), t(1)],
        vec![t(50), t(51)],
        vec![t(1)],
        vec![t(50)],
        vec![],
    ];
    let mixed_pats: Vec<Vec<Cand>> = vec![
        vec![t(50), Cand::Int, t(1)],
        vec![t(1), Cand::Int],
        vec![Cand::Undef, t(1)],
        vec![t(50), Cand::NoneV],
    ];
    let mut args: Vec<Arg> = vec![];
    for kind in ["lit", "tup", "ctx", "slice", "rev", "lazy", "once", "rep", "pobj"] {
        for p in name_pats.iter().chain(mixed_pats.iter()) {
            args.push(Arg::new(kind, p.clone()));
        }
    }
    for kind in ["map", "ctxmap"] {
        for p in &name_pats {
            args.push(Arg::new(kind, p.clone()));
        }
    }
    args.push(Arg::new("str", vec![t(1)]));
    args.push(Arg::new("str", vec![t(50)]));
    for c in [Cand::Int, Cand::NoneV, Cand::Undef, Cand::Bool] {
        args.push(Arg::new("sc", vec![c]));
    }
    args.push(Arg::new("plain", vec![]));
    let module = |k: usize, ext: &str| Tmpl {
        layout: vec![
            Text(format!("<{k}:")),
            EmitVar(0),
            Text(":".into()),
            EmitVar(1),
            Text(">".into()),
            SetVar(2, format!("m{k}<&")),
            DefMacro(3, format!("<mac{k}>")),
        ],
        blocks: BTreeMap::new(),
        ext: ext.into(),
    };
    for arg in &args {
        for stmt in 0..5usize {
            let items: Vec<Item> = match stmt {
                0 => vec![InclArg { arg: arg.clone(), ign: false }],
                1 => vec![InclArg { arg: arg.clone(), ign: true }],
                2 => vec![ImportArg(arg.clone(), 8), Text("[".into()), EmitAttr(8, 2), Text("]".into()), EmitKeys(8)],
                3 => vec![FromArg(arg.clone(), 3, 7), CallVar(7)],
                _ => vec![FromArg(arg.clone(), 2, 7), Text("[".into()), EmitVar(7), Text("]".into())],
            };
            for place in 0..5usize {
                // a one-shot iterator is consumed by its first use: only where the tag runs once
                if arg.kind == "once" && place == 4 {
                    continue;
                }
                let mut t0 = Tmpl::default();
                t0.layout.push(tx("a".into()));
                t0.layout.push(SetVar(1, "L<1".into()));
                match place {
                    0 => t0.layout.extend(items.clone()),
                    1 => {
                        let vals: Vec<String> =
                            if arg.kind == "once" { vec!["i<1".into()] } else { vec!["i<1".into(), "i&2".into()] };
                        t0.layout.push(Loop(1, vals, items.clone()));
                    }
                    2 => t0.layout.extend(wrap(2, items.clone())),
                    3 => t0.layout.extend(wrap(3, items.clone())),
                    _ => {
                        t0.layout.push(CallBlock(0));
                        let mut b = vec![tx("b0".into())];
                        b.extend(items.clone());
                        t0.blocks.insert(0, b);
                    }
                }
                t0.layout.push(tx("z".into()));
                out.push(Case { fam: "incl-arg".into(), tmpls: vec![t0, module(1, "html"), module(2, "txt")] });
            }
        }
    }
}

/// Which variables an include / import sees and changes: the includer sets v1 (and v3) before the
/// tag — at top level, as a loop variable, in a block frame, as a macro argument —, the used
/// template prints v1 / v2 / v0 and assigns v6 and v3; afterwards (and after the enclosing loop /
/// block) the includer prints v3, v6, v1 and what it got from the import.
fn visibility_families(out: &mut Vec<Case>) {
    for stmt in 0..5usize {
        for place in 0..6usize {
            for early in [false, true] {
                let used: Vec<Item> = match stmt {
                    0 => vec![Incl { names: vec![1], ign: false }],
                    1 => vec![InclArg { arg: Arg::names("lazy", &[50, 1]), ign: false }],
                    2 => vec![ImportAs(1, 8), Text("[".into()), EmitAttr(8, 3), Text(",".into()), EmitAttr(8, 1), Text("]".into()), EmitKeys(8)],
                    3 => vec![FromImport(1, 3, 7), Text("[".into()), EmitVar(7), Text("]".into())],
                    _ => vec![FromArg(Arg::names("slice", &[50, 1]), 1, 7), Text("[".into()), EmitVar(7), Text("]".into())],
                };
                let mut inner = vec![];
                if early {
                    inner.push(SetVar(1, "e<1".into()));
                }
                inner.push(SetVar(3, "mine".into()));
                inner.extend(used);
                inner.push(SetVar(2, "late".into()));
                inner.push(Text("(".into()));
                inner.push(EmitVar(3));
                inner.push(Text(",".into()));
                inner.push(EmitVar(6));
                inner.push(Text(",".into()));
                inner.push(EmitVar(1));
                inner.push(Text(")".into()));
                let mut t0 = Tmpl { ext: "txt".into(), ..Tmpl::default() };
                t0.layout.push(tx("a".into()));
                match place {
                    0 => t0.layout.extend(inner),
                    1 => t0.layout.extend(wrap(1, inner)),
                    2 => t0.layout.extend(wrap(2, inner)),
                    3 => t0.layout.extend(wrap(3, inner)),
                    4 => {
                        t0.layout.push(CallBlock(0));
                        t0.blocks.insert(0, inner);
                    }
                    _ => {
                        t0.layout.push(CallBlock(0));
                        t0.blocks.insert(0, wrap(1, inner));
                    }
                }
                // what is left after the loop / block / macro call
                t0.layout.push(Text("<<".into()));
                t0.layout.push(EmitVar(3));
                t0.layout.push(Text(",".into()));
                t0.layout.push(EmitVar(6));
                t0.layout.push(Text(",".into()));
                t0.layout.push(EmitVar(1));
                t0.layout.push(Text(">>".into()));
                let t1 = Tmpl {
                    ext: "html".into(),
                    layout: vec![
                        Text("<".into()),
                        EmitVar(1),
                        Text("|".into()),
                        EmitVar(2),
                        Text("|".into()),
                        EmitVar(0),
                        Text("|".into()),
                        EmitVar(3),
                        Text(">".into()),
                        SetVar(6, "six&".into()),
                        SetVar(3, "theirs".into()),
                    ],
                    blocks: BTreeMap::new(),
                };
                out.push(Case { fam: "visibility".into(), tmpls: vec![t0, t1] });
            }
        }
    }
}

/// `super()` outside of blocks in an *included* chain.  The engine hands the name of the block
/// the include tag stands in (`state.current_block`) into the included template, so a top-level
/// `super()` there looks that name up among the included chain's own definitions: an error
/// ("no parent block exists") unless the included chain defines the name at least twice — then
/// the second definition is rendered (family `super-inherited`, recorded finding).  Also block
/// references from inside macro bodies (a macro call keeps the block table and its cursors).
fn super_included_families(out: &mut Vec<Case>) {
    // t0: block b<inc> contains the include; t1 is included and (variants) extends t2
    for inc_block in [0usize, 1] {
        for variant in 0..8usize {
            for t1_defines in [false, true] {
                let mut t0 = Tmpl::default();
                t0.layout = vec![tx("T0".into()), CallBlock(inc_block)];
                t0.blocks.insert(inc_block, vec![tx(format!("T0:b{inc_block}")), Incl { names: vec![1], ign: false }, tx("T0:z".into())]);
                let mut t1 = Tmpl::default();
                let sup: Vec<Item> = match variant % 4 {
                    0 => vec![Super],
                    1 => vec![SetSuper(5)],
                    2 => wrap(1, vec![Super]),
                    _ => wrap(3, vec![SetSuper(5)]),
                };
                let extends = variant < 6;
                let before = variant >= 4;
                t1.layout.push(tx("T1:a".into()));
                if before {
                    t1.layout.extend(sup.clone());
                }
                if extends {
                    t1.layout.push(ext('s', 2));
                }
                if !before {
                    t1.layout.extend(sup.clone());
                }
                if t1_defines {
                    t1.layout.push(CallBlock(0));
                    // only the captured variants assign v5 (an undefined v5 is an error of its own
                    // under the strict undefined behaviours)
                    let mut b = vec![tx("T1:b0".into())];
                    if variant % 2 == 1 {
                        b.extend([Text("(".into()), EmitVar(5), Text(")".into())]);
                    }
                    t1.blocks.insert(0, b);
                }
                let mut t2 = Tmpl::default();
                t2.layout = vec![tx("T2".into()), CallBlock(0), tx("T2:z".into())];
                t2.blocks.insert(0, vec![tx("T2:b0".into())]);
                // the quirk needs: the include stands in b0, the included chain defines b0 twice
                // and the super() runs after the extends tag
                let quirk = inc_block == 0 && t1_defines && extends && !before;
                out.push(Case { fam: if quirk { "super-inherited".into() } else { "super-included".into() }, tmpls: vec![t0, t1, t2] });
            }
        }
    }
    // block references and super() inside macro bodies, at top level and inside blocks
    for place in 0..3usize {
        for body in [
            vec![SelfCall(1)],
            vec![SetSelf(5, 1), Text("(".into()), EmitVar(5), Text(")".into())],
            vec![Super],
            vec![SelfCall(2)],
            vec![Incl { names: vec![2], ign: false }],
        ] {
            let mut t0 = Tmpl::default();
            t0.layout.push(tx("T0".into()));
            let mac = wrap(2, body.clone());
            match place {
                0 => t0.layout.extend(mac),
                1 => {
                    t0.layout.push(CallBlock(0));
                    let mut b = vec![tx("T0:b0".into())];
                    b.extend(mac);
                    t0.blocks.insert(0, b);
                }
                _ => {
                    t0.layout.insert(0, ext('s', 1));
                    t0.layout.push(CallBlock(0));
                    let mut b = vec![tx("T0:b0".into()), Super];
                    b.extend(mac);
                    t0.blocks.insert(0, b);
                }
            }
            t0.layout.push(CallBlock(1));
            t0.blocks.insert(1, vec![tx("T0:b1".into()), EmitVar(1)]);
            let mut t1 = Tmpl::default();
            t1.layout = vec![tx("T1".into()), CallBlock(0), CallBlock(1)];
            t1.blocks.insert(0, vec![tx("T1:b0".into())]);
            t1.blocks.insert(1, vec![tx("T1:b1".into())]);
            let t2 = simple(vec![tx("T2".into()), Super], vec![]);
            out.push(Case { fam: "macro-blocks".into(), tmpls: vec![t0, t1, t2] });
        }
    }
}

/// `{% autoescape %}` blocks nested directly in one another (2 and 3 deep, every combination of
/// modes), around variables, includes, imports, captured super() and block calls; the mode is
/// back to the enclosing block's after each `endautoescape`
fn nested_autoescape_families(out: &mut Vec<Case>) {
    let modes = ["html", "json", "none"];
    for a in modes {
        for b in modes {
            for c in ["", "html", "json", "none"] {
                for content in 0..5usize {
                    let inner: Vec<Item> = match content {
                        0 => vec![EmitVar(0)],
                        1 => vec![Incl { names: vec![1], ign: false }, EmitVar(0)],
                        2 => vec![ImportAs(1, 8), EmitAttr(8, 2), EmitVar(0)],
                        3 => vec![SetSelf(5, 1), EmitVar(5), EmitVar(0)],
                        _ => vec![InclArg { arg: Arg::names("lazy", &[50, 1]), ign: false }, SetVar(4, "s<4".into()), EmitVar(4)],
                    };
                    let mut l3 = inner.clone();
                    if !c.is_empty() {
                        l3 = vec![AutoEsc(c.into(), inner.clone()), EmitVar(0)];
                    }
                    let mut l2 = vec![EmitVar(0), AutoEsc(b.into(), l3), EmitVar(0)];
                    if content == 3 {
                        l2.push(Super);
                    }
                    let l1 = vec![Text("<1:".into()), AutoEsc(a.into(), l2), Text(":".into()), EmitVar(0), Text(">".into())];
                    let mut t0 = Tmpl { ext: "txt".into(), ..Tmpl::default() };
                    if content == 3 {
                        t0.layout = vec![ext('s', 2), CallBlock(0), CallBlock(1)];
                        t0.blocks.insert(0, l1);
                        t0.blocks.insert(1, vec![Text("<b1:".into()), EmitVar(0), Text(">".into())]);
                    } else {
                        t0.layout = l1;
                    }
                    let t1 = Tmpl {
                        ext: "html".into(),
                        layout: vec![Text("<inc:".into()), EmitVar(0), Text(">".into()), SetVar(2, "m<&".into())],
                        blocks: BTreeMap::new(),
                    };
                    let mut t2 = Tmpl { ext: "json".into(), ..Tmpl::default() };
                    t2.layout = vec![Text("<p>".into()), CallBlock(0)];
                    t2.blocks.insert(0, vec![Text("<p0:".into()), EmitVar(0), Text(">".into())]);
                    out.push(Case { fam: "ae-nested".into(), tmpls: vec![t0, t1, t2] });
                }
            }
        }
    }
}

/// Per-activation caches across the parent switch (family `local-ids`): child and parent use
/// DIFFERENT filters / tests at the same local ids, and the child's first use (local id 0) is hidden
/// — in a branch that is not taken, behind a short-circuit, in the body of a macro (its own
/// activation) or in a block (its own numbering) — so that the child's top-level activation fills
/// slot 1.. but not slot 0.  Enumerated: {filters, tests} x hiding x 3 names on 4 positions x
/// child's items before / behind the extends tag x extends mode (static, dynamic, conditional,
/// decided by a test) x chains of 2 and 3.
fn local_id_families(out: &mut Vec<Case>) {
    for kind in ['f', 't'] {
        let nm = |k: usize| format!("{kind}{k}");
        for hide in 0..5usize {
            for code in 0..81usize {
                let (a, b, c, d) = (code % 3, (code / 3) % 3, (code / 9) % 3, code / 27);
                if a == b || c == d {
                    continue;
                }
                for before in [false, true] {
                    for (mi, mode) in ['s', 'd', 'c', 'q'].into_iter().enumerate() {
                        // the full product for the static tag, a diagonal for the other modes
                        if mi > 0 && (code + hide + before as usize) % 4 != mi {
                            continue;
                        }
                        let first: Vec<Item> = match hide {
                            0 => vec![Fx(0, nm(a))],
                            1 => vec![Fx(1, nm(a))],
                            2 => vec![Fx(2, nm(a))],
                            3 => vec![InMacro(9, 1, "a<1>".into(), vec![Fx(0, nm(a))])],
                            _ => vec![CallBlock(1)],
                        };
                        let mut child: Vec<Item> = vec![];
                        let uses = |v: &mut Vec<Item>| {
                            v.extend(first.clone());
                            v.push(Text("<c:".into()));
                            v.push(Fx(0, nm(b)));
                            v.push(Text(">".into()));
                        };
                        if before {
                            uses(&mut child);
                        }
                        child.push(ext(mode, 1));
                        if !before {
                            uses(&mut child);
                        }
                        child.push(CallBlock(0));
                        let mut t0 = simple(child, vec![(0, vec![tx("T0:b0".into()), Fx(0, nm(d)), Super])]);
                        if hide == 4 {
                            t0.blocks.insert(1, vec![Fx(0, nm(a))]);
                        }
                        // three levels: the middle template extends the root conditionally and
                        // has uses of its own
                        let three = code % 2 == 1;
                        let parent_layout = |j: usize| {
                            vec![
                                Text(format!("<p{j}:")),
                                Fx(0, nm(c)),
                                Text(",".into()),
                                Fx(0, nm(d)),
                                Text(">".into()),
                                CallBlock(0),
                                Text("|".into()),
                                Fx(0, nm(a)),
                            ]
                        };
                        let mut tmpls = vec![t0];
                        if three {
                            let mut l = vec![Fx(1, nm(b)), Text("<m:".into()), Fx(0, nm(c)), Text(">".into())];
                            l.push(Extends { exec: true, mode: if mode == 'q' { 'q' } else { 'c' }, t: 2 });
                            l.push(Fx(0, nm(d)));
                            l.push(CallBlock(0));
                            tmpls.push(simple(l, vec![(0, vec![tx("T1:b0".into()), Fx(0, nm(c)), Super])]));
                            tmpls[0].layout.iter_mut().for_each(|it| {
                                if let Extends { t, .. } = it {
                                    *t = 1;
                                }
                            });
                        }
                        let j = tmpls.len();
                        tmpls.push(simple(parent_layout(j), vec![(0, vec![tx(format!("T{j}:b0")), Fx(0, nm(b))])]));
                        out.push(Case { fam: "local-ids".into(), tmpls });
                    }
                }
            }
        }
    }
    // an extends that is decided by a test, taken and not taken, with the child's other test hidden
    for exec in [true, false] {
        for hide in 1..3u8 {
            for k in 0..FX_TESTS.len() {
                let t0 = simple(
                    vec![Fx(hide, format!("t{k}")), Fx(0, format!("t{}", k + 1)), Extends { exec: true, mode: 's', t: 1 }, CallBlock(0)],
                    vec![(0, vec![tx("T0:b0".into()), Super])],
                );
                let t1 = simple(
                    vec![tx("T1:pre".into()), Extends { exec, mode: 'q', t: 2 }, tx("T1:post".into()), CallBlock(0), CallBlock(1)],
                    vec![(0, vec![tx("T1:b0".into())]), (1, vec![tx("T1:b1".into())])],
                );
                let t2 = simple(
                    vec![tx("T2:top".into()), CallBlock(0), CallBlock(1), tx("T2:end".into())],
                    vec![(0, vec![tx("T2:b0".into())]), (1, vec![tx("T2:b1".into())])],
                );
                out.push(Case { fam: "local-ids-cond".into(), tmpls: vec![t0, t1, t2] });
            }
        }
    }
}

/// Failure and recovery (family `recover`): chains of 2..3 templates whose block definitions
/// reach one another through super() — emitted before / after the text, captured — with a fuse
/// in the definition of level `at`, before or after that level's own super(); nested block b1
/// with a fuse of its own.  The recovery stream of `run_case` makes each fuse fail in turn.
fn recovery_families(out: &mut Vec<Case>) {
    let sup = [Asg::SuperBefore, Asg::SuperAfter, Asg::SuperCaptured];
    for len in 2..=3usize {
        for code in 0..(if len == 2 { 3 } else { 9 }) {
            for at in 0..len {
                for pos in 0..3usize {
                    for nest in [false, true] {
                        let mut asg = vec![];
                        for j in 0..len {
                            let a = if j + 1 == len { Asg::Plain } else { sup[(code / (if j == 0 { 1 } else { 3 })) % 3] };
                            asg.push([a, if nest { Asg::Plain } else { Asg::Absent }, if j % 2 == 0 { Asg::Plain } else { Asg::Absent }]);
                        }
                        let s = ChainSpec {
                            len,
                            asg,
                            nest: vec![nest; len],
                            modes: vec![('s', true); len],
                            pre_block: vec![false; len],
                        };
                        let mut tmpls = build_chain(&s);
                        let body = tmpls[at].blocks.get_mut(&0).unwrap();
                        let p = match pos {
                            0 => 0,
                            1 => body.len() / 2,
                            _ => body.len(),
                        };
                        body.insert(p, Fuse);
                        if nest {
                            if let Some(b1) = tmpls[len - 1].blocks.get_mut(&1) {
                                b1.push(Fuse);
                            }
                        }
                        // the same inside ONE render: the layout of the root first tries the block
                        // through the helper (the fuse fails at its k-th call), then renders it
                        let mut inr = tmpls.clone();
                        inr[len - 1].layout.insert(0, TryBlock(0, 1 + (code + pos) % 2));
                        if nest {
                            inr[len - 1].layout.insert(0, TryBlock(1, 1));
                        }
                        out.push(Case { fam: "recover".into(), tmpls });
                        out.push(Case { fam: "recover-in-render".into(), tmpls: inr });
                    }
                }
            }
        }
    }
}

/// sprinkles pure filter / test expressions (hidden or not) and fuses over a random chain and the
/// templates it includes / imports: any template, layout or block body, bare or wrapped in a loop / macro call / autoescape block
fn decorate(rng: &mut Rng, c: &mut Case, len: usize) {
    let kind = if rng.chance(1, 2) { 'f' } else { 't' };
    let plain = !c.fam.contains("+x");
    for j in 0..c.tmpls.len() {
        let t = &mut c.tmpls[j];
        // templates that cannot be loaded and pruned stubs stay as they are; the templates a
        // chain includes / imports get expressions and fuses of their own, less often
        if t.ext.contains('!') || (t.layout.is_empty() && t.blocks.is_empty()) || (j >= len && !rng.chance(1, 2)) {
            continue;
        }
        let n = rng.below(4) as usize;
        for _ in 0..n {
            let hide = match rng.below(5) {
                0 => 1,
                1 => 2,
                _ => 0,
            };
            let k = if kind == 'f' { 'f' } else if rng.chance(1, 8) { 'f' } else { 't' };
            let mut items = vec![Fx(hide, format!("{k}{}", rng.below(4)))];
            if rng.chance(1, 3) {
                items.push(Fuse);
            }
            let items = match rng.below(8) {
                0 => wrap(1, items),
                1 => wrap(2, items),
                2 => wrap(3, items),
                _ => items,
            };
            let keys: Vec<usize> =
                t.blocks.iter().filter(|(_, b)| !matches!(b.as_slice(), [Required])).map(|(k, _)| *k).collect();
            if !keys.is_empty() && rng.chance(2, 5) {
                let n = *rng.pick(&keys);
                let body = t.blocks.get_mut(&n).unwrap();
                let pos = rng.below(body.len() as u64 + 1) as usize;
                insert_at(body, pos, items);
            } else {
                let pos = rng.below(t.layout.len() as u64 + 1) as usize;
                insert_at(&mut t.layout, pos, items);
            }
        }
        // a helper that renders a block on the running State and swallows its failure: only at
        // the top level of a template of the chain (inside block bodies it would recurse), and
        // only in chains without include / import snippets (an included template that extends
        // the chain runs the layout — and the helper — again from inside the block: every level
        // swallows the recursion-limit error of the one below and carries on, exponentially)
        if plain && j < len && rng.chance(1, 3) {
            let n = rng.below(3) as usize;
            let k = 1 + rng.below(3) as usize;
            let pos = rng.below(t.layout.len() as u64 + 1) as usize;
            t.layout.insert(pos, TryBlock(n, k));
        }
        // an extends decided by a test instead of a variable
        if rng.chance(1, 3) {
            for it in t.layout.iter_mut() {
                if let Extends { mode, .. } = it {
                    if *mode == 'c' {
                        *mode = 'q';
                    }
                }
            }
        }
    }
    c.fam = format!("{}+fx", c.fam);
}

/// Several super() calls per definition (family `multi-super`): every definition of b0 at every
/// level of a chain of 3..4 templates holds a sequence of 0..3 super() calls, each either the
/// plain statement (`{{ super() }}`, FastSuper) or in value position (`{% set v5 = super() %}` then
/// printed: the captured path of perform_super), in every order.  Each super() renders the next
/// definition up, whatever ran before it in the same definition and from whichever depth the
/// definition itself was reached.  Exhaustive for 3 levels (sequences up to 3) and for 4 levels
/// (sequences up to 2 below the root, up to 1 in the third level).
fn multi_super_families(out: &mut Vec<Case>) {
    // sequences over {plain = 0, captured = 1} of length 0..=maxlen
    let seqs = |maxlen: usize| -> Vec<Vec<u8>> {
        let mut v: Vec<Vec<u8>> = vec![vec![]];
        let mut last: Vec<Vec<u8>> = vec![vec![]];
        for _ in 0..maxlen {
            let mut next = vec![];
            for s in &last {
                for f in [0u8, 1] {
                    let mut t = s.clone();
                    t.push(f);
                    next.push(t);
                }
            }
            v.extend(next.iter().cloned());
            last = next;
        }
        v
    };
    let body = |j: usize, forms: &[u8]| -> Vec<Item> {
        let mut b = vec![tx(format!("T{j}:b0"))];
        for (k, f) in forms.iter().enumerate() {
            if *f == 0 {
                b.push(Super);
            } else {
                b.push(SetSuper(5));
                b.push(Text("(".into()));
                b.push(EmitVar(5));
                b.push(Text(")".into()));
            }
            b.push(Text(format!("<{j}.{k}>")));
        }
        b
    };
    let exts = ["txt", "html", "json"];
    let mut push = |levels: Vec<Vec<u8>>, n: usize| {
        let len = levels.len() + 1;
        let mut tmpls = vec![];
        for (j, forms) in levels.iter().enumerate() {
            let mut t = simple(vec![ext('s', j + 1), CallBlock(0)], vec![(0, body(j, forms))]);
            t.ext = exts[(n + j) % 3].into();
            tmpls.push(t);
        }
        let mut root = simple(vec![tx("root".into()), CallBlock(0)], vec![(0, vec![tx(format!("T{}:b0", len - 1)), EmitVar(0)])]);
        root.ext = exts[n % 3].into();
        tmpls.push(root);
        out.push(Case { fam: "multi-super".into(), tmpls });
    };
    let mut n = 0;
    for a in seqs(3) {
        for b in seqs(3) {
            push(vec![a.clone(), b.clone()], n);
            n += 1;
        }
    }
    for a in seqs(2) {
        for b in seqs(2) {
            for c in seqs(1) {
                push(vec![a.clone(), b.clone(), c.clone()], n);
                n += 1;
            }
        }
    }
}

/// maps yield their keys in sorted order: put the candidates of map arguments into the order in
/// which the engine will iterate them (depends on the names the configuration gives the templates)
fn canon_maps(pr: &Pr, items: &mut [Item]) {
    for it in items.iter_mut() {
        match it {
            InclArg { arg, .. } | ImportArg(arg, _) | FromArg(arg, _, _) => {
                if arg.kind == "map" || arg.kind == "ctxmap" {
                    arg.cands.sort_by_key(|c| match c {
                        Cand::T(t) => pr.rf(*t),
                        _ => String::new(),
                    });
                    arg.cands.dedup();
                }
            }
            Loop(_, _, b) | InMacro(_, _, _, b) | AutoEsc(_, b) => canon_maps(pr, b),
            _ => {}
        }
    }
}

fn cases(tier: &str) -> Vec<Case> {
    let thorough = tier == "thorough";
    let mut rng = Rng::new(seed_from_env());
    let mut out = vec![];
    regressions(&mut out);
    mode_families(&mut out);
    load_error_families(&mut out);
    closure_families(&mut out, thorough);
    arg_families(&mut out);
    visibility_families(&mut out);
    super_included_families(&mut out);
    nested_autoescape_families(&mut out);
    local_id_families(&mut out);
    recovery_families(&mut out);
    multi_super_families(&mut out);
    error_families(&mut out);
    all_small(&mut out, thorough);
    let n_plain = if thorough { 50_000 } else { 2_500 };
    let n_extra = if thorough { 50_000 } else { 3_000 };
    for _ in 0..n_plain {
        out.push(random_chain(&mut rng, false));
    }
    for _ in 0..n_extra {
        out.push(random_chain(&mut rng, true));
    }
    // the same chains with pure filter / test expressions and fuses sprinkled over them
    let n_fx = if thorough { 30_000 } else { 2_000 };
    for k in 0..n_fx {
        let mut c = random_chain(&mut rng, k % 2 == 1);
        let len = c.fam.strip_prefix("chain").and_then(|s| s[..1].parse::<usize>().ok()).unwrap_or(1);
        decorate(&mut rng, &mut c, len);
        out.push(c);
    }
    // every case gets an environment configuration and an entry-point parameter (deterministic
    // in its position): loader-backed templates, custom syntax, path-join callback with
    // relative names, undefined behaviour, block index for the render_block streams
    for (k, c) in out.iter_mut().enumerate() {
        let mut h = Rng::new(k as u64 ^ 0xC06);
        let l = h.below(2);
        let sy = h.below(2);
        let p = h.below(2);
        let u = match h.below(6) {
            0 => 1,
            1 => 2,
            2 => 3,
            _ => 0,
        };
        let b = h.below(3);
        let nshape = match h.below(6) {
            0 => 1,
            1 => 2,
            _ => 0,
        };
        // templates that cannot be loaded only exist behind a loader
        let l = if c.tmpls.iter().any(|t| t.ext.contains('!')) { 1 } else { l };
        c.fam = format!("{}~{l}{sy}{p}{u}{b}{nshape}", c.fam);
        let exts: Vec<String> = c.tmpls.iter().map(|t| t.ext.clone()).collect();
        let pr = Pr { exts: exts.iter().map(|e| e.as_str()).collect(), cfg: cfg_of(&c.fam) };
        for t in c.tmpls.iter_mut() {
            canon_maps(&pr, &mut t.layout);
            for b in t.blocks.values_mut() {
                canon_maps(&pr, b);
            }
        }
    }
    out
}

// ------------------------------------------------------------------ main
fn work(tier: &str, start: usize) {
    let cs = cases(tier);
    let out = std::io::stdout();
    let mut out = out.lock();
    let first = start.min(cs.len());
    for (k, c) in cs[first..].iter().enumerate() {
        let o = run_case(c, first + k);
        writeln!(out, "{}\t{}\t{}\t{}\t{}\t{}\t{}\t{}", ser_case(c), o.res, o.detail, o.meta, o.rblock, o.fresh, o.recov, o.entry).unwrap();
        out.flush().unwrap();
    }
}

fn supervise(tier: &str) {
    use std::process::{Command, Stdio};
    use std::sync::mpsc;
    use std::time::Duration;
    let lines: Vec<String> = cases(tier).iter().map(ser_case).collect();
    let total = lines.len();
    let stdout = std::io::stdout();
    let mut stdout = std::io::BufWriter::new(stdout.lock());
    let mut next = 0usize;
    let mut restarts = 0;
    let mut hangs = 0;
    while next < total {
        if hangs >= 3 {
            // the engine hangs again and again: every further hang would cost the full timeout
            while next < total {
                writeln!(stdout, "{}\tskipped\tskipped-after-3-hangs\tskip\tskip\tskip\tskip\tskip", lines[next]).unwrap();
                next += 1;
            }
            break;
        }
        let mut child = Command::new(std::env::current_exe().unwrap())
            .args(["work", tier, &next.to_string()])
            .stdin(Stdio::null())
            .stdout(Stdio::piped())
            .stderr(Stdio::null())
            .spawn()
            .expect("spawn worker");
        let pipe = child.stdout.take().unwrap();
        let (txc, rxc) = mpsc::channel::<String>();
        let reader = std::thread::spawn(move || {
            for l in std::io::BufReader::new(pipe).lines() {
                match l {
                    Ok(l) => {
                        if txc.send(l).is_err() {
                            break;
                        }
                    }
                    Err(_) => break,
                }
            }
        });
        loop {
            match rxc.recv_timeout(Duration::from_secs(10)) {
                Ok(l) => {
                    writeln!(stdout, "{l}").unwrap();
                    next += 1;
                }
                Err(mpsc::RecvTimeoutError::Timeout) => {
                    let _ = child.kill();
                    let _ = child.wait();
                    hangs += 1;
                    if next < total {
                        writeln!(stdout, "{}\thang\thang\tskip\tskip\tskip\tskip\tskip", lines[next]).unwrap();
                        next += 1;
                    }
                    break;
                }
                Err(mpsc::RecvTimeoutError::Disconnected) => {
                    let st = child.wait().ok();
                    if next < total {
                        let code = st.map(|s| format!("{s}")).unwrap_or_default().replace([' ', '\t'], "_");
                        writeln!(stdout, "{}\tcrash:{}\tcrash\tskip\tskip\tskip\tskip\tskip", lines[next], code).unwrap();
                        next += 1;
                    }
                    break;
                }
            }
            if next >= total {
                let _ = child.wait();
                break;
            }
        }
        let _ = reader.join();
        restarts += 1;
        if restarts > 200 {
            // the engine dies on (nearly) every case: report the rest as crashed and stop
            while next < total {
                writeln!(stdout, "{}\tcrash:too-many-restarts\tcrash\tskip\tskip\tskip\tskip\tskip", lines[next]).unwrap();
                next += 1;
            }
        }
    }
    stdout.flush().unwrap();
}

fn main() {
    quiet_panics();
    let args: Vec<String> = std::env::args().collect();
    match args.get(1).map(|s| s.as_str()) {
        Some("gen") => supervise(args.get(2).map(|s| s.as_str()).unwrap_or("quick")),
        Some("work") => {
            let tier = args[2].clone();
            let start: usize = args[3].parse().unwrap();
            // the engine's recursion is bounded by its recursion limit; give it a main-thread
            // sized stack so that a native overflow is a finding of the engine, not of the harness
            let h = std::thread::Builder::new()
                .stack_size(8 << 20)
                .spawn(move || work(&tier, start))
                .unwrap();
            if h.join().is_err() {
                std::process::exit(3);
            }
        }
        Some("list") => {
            for c in cases(args.get(2).map(|s| s.as_str()).unwrap_or("quick")) {
                println!("{}", ser_case(&c));
            }
        }
        Some(cmd @ ("one" | "src")) => {
            let line = args[2..].join(" ");
            match parse_case(&line) {
                Ok(c) => {
                    if cmd == "src" {
                        let pr = Pr { exts: c.tmpls.iter().map(|t| t.ext.as_str()).collect(), cfg: cfg_of(&c.fam) };
                        for (i, t) in c.tmpls.iter().enumerate() {
                            match pr.broken(i) {
                                Some(k) => println!("{} [load error {k}]: {}", pr.reg(i), broken_source(&pr, i)),
                                None => println!("{}: {}", pr.reg(i), source_of(&pr, t)),
                            }
                        }
                    }
                    for variant in 0..12 {
                        let o = run_case(&c, variant);
                        if variant == 0 || o.meta.starts_with("diff") {
                            println!("{}\t{}\t{}\t{}\t{}\t{}\t{}\t{}", ser_case(&c), o.res, o.detail, o.meta, o.rblock, o.fresh, o.recov, o.entry);
                        }
                    }
                }
                Err(e) => {
                    eprintln!("bad case: {e}");
                    std::process::exit(2);
                }
            }
        }
        _ => {
            eprintln!("usage: c06 gen <quick|thorough> | work <tier> <start> | list <tier> | one <case> | src <case>");
            std::process::exit(2);
        }
    }
}
