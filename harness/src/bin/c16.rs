//! C16 harness: serde round trips through `minijinja::Value`, embedded-value identity, and the
//! JSON text of `tojson` / JSON auto-escaping.
//!
//! Output lines (`case<TAB>fields…`), one per case:
//!   rt <shape> ; <data>            \t <value canon> \t ok <data canon>|err:<msg kind> \t eq|ne
//!   x <shape> ; <data> ; <shape2>  \t <value canon> \t ok <data canon>|err           (cross-shape, model tie only)
//!   derived <Type> <seed>          \t ok|ne:…|err:…|panic:…
//!   embed <ctx> <kind> <seed>      \t same|diff:<what>
//!   json <mode> <value desc>       \t <hex of output>|err:<ErrorKind> \t alpha:ok|alpha:bad:<c>|alpha:na \t sj:ok|sj:bad|sj:skip:<why>|sj:refused
//!   rk <method> <repr>/<how> <value desc>  \t <probe text>|err|panic|owned/borrowed-differ [..] [..]   (c16_parts/reprs.rs)
//!   ff [-]<bits of the magnitude>   \t <hex of the token serde_json prints> \t rt:ok|rt:bad (Rust's reader)
//!
//! usage: c16 gen <quick|thorough> | c16 one <case fields…>
#[path = "c16_parts/de.rs"]
mod de;
#[path = "c16_parts/derived.rs"]
mod derived;
#[path = "c16_parts/lazy.rs"]
mod lazy;
#[path = "c16_parts/more.rs"]
mod more;
#[path = "c16_parts/regbuf.rs"]
mod regbuf;
#[path = "c16_parts/reprs.rs"]
mod reprs;
#[path = "c16_parts/shape.rs"]
mod shape;
#[path = "c16_parts/stdtypes.rs"]
mod stdtypes;
#[path = "c16_parts/val.rs"]
mod val;

use de::Seed;
use minijinja::value::{Serde, Tuple, Value};
use minijinja::{context, Environment};
use mjh::*;
use serde::de::DeserializeSeed;
use serde::ser::{SerializeMap, SerializeStruct};
use serde::{Serialize, Serializer};
use shape::*;
use std::collections::BTreeMap;
use std::io::Write;
use std::sync::Arc;
use val::*;

// ------------------------------------------------------------------------------------ generators
const NAMES: [&str; 13] = ["a", "b", "c", "type", "id", "f0", "value", "A", "x_y", "none", "a_field_name_longer_than_twenty_two_bytes", "naïve", "键"];
const VNAMES: [&str; 11] = ["A", "B", "C", "Dd", "none", "a", "Some", "type", "AVariantNameLongerThanTwentyTwoBytes", "Ünï", "0"];
const TNAMES: [&str; 4] = ["T", "Point", "E", "Wrapper"];

fn gen_leaf(r: &mut Rng) -> Shape {
    match r.below(15) {
        0 => Shape::Bool,
        1 => Shape::U8,
        2 => Shape::U16,
        3 => Shape::U32,
        4 => Shape::U64,
        5 => Shape::I8,
        6 => Shape::I16,
        7 => Shape::I32,
        8 => Shape::I64,
        9 => Shape::F32,
        10 => Shape::F64,
        11 => Shape::Char,
        12 => Shape::Str,
        13 => Shape::Bytes,
        _ => Shape::Unit,
    }
}

fn distinct_names(r: &mut Rng, pool: &[&'static str], n: usize) -> Vec<&'static str> {
    let mut v: Vec<&'static str> = vec![];
    while v.len() < n {
        let c = *r.pick(pool);
        if !v.contains(&c) {
            v.push(c);
        }
    }
    v
}

/// can a value of this shape serialise to `none`?  (then `Some(x)` and `None` are indistinguishable:
/// the statement only promises options of non-optional, non-unit payloads)
fn may_be_none(s: &Shape) -> bool {
    match s {
        Shape::Unit | Shape::UStruct(_) | Shape::Opt(_) => true,
        Shape::NStruct(_, inner) => may_be_none(inner),
        _ => false,
    }
}

fn has_float(s: &Shape) -> bool {
    match s {
        Shape::F32 | Shape::F64 => true,
        Shape::Opt(a) | Shape::Seq(a) | Shape::NStruct(_, a) => has_float(a),
        Shape::Map(a, b) => has_float(a) || has_float(b),
        Shape::Tup(ss) | Shape::TStruct(_, ss) => ss.iter().any(has_float),
        Shape::Struct(_, fs) => fs.iter().any(|f| has_float(&f.1)),
        Shape::Enum(_, vs) => vs.iter().any(|v| match &v.1 {
            VShape::Unit => false,
            VShape::Newtype(s) => has_float(s),
            VShape::Tuple(ss) => ss.iter().any(has_float),
            VShape::Struct(fs) => fs.iter().any(|f| has_float(&f.1)),
        }),
        _ => false,
    }
}

fn gen_fields(r: &mut Rng, depth: u32, max: u64) -> Vec<(&'static str, Shape)> {
    let n = r.below(max + 1) as usize;
    distinct_names(r, &NAMES, n).into_iter().map(|nm| (nm, gen_shape(r, depth))).collect()
}

fn gen_key_shape(r: &mut Rng, depth: u32) -> Shape {
    if r.chance(4, 5) || depth == 0 {
        match r.below(10) {
            0 => Shape::Bool,
            1 => Shape::U8,
            2 => Shape::I64,
            3 => Shape::U64,
            4 => Shape::Char,
            5 => Shape::I16,
            // float keys (no NaN, no two keys of one numeric value: see `gen_data`)
            8 => Shape::F64,
            9 => Shape::F32,
            6 => {
                let n = 1 + r.below(3) as usize;
                Shape::Enum("K", distinct_names(r, &VNAMES, n).into_iter().map(|v| (v, VShape::Unit)).collect())
            }
            _ => Shape::Str,
        }
    } else {
        loop {
            let s = gen_shape(r, depth - 1);
            if !has_float(&s) {
                return s;
            }
        }
    }
}

fn gen_shape(r: &mut Rng, depth: u32) -> Shape {
    if depth == 0 || r.chance(1, 4) {
        return gen_leaf(r);
    }
    let d = depth - 1;
    match r.below(11) {
        0 => loop {
            let inner = gen_shape(r, d);
            if !may_be_none(&inner) {
                return Shape::Opt(Box::new(inner));
            }
        },
        1 => Shape::Seq(Box::new(gen_shape(r, d))),
        2 => Shape::Map(Box::new(gen_key_shape(r, d)), Box::new(gen_shape(r, d))),
        3 => Shape::Tup((0..1 + r.below(3)).map(|_| gen_shape(r, d)).collect()),
        4 => Shape::UStruct(*r.pick(&TNAMES)),
        5 => Shape::NStruct(*r.pick(&TNAMES), Box::new(gen_shape(r, d))),
        6 => Shape::TStruct(*r.pick(&TNAMES), (0..r.below(4)).map(|_| gen_shape(r, d)).collect()),
        7 | 8 => Shape::Struct(*r.pick(&TNAMES), gen_fields(r, d, 4)),
        _ => {
            let n = 1 + r.below(4) as usize;
            let names = distinct_names(r, &VNAMES, n);
            Shape::Enum(
                *r.pick(&TNAMES),
                names
                    .into_iter()
                    .map(|nm| {
                        let v = match r.below(4) {
                            0 => VShape::Unit,
                            1 => VShape::Newtype(gen_shape(r, d)),
                            2 => VShape::Tuple((0..r.below(4)).map(|_| gen_shape(r, d)).collect()),
                            _ => VShape::Struct(gen_fields(r, d, 3)),
                        };
                        (nm, v)
                    })
                    .collect(),
            )
        }
    }
}

const STR_POOL: &[&str] = &[
    "", "a", "A", "type", "none", "hello world", "<script>&'\"</script>", "\u{0}", "\u{1}\u{1f}\t\n\r\u{8}\u{c}", "\u{7f}\u{80}\u{85}",
    "\u{2028}\u{2029}", "\\ud800", "\\", "\"", "ß€𝄞\u{10ffff}", "a string that is longer than twenty-two bytes", "1", "true", "\u{1}__minijinja_ValueHandle",
];

fn gen_string(r: &mut Rng) -> String {
    if r.chance(1, 2) {
        return r.pick(STR_POOL).to_string();
    }
    const ALPHA: &[char] = &[
        'a', 'b', 'Z', '0', ' ', '<', '>', '&', '\'', '"', '\\', '/', '\0', '\u{1}', '\u{8}', '\t', '\n', '\u{b}', '\u{c}', '\r', '\u{1f}', '\u{7f}', '\u{80}', '\u{85}',
        '\u{a0}', 'é', '\u{2028}', '\u{2029}', '€', '\u{fffd}', '\u{feff}', '𝄞', '\u{10ffff}', 'u', 'd', '8',
    ];
    (0..r.below(9)).map(|_| *r.pick(ALPHA)).collect()
}

fn gen_char(r: &mut Rng) -> char {
    match r.below(4) {
        0 => *r.pick(&['\0', '<', '>', '&', '\'', '"', '\\', '\u{7f}', '\u{2028}', '\u{d7ff}', '\u{e000}', '\u{10ffff}', 'a', ' ']),
        1 => char::from_u32(r.below(0x80) as u32).unwrap(),
        _ => loop {
            if let Some(c) = char::from_u32(r.below(0x110000) as u32) {
                break c;
            }
        },
    }
}

fn gen_int(r: &mut Rng, lo: i128, hi: i128) -> i128 {
    match r.below(8) {
        0 => lo,
        1 => hi,
        2 => 0,
        3 => lo + 1,
        4 => hi - 1,
        5 => (1i128).min(hi),
        6 => ((r.next() as i128) % (hi - lo + 1) + lo).clamp(lo, hi),
        _ => {
            // around powers of two inside the range
            let p = 1i128 << r.below(64);
            let c = p + (r.below(3) as i128) - 1;
            let c = if r.chance(1, 2) { -c } else { c };
            c.clamp(lo, hi)
        }
    }
}

fn gen_f32(r: &mut Rng) -> u32 {
    let b = match r.below(4) {
        0 => *r.pick(&[
            0u32, 0x8000_0000, 0x3f80_0000, 0xbf80_0000, 1, 0x007f_ffff, 0x0080_0000, 0x7f7f_ffff, 0x7f80_0000, 0xff80_0000, 0x7fc0_0000, 0x3dcc_cccd, 0x8000_0001, 0x0040_0000,
            // NaNs with sign and payload (the conversion to f64 keeps both)
            0xffc0_0000, 0x7fc0_0001, 0xffc0_0001, 0x7fff_ffff, 0xffff_ffff, 0x7fe0_0000, 0x7fd5_5555, 0xffea_aaaa,
        ]),
        1 => r.below(0x0080_0000) as u32 | ((r.below(2) as u32) << 31), // subnormals
        _ => r.next() as u32,
    };
    // signalling NaNs are quieted by the hardware conversion f32 -> f64: keep NaNs quiet
    if f32::from_bits(b).is_nan() {
        b | 0x0040_0000
    } else {
        b
    }
}

fn gen_f64(r: &mut Rng) -> u64 {
    match r.below(5) {
        4 => more::tie_f64(r),
        0 => *r.pick(&[
            0u64, 1 << 63, 0x3ff0_0000_0000_0000, 0xbff0_0000_0000_0000, 1, 0x000f_ffff_ffff_ffff, 0x0010_0000_0000_0000, 0x7fef_ffff_ffff_ffff, 0x7ff0_0000_0000_0000,
            0xfff0_0000_0000_0000, 0x7ff8_0000_0000_0000, 0x3fb9_9999_9999_999a, 0x4340_0000_0000_0001, 0x43e0_0000_0000_0000, 0x7ff0_0000_0000_0001, 0xfff8_0000_0000_1234,
            0xfff8_0000_0000_0000, 0x7fff_ffff_ffff_ffff, 0xffff_ffff_ffff_ffff, 0x7ff8_0000_0000_0001, 0x7ffc_0000_0000_0000,
            // exact ties between two shortest digit strings (900719925474099.25, 562949953421312.75, …)
            0x4309_9999_9999_999a, 0x4300_0000_0000_0003, 0x42f0_0000_0000_0001,
        ]),
        1 => f64::to_bits((r.below(2001) as f64 - 1000.0) / 8.0),
        2 => f64::to_bits(f64::from_bits(r.next()) as f32 as f64),
        _ => r.next(),
    }
}

fn gen_list(r: &mut Rng, ss: &[Shape], depth: u32) -> Dyn {
    Dyn::List(ss.iter().map(|s| gen_data(r, s, depth)).collect())
}

fn gen_data(r: &mut Rng, s: &Shape, depth: u32) -> Dyn {
    match s {
        Shape::Bool => Dyn::Bool(r.chance(1, 2)),
        Shape::U8 => Dyn::Int(gen_int(r, 0, u8::MAX as i128)),
        Shape::U16 => Dyn::Int(gen_int(r, 0, u16::MAX as i128)),
        Shape::U32 => Dyn::Int(gen_int(r, 0, u32::MAX as i128)),
        Shape::U64 => Dyn::Int(gen_int(r, 0, u64::MAX as i128)),
        Shape::I8 => Dyn::Int(gen_int(r, i8::MIN as i128, i8::MAX as i128)),
        Shape::I16 => Dyn::Int(gen_int(r, i16::MIN as i128, i16::MAX as i128)),
        Shape::I32 => Dyn::Int(gen_int(r, i32::MIN as i128, i32::MAX as i128)),
        Shape::I64 => Dyn::Int(gen_int(r, i64::MIN as i128, i64::MAX as i128)),
        Shape::F32 => Dyn::F32(gen_f32(r)),
        Shape::F64 => Dyn::F64(gen_f64(r)),
        Shape::Char => Dyn::Char(gen_char(r)),
        Shape::Str => Dyn::Str(gen_string(r)),
        Shape::Bytes => Dyn::Bytes((0..r.below(5)).map(|_| *r.pick(&[0u8, 1, 0x7f, 0x80, 0xff, b'<', b'a'])).collect()),
        Shape::Unit | Shape::UStruct(_) => Dyn::Unit,
        Shape::Opt(inner) => {
            if r.chance(1, 3) {
                Dyn::None
            } else {
                Dyn::Some(Box::new(gen_data(r, inner, depth)))
            }
        }
        Shape::Seq(inner) => Dyn::List((0..r.below(4)).map(|_| gen_data(r, inner, depth)).collect()),
        Shape::Map(k, v) => {
            let mut ents: Vec<(Dyn, Dyn)> = vec![];
            let mut seen: Vec<String> = vec![];
            for _ in 0..r.below(4) {
                let key = gen_data(r, k, depth);
                // float keys: NaN is not a usable key, -0.0 and 0.0 are one key
                let kt = match &key {
                    Dyn::F64(b) if f64::from_bits(*b).is_nan() => continue,
                    Dyn::F32(b) if f32::from_bits(*b).is_nan() => continue,
                    Dyn::F64(b) => format!("n{:?}", f64::from_bits(*b) + 0.0),
                    Dyn::F32(b) => format!("n{:?}", f32::from_bits(*b) as f64 + 0.0),
                    _ => key.to_text(true),
                };
                if seen.contains(&kt) {
                    continue;
                }
                seen.push(kt);
                ents.push((key, gen_data(r, v, depth)));
            }
            Dyn::Map(ents)
        }
        Shape::Tup(ss) | Shape::TStruct(_, ss) => gen_list(r, ss, depth),
        Shape::NStruct(_, inner) => gen_data(r, inner, depth),
        Shape::Struct(_, fs) => Dyn::List(fs.iter().map(|f| gen_data(r, &f.1, depth)).collect()),
        Shape::Enum(_, vs) => {
            let i = r.below(vs.len() as u64) as usize;
            let p = match &vs[i].1 {
                VShape::Unit => Dyn::Unit,
                VShape::Newtype(s1) => gen_data(r, s1, depth),
                VShape::Tuple(ss) => gen_list(r, ss, depth),
                VShape::Struct(fs) => Dyn::List(fs.iter().map(|f| gen_data(r, &f.1, depth)).collect()),
            };
            Dyn::Variant(i, Box::new(p))
        }
    }
}

// ------------------------------------------------------------------------------------ rt stream
fn err_class(e: &minijinja::Error) -> String {
    format!("err:{}", error_kind_name(e))
}

fn de_text(shape: &Shape, v: &Value) -> String {
    let owned = guarded(|| Seed(shape).deserialize(v.clone()));
    let borrowed = guarded(|| Seed(shape).deserialize(v));
    let show = |x: &Result<Result<Dyn, minijinja::Error>, String>| match x {
        Ok(Ok(d)) => format!("ok {}", d.to_text(true)),
        Ok(Err(e)) => err_class(e),
        Err(_) => "panic".to_string(),
    };
    let (a, b) = (show(&owned), show(&borrowed));
    if a == b {
        a
    } else {
        format!("owned/borrowed-differ [{a}] [{b}]")
    }
}

fn run_rt(shape: &Shape, data: &Dyn) -> String {
    let v = match guarded(|| Value::from(Serde(WithShape(shape, data)))) {
        Ok(v) => v,
        Err(_) => return "panic\tpanic\tne".into(),
    };
    let sc = canon_value(&v);
    let dt = de_text(shape, &v);
    let verdict = if dt == format!("ok {}", data.to_text(true)) { "eq" } else { "ne" };
    format!("{sc}\t{dt}\t{verdict}")
}

fn run_cross(shape: &Shape, data: &Dyn, shape2: &Shape) -> String {
    let v = match guarded(|| Value::from(Serde(WithShape(shape, data)))) {
        Ok(v) => v,
        Err(_) => return "panic\tpanic".into(),
    };
    let dt = de_text(shape2, &v);
    let dt = if dt.starts_with("err:") { "err".to_string() } else { dt };
    format!("{}\t{}", canon_value(&v), dt)
}

// ------------------------------------------------------------------------------------ embed stream
#[derive(Serialize)]
struct Holder {
    before: u8,
    v: Value,
    after: String,
}
#[derive(Serialize)]
enum EmbedEnum {
    New(Value),
    Tup(u8, Value),
    Str { v: Value },
}
struct KeyMap(Vec<(Value, u8)>);
impl Serialize for KeyMap {
    fn serialize<S: Serializer>(&self, s: S) -> Result<S::Ok, S::Error> {
        let mut m = s.serialize_map(Some(self.0.len()))?;
        for (i, (k, v)) in self.0.iter().enumerate() {
            if i % 2 == 0 {
                m.serialize_entry(k, v)?;
            } else {
                m.serialize_key(k)?;
                m.serialize_value(v)?;
            }
        }
        m.end()
    }
}
/// a `Serialize` impl that, while the engine serialises it, dumps an embedded value with a *different*
/// serializer (e.g. for logging): the value handle it allocates is never consumed
struct Leaky(Value);
impl Serialize for Leaky {
    fn serialize<S: Serializer>(&self, s: S) -> Result<S::Ok, S::Error> {
        let _ = serde_json::to_string(&self.0);
        s.serialize_u8(1)
    }
}
/// a `Serialize` impl that converts an inner structure to a `Value` first and serialises that
struct Nested(Value);
impl Serialize for Nested {
    fn serialize<S: Serializer>(&self, s: S) -> Result<S::Ok, S::Error> {
        let inner = Value::from(Serde(Holder { before: 7, v: self.0.clone(), after: "n".into() }));
        let mut st = s.serialize_struct("Nested", 2)?;
        st.serialize_field("inner", &inner)?;
        st.serialize_field("direct", &self.0)?;
        st.end()
    }
}

const EMBED_KINDS: [&str; 18] = [
    "safe", "undef", "none", "dynobj", "plain", "seqval", "tuple", "iter", "bytes", "u128", "invalid", "longstr", "smallstr", "mapval",
    "oneshot", "lazyf", "cseq", "cmap",
];
const EMBED_CTX: [&str; 22] = [
    "field", "seq", "mapval", "mapkey", "some", "newvariant", "tupvariant", "structvariant", "tuple", "nested", "afterleak", "viavalue", "top",
    "aftererror", "afterpanic", "nestedpanic", "flatstruct", "flattuple", "tagged", "flat5", "taggedmany", "buffer3",
];

/// shapes for which serde buffers the variant's fields (its private ContentSerializer) before it
/// forwards them: several value handles are alive at once
#[derive(Serialize)]
enum Payload {
    Moved { from: Value, to: Value },
    Pair(Value, Value),
    Five { a: Value, b: Value, c: Value, d: Value, e: Value },
    Many(Vec<Value>, Value),
}
#[derive(Serialize)]
struct Event {
    id: u32,
    #[serde(flatten)]
    payload: Payload,
}
#[derive(Serialize)]
#[serde(tag = "kind")]
enum Tagged {
    Wrapped(Payload),
}

/// serialises an embedded value, then fails
struct FailAfter(Value);
impl Serialize for FailAfter {
    fn serialize<S: Serializer>(&self, s: S) -> Result<S::Ok, S::Error> {
        let mut st = s.serialize_struct("FailAfter", 2)?;
        st.serialize_field("v", &self.0)?;
        Err(serde::ser::Error::custom("deliberate failure"))
    }
}
/// serialises an embedded value, then panics
struct PanicAfter(Value);
impl Serialize for PanicAfter {
    fn serialize<S: Serializer>(&self, s: S) -> Result<S::Ok, S::Error> {
        let mut st = s.serialize_struct("PanicAfter", 2)?;
        st.serialize_field("v", &self.0)?;
        panic!("deliberate panic in Serialize")
    }
}
/// runs a nested conversion that panics (caught), then embeds the value directly
struct CatchInside(Value, std::sync::atomic::AtomicBool);
impl Serialize for CatchInside {
    fn serialize<S: Serializer>(&self, s: S) -> Result<S::Ok, S::Error> {
        let v = self.0.clone();
        let _ = std::panic::catch_unwind(std::panic::AssertUnwindSafe(|| Value::from(Serde(PanicAfter(v)))));
        self.1.store(minijinja::value::serializing_for_value(), std::sync::atomic::Ordering::SeqCst);
        let mut st = s.serialize_struct("CatchInside", 1)?;
        st.serialize_field("direct", &self.0)?;
        st.end()
    }
}

fn mk_embed(kind: &str, r: &mut Rng) -> Value {
    match kind {
        "safe" => Value::from_safe_string(gen_string(r)),
        "undef" => Value::UNDEFINED,
        "none" => Value::from(()),
        "dynobj" => Value::from_object(DynMapObj(r.below(1000) as u32)),
        "plain" => Value::from_object(PlainObj(gen_string(r))),
        "seqval" => Value::from(vec![Value::from(1), Value::from_safe_string("<b>".into()), Value::UNDEFINED]),
        "tuple" => Value::from(Tuple::from(vec![Value::from(1), Value::from("x")])),
        "iter" => Value::make_iterable(|| 0..3),
        "bytes" => Value::from_bytes(vec![0, 255, 60]),
        "u128" => Value::from(u128::MAX - r.below(5) as u128),
        "invalid" => Value::from(minijinja::Error::new(minijinja::ErrorKind::InvalidOperation, "boom")),
        "longstr" => Value::from("a string that is longer than twenty-two bytes <&>"),
        "smallstr" => Value::from("<b>"),
        "mapval" => Value::from_pairs([(Value::from(1), Value::UNDEFINED), (Value::from("k"), Value::from_safe_string("s".into()))]),
        "oneshot" => Value::make_one_shot_iterator(1..4),
        "lazyf" => Value::make_iterable(|| (1..6).filter(|x| x % 2 == 1)),
        "cseq" => lazy::build_lazy_seq(*r.pick(&["cq", "cv", "ci", "cr", "cn", "ch"]), vec![Value::from(1), Value::UNDEFINED]),
        "cmap" => lazy::build_lazy_map(*r.pick(&lazy::LAZY_MAP_KINDS), vec![(Value::from("a"), Value::from(1))]),
        _ => panic!("bad kind"),
    }
}

/// is `b` the very same value as `a`?
fn same_value(a: &Value, b: &Value) -> Result<(), String> {
    if a.kind() != b.kind() {
        return Err(format!("kind {:?} became {:?}", a.kind(), b.kind()));
    }
    if a.is_undefined() != b.is_undefined() || a.is_none() != b.is_none() {
        return Err("undefined/none changed".into());
    }
    if a.is_safe() != b.is_safe() {
        return Err("safe flag changed".into());
    }
    if a.as_object().is_some() {
        macro_rules! ptr {
            ($t:ty) => {
                if let Some(x) = a.downcast_object::<$t>() {
                    return match b.downcast_object::<$t>() {
                        Some(y) if Arc::ptr_eq(&x, &y) => Ok(()),
                        _ => Err("object is not pointer-identical".into()),
                    };
                }
            };
        }
        ptr!(DynMapObj);
        ptr!(PlainObj);
        ptr!(lazy::CustomSeq);
        ptr!(lazy::CustomMap);
        ptr!(Vec<Value>);
        ptr!(Tuple);
        // other objects (closures of make_iterable, private map types): compare by type name + content
        if a.as_object().map(|o| o.type_name()) != b.as_object().map(|o| o.type_name()) {
            return Err("object type changed".into());
        }
    }
    // the other value first: a one-shot iterator that is the very same object is exhausted afterwards
    let cb = canon_value(b);
    let ca = canon_value(a);
    if ca != cb && !(ca == "L 0" && (cb == "L 3 i1 i2 i3")) {
        return Err(format!("content {ca} became {cb}"));
    }
    Ok(())
}

fn run_embed(ctx: &str, kind: &str, seed: u64) -> String {
    let r = &mut Rng::new(seed);
    let v = mk_embed(kind, r);
    let w = mk_embed(EMBED_KINDS[r.below(EMBED_KINDS.len() as u64) as usize], r);
    let probe = Arc::new(DynMapObj(4242));
    let pv = Value::from_dyn_object(probe.clone());
    let base = Arc::strong_count(&probe);
    let res = guarded(|| -> Result<(), String> {
        let get = |o: &Value, k: &str| o.get_attr(k).map_err(|e| e.to_string());
        let idx = |o: &Value, i: usize| o.get_item_by_index(i).map_err(|e| e.to_string());
        let field_check = |out: &Value| -> Result<(), String> {
            same_value(&v, &get(out, "v")?)?;
            if get(out, "before")? != Value::from(3) || get(out, "after")?.as_str() != Some("z") {
                return Err("neighbouring fields changed".into());
            }
            Ok(())
        };
        let holder = || Holder { before: 3, v: v.clone(), after: "z".into() };
        match ctx {
            "field" => field_check(&Value::from(Serde(holder())))?,
            "top" => same_value(&v, &Value::from(Serde(&v)))?,
            "seq" => {
                let out = Value::from(Serde(vec![v.clone(), w.clone(), pv.clone(), v.clone()]));
                same_value(&v, &idx(&out, 0)?)?;
                same_value(&w, &idx(&out, 1)?)?;
                same_value(&pv, &idx(&out, 2)?)?;
                same_value(&v, &idx(&out, 3)?)?;
            }
            "mapval" => {
                let mut m = BTreeMap::new();
                m.insert("first".to_string(), v.clone());
                m.insert("second".to_string(), w.clone());
                let out = Value::from(Serde(m));
                same_value(&v, &get(&out, "first")?)?;
                same_value(&w, &get(&out, "second")?)?;
            }
            "mapkey" if matches!(kind, "oneshot" | "lazyf" | "cseq" | "cmap") => {
                // lazily produced values are not usable as keys of an ordered map (comparing them
                // consumes them or fails): out of scope here
            }
            "mapkey" => {
                let out = Value::from(Serde(KeyMap(vec![(v.clone(), 1), (pv.clone(), 2)])));
                let keys: Vec<Value> = out.try_iter().map_err(|e| e.to_string())?.collect();
                if v.is_undefined() || matches!(kind, "invalid" | "iter") {
                    // not usable as a key of an ordered map in a stable way: only require presence of the probe
                } else if !keys.iter().any(|k| same_value(&v, k).is_ok()) {
                    return Err("embedded key not found among the keys".into());
                }
                if !keys.iter().any(|k| same_value(&pv, k).is_ok()) {
                    return Err("probe key not found among the keys".into());
                }
            }
            "some" => {
                let out = Value::from(Serde(Some(v.clone())));
                same_value(&v, &out)?;
            }
            "newvariant" => same_value(&v, &get(&Value::from(Serde(EmbedEnum::New(v.clone()))), "New")?)?,
            "tupvariant" => {
                let out = Value::from(Serde(EmbedEnum::Tup(9, v.clone())));
                same_value(&v, &idx(&get(&out, "Tup")?, 1)?)?;
            }
            "structvariant" => {
                let out = Value::from(Serde(EmbedEnum::Str { v: v.clone() }));
                same_value(&v, &get(&get(&out, "Str")?, "v")?)?;
            }
            "tuple" => {
                let out = Value::from(Serde((1u8, v.clone(), (w.clone(), pv.clone()))));
                same_value(&v, &idx(&out, 1)?)?;
                same_value(&w, &idx(&idx(&out, 2)?, 0)?)?;
                same_value(&pv, &idx(&idx(&out, 2)?, 1)?)?;
            }
            "nested" => {
                let mut m = BTreeMap::new();
                m.insert("h".to_string(), holder());
                let out = Value::from(Serde(vec![m]));
                field_check(&get(&idx(&out, 0)?, "h")?)?;
            }
            "afterleak" => {
                // several unconsumed handles, then embedded values must still come back right
                let out0 = Value::from(Serde((Leaky(w.clone()), v.clone(), Leaky(pv.clone()), Leaky(v.clone()), w.clone(), pv.clone())));
                same_value(&v, &idx(&out0, 1)?)?;
                same_value(&w, &idx(&out0, 4)?)?;
                same_value(&pv, &idx(&out0, 5)?)?;
                field_check(&Value::from(Serde(holder())))?;
            }
            "flatstruct" => {
                let out = Value::from(Serde(Event { id: 1, payload: Payload::Moved { from: v.clone(), to: w.clone() } }));
                let m = get(&out, "Moved")?;
                same_value(&v, &get(&m, "from")?)?;
                same_value(&w, &get(&m, "to")?)?;
            }
            "flattuple" => {
                let out = Value::from(Serde(Event { id: 2, payload: Payload::Pair(pv.clone(), v.clone()) }));
                let p = get(&out, "Pair")?;
                same_value(&pv, &idx(&p, 0)?)?;
                same_value(&v, &idx(&p, 1)?)?;
            }
            "tagged" => {
                let out = Value::from(Serde(Tagged::Wrapped(Payload::Moved { from: v.clone(), to: pv.clone() })));
                let m = get(&out, "Moved")?;
                same_value(&v, &get(&m, "from")?)?;
                same_value(&pv, &get(&m, "to")?)?;
            }
            "flat5" => {
                let out = Value::from(Serde(Event {
                    id: 5,
                    payload: Payload::Five { a: v.clone(), b: w.clone(), c: pv.clone(), d: Value::UNDEFINED, e: Value::from_safe_string("<e>".into()) },
                }));
                let m = get(&out, "Five")?;
                same_value(&v, &get(&m, "a")?)?;
                same_value(&w, &get(&m, "b")?)?;
                same_value(&pv, &get(&m, "c")?)?;
                same_value(&Value::UNDEFINED, &get(&m, "d")?)?;
                same_value(&Value::from_safe_string("<e>".into()), &get(&m, "e")?)?;
            }
            "taggedmany" => {
                let out = Value::from(Serde(Tagged::Wrapped(Payload::Many(vec![v.clone(), pv.clone(), w.clone()], v.clone()))));
                let m = get(&out, "Many")?;
                let l = idx(&m, 0)?;
                same_value(&v, &idx(&l, 0)?)?;
                same_value(&pv, &idx(&l, 1)?)?;
                same_value(&w, &idx(&l, 2)?)?;
                same_value(&v, &idx(&m, 1)?)?;
            }
            "buffer3" => {
                // the harness' own buffering adapter: three handles alive, resolved in reverse
                let a = regbuf::Adapter { values: vec![v.clone(), w.clone(), pv.clone()], order: vec![2, 1, 0], handles: Default::default() };
                let out = Value::from(Serde(&a));
                same_value(&pv, &idx(&out, 0)?)?;
                same_value(&w, &idx(&out, 1)?)?;
                same_value(&v, &idx(&out, 2)?)?;
            }
            "aftererror" => {
                let bad = Value::from(Serde(FailAfter(v.clone())));
                if bad.kind() != minijinja::value::ValueKind::Invalid {
                    return Err("a failing Serialize did not yield an invalid value".into());
                }
                if minijinja::value::serializing_for_value() {
                    return Err("serializing_for_value() still set after a failed conversion".into());
                }
                field_check(&Value::from(Serde(holder())))?;
            }
            "afterpanic" => {
                let vv = v.clone();
                let r = std::panic::catch_unwind(std::panic::AssertUnwindSafe(|| Value::from(Serde(PanicAfter(vv)))));
                if r.is_ok() {
                    return Err("panic did not propagate".into());
                }
                if minijinja::value::serializing_for_value() {
                    return Err("serializing_for_value() still set after a conversion that panicked".into());
                }
                field_check(&Value::from(Serde(holder())))?;
                // serde_json (an external serializer) must now see the plain value, not a handle
                if serde_json::to_string(&Value::from(7)).ok().as_deref() != Some("7") {
                    return Err("external serializer sees a value handle after a panicked conversion".into());
                }
            }
            "nestedpanic" => {
                let c = CatchInside(v.clone(), std::sync::atomic::AtomicBool::new(false));
                let out = Value::from(Serde(&c));
                if !c.1.load(std::sync::atomic::Ordering::SeqCst) {
                    return Err("flag cleared inside the outer conversion by a nested one that panicked".into());
                }
                same_value(&v, &get(&out, "direct")?)?;
                if minijinja::value::serializing_for_value() {
                    return Err("serializing_for_value() still set afterwards".into());
                }
            }
            "viavalue" => {
                let out = Value::from(Serde(Nested(v.clone())));
                same_value(&v, &get(&out, "direct")?)?;
                field_check_inner(&v, &get(&out, "inner")?)?;
            }
            _ => return Err("bad ctx".into()),
        }
        Ok(())
    });
    let verdict = match res {
        Ok(Ok(())) => "same".to_string(),
        Ok(Err(e)) => format!("diff:{e}"),
        Err(p) => format!("diff:panic:{p}"),
    };
    // registry hygiene: nothing may keep the probe object alive after a completed conversion
    // (the deliberately leaking context keeps exactly the leaked clones)
    let after = Arc::strong_count(&probe);
    if verdict == "same" && ctx != "afterleak" && after != base {
        return format!("diff:registry keeps {} extra reference(s) to an embedded object", after - base);
    }
    verdict
}

fn field_check_inner(v: &Value, out: &Value) -> Result<(), String> {
    same_value(v, &out.get_attr("v").map_err(|e| e.to_string())?)?;
    if out.get_attr("before").ok() != Some(Value::from(7)) {
        return Err("neighbouring fields changed".into());
    }
    Ok(())
}

// ------------------------------------------------------------------------------------ json stream
const JSON_MODES: [&str; 20] = [
    "tojson", "tojson_true", "tojson_kw3", "tojson_0", "auto_json", "auto_js", "tojson_in_html", "sj_string", "sj_pretty", "tojson_expr", "auto_write",
    // further entry points: the escape filter under JSON auto-escaping, other template names that select it, a
    // user formatter that delegates to the default one, an auto-escape callback, the remaining indent spellings
    "auto_e", "auto_escape_block", "auto_yaml", "auto_json_j2", "auto_fmt", "auto_cb", "tojson_false", "tojson_kwtrue", "tojson_8",
];

fn gen_key_vd(r: &mut Rng) -> VD {
    match r.below(12) {
        0 | 1 | 2 | 3 | 4 => VD::Str(gen_string(r), r.chance(1, 6)),
        5 | 6 => VD::Int(gen_int(r, i64::MIN as i128, u64::MAX as i128), r.chance(1, 2)),
        7 => VD::Bool(r.chance(1, 2)),
        8 => VD::F64(gen_f64(r)),
        9 => VD::None,
        10 => VD::Int(gen_int(r, -(1i128 << 100), 1i128 << 100), false),
        _ => VD::Seq(vec![VD::Int(1, false)]),
    }
}

/// a lazily produced sequence or a custom map object
fn gen_lazy_vd(r: &mut Rng, depth: u32) -> VD {
    let d = depth.saturating_sub(1);
    if r.chance(1, 4) {
        let kind = *r.pick(&lazy::LAZY_MAP_KINDS);
        let mut ents: Vec<(VD, VD)> = vec![];
        let mut seen: Vec<String> = vec![];
        for _ in 0..r.below(4) {
            let k = if r.chance(2, 3) { VD::Str(gen_string(r), false) } else { VD::Int(gen_int(r, -5, 1000), false) };
            let form = match &k {
                VD::Str(s, _) => s.clone(),
                VD::Int(i, _) => i.to_string(),
                _ => unreachable!(),
            };
            if seen.contains(&form) {
                continue;
            }
            seen.push(form);
            ents.push((k, gen_vd(r, d)));
        }
        VD::LazyMap(kind, ents)
    } else {
        let kind = *r.pick(&lazy::LAZY_SEQ_KINDS);
        let n = if kind == "ce" { 0 } else { r.below(5) };
        let items = (0..n)
            .map(|_| if kind == "cs" { VD::Str(r.pick(&NAMES).to_string(), false) } else { gen_vd(r, d) })
            .collect();
        VD::Lazy(kind, items)
    }
}

fn gen_vd(r: &mut Rng, depth: u32) -> VD {
    let top = if depth == 0 { 12 } else { 19 };
    match r.below(top) {
        16 | 17 | 18 => gen_lazy_vd(r, depth),
        0 => VD::Undef,
        1 => VD::None,
        2 => VD::Bool(r.chance(1, 2)),
        3 => VD::Int(gen_int(r, i64::MIN as i128, u64::MAX as i128), r.chance(1, 2)),
        4 => match r.below(3) {
            0 => VD::BigU(u128::MAX - r.below(3) as u128),
            1 => VD::Int(i128::MIN + r.below(3) as i128, false),
            _ => VD::Int(gen_int(r, -(1i128 << 100), 1i128 << 100), false),
        },
        5 | 6 => VD::F64(gen_f64(r)),
        7 | 8 | 9 => VD::Str(gen_string(r), r.chance(1, 6)),
        10 => VD::Bytes((0..r.below(4)).map(|_| r.next() as u8).collect()),
        11 => VD::Plain(gen_string(r)),
        12 => VD::Seq((0..r.below(4)).map(|_| gen_vd(r, depth - 1)).collect()),
        13 => VD::Tup((0..r.below(3)).map(|_| gen_vd(r, depth - 1)).collect()),
        _ => {
            let mut ents: Vec<(VD, VD)> = vec![];
            let mut seen: Vec<String> = vec![];
            for _ in 0..r.below(4) {
                let k = gen_key_vd(r);
                // distinct string forms (an object cannot carry two members of one name) and distinct
                // under the engine's own key equality (true == 1 == 1.0 is one map key)
                let num = |x: f64| format!("n{:?}", x);
                let (form, class) = match &k {
                    VD::Str(s, _) => (s.clone(), format!("s{s}")),
                    VD::Int(i, _) => (i.to_string(), num(*i as f64)),
                    VD::Bool(b) => (b.to_string(), num(*b as u8 as f64)),
                    VD::F64(b) => (format!("{:?}", f64::from_bits(*b)), num(f64::from_bits(*b) + 0.0)),
                    other => (format!("{:?}", other), format!("{:?}", other)),
                };
                if seen.contains(&form) || seen.contains(&class) {
                    continue;
                }
                seen.push(form);
                seen.push(class);
                ents.push((k, gen_vd(r, depth - 1)));
            }
            VD::Map(ents)
        }
    }
}

fn render_json(env: &Environment, mode: &str, v: &Value) -> Result<String, minijinja::Error> {
    // the same `impl Serialize for Value` reached directly, outside any render
    if mode == "sj_string" || mode == "sj_pretty" {
        let r = if mode == "sj_string" { serde_json::to_string(v) } else { serde_json::to_string_pretty(v) };
        return r.map_err(|e| minijinja::Error::new(minijinja::ErrorKind::BadSerialization, e.to_string()));
    }
    // the Expression API, and a stored template rendered into an io::Write
    if mode == "tojson_expr" {
        let out = env.compile_expression("v|tojson")?.eval(context! { v => v.clone() })?;
        return Ok(out.as_str().unwrap_or("<not a string>").to_string());
    }
    if mode == "auto_write" {
        let mut env2 = Environment::new();
        env2.add_template("data.json", "{% autoescape 'json' %}{{ v }}{% endautoescape %}")?;
        let mut buf: Vec<u8> = vec![];
        env2.get_template("data.json")?.render_captured_to(context! { v => v.clone() }, &mut buf)?;
        return String::from_utf8(buf).map_err(|e| minijinja::Error::new(minijinja::ErrorKind::BadSerialization, e.to_string()));
    }
    if mode == "auto_fmt" || mode == "auto_cb" {
        let mut env2 = Environment::new();
        if mode == "auto_fmt" {
            env2.set_formatter(|out, state, value| minijinja::escape_formatter(out, state, value));
            return env2.render_named_str("t.json", "{{ v }}", context! { v => v.clone() });
        }
        env2.set_auto_escape_callback(|_| minijinja::AutoEscape::Json);
        return env2.render_named_str("t.txt", "{{ v }}", context! { v => v.clone() });
    }
    let (name, src) = match mode {
        "auto_e" => ("t.json", "{{ v|e }}"),
        "auto_escape_block" => ("t.txt", "{% autoescape 'json' %}{{ v|escape }}{% endautoescape %}"),
        "auto_yaml" => ("t.yaml", "{{ v }}"),
        "auto_json_j2" => ("t.json.j2", "{{ v }}"),
        "tojson_false" => ("t.txt", "{{ v|tojson(false) }}"),
        "tojson_kwtrue" => ("t.txt", "{{ v|tojson(indent=true) }}"),
        "tojson_8" => ("t.txt", "{{ v|tojson(8) }}"),
        "tojson" => ("t.txt", "{{ v|tojson }}"),
        "tojson_true" => ("t.txt", "{{ v|tojson(true) }}"),
        "tojson_kw3" => ("t.txt", "{{ v|tojson(indent=3) }}"),
        "tojson_0" => ("t.txt", "{{ v|tojson(0) }}"),
        "tojson_in_html" => ("t.html", "{{ v|tojson }}"),
        "auto_json" => ("t.json", "{{ v }}"),
        "auto_js" => ("t.js", "{{ v }}"),
        _ => ("t.txt", "bad mode"),
    };
    env.render_named_str(name, src, context! { v => v.clone() })
}

/// does the value contain a map key without a JSON string form?  Some(true): none / seq / bytes … key,
/// Some(false): only non-finite float keys, None: every key has a string form
fn bad_key(v: &VD) -> Option<bool> {
    let join = |a: Option<bool>, b: Option<bool>| match (a, b) {
        (Some(true), _) | (_, Some(true)) => Some(true),
        (Some(false), _) | (_, Some(false)) => Some(false),
        _ => None,
    };
    match v {
        VD::Map(kvs) => kvs.iter().fold(None, |acc, (k, x)| {
            let here = match k {
                VD::Str(..) | VD::Int(..) | VD::BigU(_) | VD::Bool(_) => None,
                VD::F64(b) => (!f64::from_bits(*b).is_finite()).then_some(false),
                _ => Some(true),
            };
            join(join(acc, here), bad_key(x))
        }),
        VD::Seq(xs) | VD::Tup(xs) => xs.iter().fold(None, |acc, x| join(acc, bad_key(x))),
        VD::Lazy(kind, xs) => VD::lazy_items(kind, xs).iter().fold(None, |acc, x| join(acc, bad_key(x))),
        VD::LazyMap(kind, kvs) if *kind != "wn" => kvs.iter().fold(None, |acc, (_, x)| join(acc, bad_key(x))),
        _ => None,
    }
}

fn run_json(env: &Environment, mode: &str, vd: &VD) -> String {
    let r = guarded(|| {
        let v = vd.build();
        render_json(env, mode, &v)
    });
    let out = match r {
        Ok(Ok(s)) => s,
        Ok(Err(e)) => {
            // refusing is acceptable only where the value has no JSON image (bad map key)
            let refus = match bad_key(vd) {
                Some(true) => "sj:refused",
                Some(false) => "sj:refused-floatkey",
                None => "sj:bad",
            };
            return format!("{}\talpha:na\t{}", err_class(&e), refus);
        }
        Err(_) => return "panic\talpha:na\tsj:bad".into(),
    };
    let alpha = if mode.starts_with("tojson") {
        match out.chars().find(|c| matches!(c, '<' | '>' | '&' | '\'')) {
            Some(c) => format!("alpha:bad:{}", c as u32),
            None => "alpha:ok".into(),
        }
    } else {
        "alpha:na".into()
    };
    let sj = match serde_json::from_str::<serde_json::Value>(&out) {
        // the reader's own nesting limit (128), not a property of the text
        Err(e) if e.to_string().contains("recursion limit") => "sj:skip:depth".to_string(),
        Err(_) => "sj:bad".to_string(),
        Ok(parsed) => match json_image(vd) {
            Ok(img) => {
                if json_close(&parsed, &img) {
                    "sj:ok".into()
                } else {
                    "sj:bad".into()
                }
            }
            Err(why) => {
                format!("sj:skip:{why}")
            }
        },
    };
    format!("{}\t{}\t{}", hex(out.as_bytes()), alpha, sj)
}

// ------------------------------------------------------------------------------------ registry stream
/// `n` values are buffered first (n live handles), then resolved in `order` (indices, may repeat / miss);
/// run on a fresh thread so that the thread-local registry and handle counter start from scratch
fn run_reg(n: usize, order: &[usize]) -> String {
    let order = order.to_vec();
    let h = std::thread::spawn(move || {
        quiet_panics();
        guarded(|| {
            let values: Vec<Value> = (0..n).map(|i| Value::from_object(DynMapObj(i as u32 + 1))).collect();
            let a = regbuf::Adapter { values, order, handles: Default::default() };
            let out = Value::from(Serde(&a));
            let handles: Vec<String> = a.handles.lock().unwrap().iter().map(|h| h.to_string()).collect();
            let items: Vec<String> = match out.try_iter() {
                Ok(it) => it
                    .map(|x| match x.downcast_object_ref::<DynMapObj>() {
                        Some(o) => o.0.to_string(),
                        None => "_".to_string(),
                    })
                    .collect(),
                Err(_) => vec!["?".into()],
            };
            format!("{}\t{}", handles.join(","), items.join(","))
        })
    });
    match h.join() {
        Ok(Ok(s)) => s,
        _ => "panic\tpanic".into(),
    }
}

// ------------------------------------------------------------------------------------ contract / lazy streams
fn contains_plain(v: &VD) -> bool {
    match v {
        VD::Plain(_) => true,
        VD::Seq(xs) | VD::Tup(xs) | VD::Lazy(_, xs) => xs.iter().any(contains_plain),
        VD::Map(kvs) | VD::LazyMap(_, kvs) => kvs.iter().any(|(k, x)| contains_plain(k) || contains_plain(x)),
        _ => false,
    }
}

/// `impl Serialize for Value` driven by the shape-recording serializer: the call log + the contract
fn run_ser(vd: &VD) -> String {
    // `serde_json::to_value` (a third external serializer) against the independently built image
    let tv = match (guarded(|| serde_json::to_value(vd.build())), json_image(vd)) {
        (Ok(Ok(got)), Ok(img)) => if json_close(&got, &img) { "tv:ok" } else { "tv:bad" },
        (Ok(Err(_)), Ok(_)) => if bad_key(vd).is_some() { "tv:refused" } else { "tv:bad" },
        (Err(_), _) => "tv:panic",
        (_, Err(_)) => "tv:skip",
    };
    match guarded(|| lazy::record(&vd.build())) {
        Ok(Ok(rec)) => format!(
            "{}\t{}\t{}",
            rec.to_text(),
            match rec.contract() {
                Ok(()) => "contract:ok".to_string(),
                Err(e) => format!("contract:bad:{e}"),
            },
            tv
        ),
        Ok(Err(e)) => format!("err:{e}\tcontract:na\t{tv}"),
        Err(_) => format!("panic\tcontract:na\t{tv}"),
    }
}

/// deserialising from a lazily produced value
fn run_lde(vd: &VD, shape: &Shape) -> String {
    let a = guarded(|| Seed(shape).deserialize(vd.build()));
    let b = guarded(|| Seed(shape).deserialize(&vd.build()));
    let show = |x: &Result<Result<Dyn, minijinja::Error>, String>| match x {
        Ok(Ok(d)) => format!("ok {}", d.to_text(true)),
        Ok(Err(_)) => "err".to_string(),
        Err(_) => "panic".to_string(),
    };
    let (a, b) = (show(&a), show(&b));
    if a == b {
        a
    } else {
        format!("owned/borrowed-differ [{a}] [{b}]")
    }
}

/// template-built lazy values: expression + which JSON image to expect (by eager iteration)
const TPL_EXPRS: &[&str] = &[
    "[1]|chain(range(2, 4))",
    "range(3)",
    "range(2, 9, 3)",
    "xs|chain(it)",
    "it|chain(xs)",
    "xs|chain(lz, [7])",
    "d|chain({'z': 3})",
    "xs|zip(it)",
    "it|zip(lz)",
    "lz|zip(xs, xs)",
    "xs|map('abs')",
    "it|map('string')",
    "lz|select('odd')",
    "it|reject('odd')",
    "xs|select",
    "xs|reverse",
    "it|reverse",
    "lz|reverse",
    "xs[1:]",
    "it[1:]",
    "lz[:2]",
    "it[::2]",
    "lz[::-1]",
    "xs + xs",
    "d|items",
    "d|dictsort",
    "d|dictsort(reverse=true)",
    "it|list",
    "lz|batch(2)",
    "it|batch(2)",
    "xs|slice(2)",
    "lz|slice(2)",
    "it|unique",
    "lz|sort",
    "s|list",
    "s|reverse",
    "namespace(a=1, b=[1, it])",
    "dict(a=it, b=2)",
    "{'k': lz, 'n': [it]}",
    "[lz, [it], {'a': range(2)}]",
    "it",
    "lz",
    "ob",
    "[it, it]",
    "{'a': it, 'b': it, 'c': lz, 'd': lz}",
    "[it|list, it|list]",
    "d|dictsort|list",
    "d|items|list",
    "{1: 'a', true: 'b', 2.5: 'c', none: 'd'}|items|list if false else {1: 'a', 2: lz}",
    "xs|groupby('__class__')|list if false else xs|map('string')|list",
    "it|map('int')|select('gt', 1)",
    "lz|first",
    "it|last",
    "it|min",
    "lz|sum",
    "lz|join(',')",
];
const TPL_MODES: [&str; 5] = ["tojson", "tojson_kw3", "tojson_true", "tojson_in_html", "auto_json"];

fn tpl_env() -> Environment<'static> {
    let mut env = Environment::new();
    env.add_function("kw", |kwargs: minijinja::value::Kwargs| Value::from(kwargs));
    env
}

fn tpl_ctx() -> Value {
    context! {
        xs => vec![1, 2, 3],
        it => Value::make_one_shot_iterator(1..5),
        lz => Value::make_iterable(|| (1..7).filter(|x| *x != 4)),
        ob => Value::from_object(lazy::CustomSeq { kind: "ci", items: vec![Value::from(1), Value::from("x")], names: &[] }),
        d => BTreeMap::from([("b", 2), ("a", 1)]),
        s => "a<b",
    }
}

fn run_tpl(env: &Environment, mode: &str, idx: usize) -> String {
    let expr = match TPL_EXPRS.get(idx) {
        Some(e) => *e,
        None => return "bad-case\t-\tcontract:na".into(),
    };
    let (name, src) = match mode {
        "tojson" => ("t.txt", format!("{{{{ ({expr})|tojson }}}}")),
        "tojson_kw3" => ("t.txt", format!("{{{{ ({expr})|tojson(indent=3) }}}}")),
        "tojson_true" => ("t.txt", format!("{{{{ ({expr})|tojson(true) }}}}")),
        "tojson_in_html" => ("t.html", format!("{{{{ ({expr})|tojson }}}}")),
        _ => ("t.json", format!("{{{{ {expr} }}}}")),
    };
    let out = match guarded(|| env.render_named_str(name, &src, tpl_ctx())) {
        Ok(Ok(s)) => hex(s.as_bytes()),
        Ok(Err(e)) => err_class(&e),
        Err(_) => "panic".into(),
    };
    let eval = || env.compile_expression(expr).and_then(|e| e.eval(tpl_ctx()));
    let expected = match guarded(|| eval().map(|v| lazy::eager_image(&v))) {
        Ok(Ok(Ok(img))) => hex(serde_json::to_string(&img).unwrap().as_bytes()),
        _ => "-".into(),
    };
    let contract = match guarded(|| eval().map(|v| lazy::record(&v))) {
        Ok(Ok(Ok(rec))) => match rec.contract() {
            Ok(()) => "contract:ok".to_string(),
            Err(e) => format!("contract:bad:{e}"),
        },
        _ => "contract:na".into(),
    };
    format!("{out}\t{expected}\t{contract}")
}

/// the `loop` object and friends only exist inside a template: validity only
const TPL_RAW: &[&str] = &[
    "[{% for x in xs %}{{ loop|tojson }}{% if not loop.last %},{% endif %}{% endfor %}]",
    "[{% for x in it %}{% if not loop.first %},{% endif %}{{ [x, loop.index0]|tojson }}{% endfor %}]",
    "{% set ns = namespace(v=lz) %}{{ ns|tojson }}",
    "{% macro m(a, b=none) %}{{ [a, b]|tojson }}{% endmacro %}{{ m(it, b=lz) }}",
    "{{ [kw(a=1, b=lz)]|tojson }}",
    "{% set t %}{{ it|tojson }}{% endset %}{{ t }}",
    "{% autoescape 'json' %}{{ [it, lz] }}{% endautoescape %}",
    "{% autoescape 'json' %}{\"a\": {{ xs|chain(it) }}}{% endautoescape %}",
];

fn run_tplraw(env: &Environment, idx: usize) -> String {
    let src = match TPL_RAW.get(idx) {
        Some(e) => *e,
        None => return "bad-case".into(),
    };
    match guarded(|| env.render_named_str("t.txt", src, tpl_ctx())) {
        Ok(Ok(s)) => hex(s.as_bytes()),
        Ok(Err(e)) => err_class(&e),
        Err(_) => "panic".into(),
    }
}

// ------------------------------------------------------------------------------------ main
fn main() {
    quiet_panics();
    let args: Vec<String> = std::env::args().collect();
    let env = Environment::new();
    let out = std::io::stdout();
    let mut out = std::io::BufWriter::new(out.lock());
    match args.get(1).map(|s| s.as_str()) {
        Some("gen") => {
            let thorough = args.get(2).map(|s| s == "thorough").unwrap_or(false);
            let seed = seed_from_env();
            let r = &mut Rng::new(seed);
            let (n_rt, n_x, n_der, n_json, n_str, n_lazy) = if thorough { (600_000, 120_000, 4_000, 180_000, 150_000, 60_000) } else { (5_000, 1_500, 60, 4_000, 10_000, 1_500) };
            // fixed anchor shapes first (every constructor once, hand-picked edge values)
            for line in ANCHORS {
                let (s, d) = line.split_once(" ; ").unwrap();
                let shape = parse_shape(&mut Toks::new(s)).unwrap();
                let data = parse_dyn(&mut Toks::new(d)).unwrap();
                writeln!(out, "rt {} ; {}\t{}", shape.to_text(), data.to_text(false), run_rt(&shape, &data)).unwrap();
            }
            // wide composites (the maps' look-up switches strategy above 12 entries; long sequences)
            for (shape, data) in wide_cases() {
                writeln!(out, "rt {} ; {}\t{}", shape.to_text(), data.to_text(false), run_rt(&shape, &data)).unwrap();
                writeln!(out, "buf {} ; {}\t{}", shape.to_text(), data.to_text(false), more::run_buf(&shape, &data)).unwrap();
                writeln!(out, "sjson tojson {} ; {}\t{}", shape.to_text(), data.to_text(false), more::run_sjson(&|v| render_json(&env, "tojson", v), &shape, &data)).unwrap();
            }
            for i in 0..n_rt {
                let depth = 1 + (i % 4) as u32;
                let shape = gen_shape(r, depth);
                let data = gen_data(r, &shape, depth);
                writeln!(out, "rt {} ; {}\t{}", shape.to_text(), data.to_text(false), run_rt(&shape, &data)).unwrap();
            }
            for line in X_ANCHORS {
                let parts: Vec<&str> = line.split(" ; ").collect();
                let shape = parse_shape(&mut Toks::new(parts[0])).unwrap();
                let data = parse_dyn(&mut Toks::new(parts[1])).unwrap();
                let shape2 = parse_shape(&mut Toks::new(parts[2])).unwrap();
                writeln!(out, "x {} ; {} ; {}\t{}", shape.to_text(), data.to_text(false), shape2.to_text(), run_cross(&shape, &data, &shape2)).unwrap();
            }
            for i in 0..n_x {
                let depth = 1 + (i % 3) as u32;
                let shape = gen_shape(r, depth);
                let data = gen_data(r, &shape, depth);
                let shape2 = if r.chance(1, 3) { mutate_shape(r, &shape) } else { gen_shape(r, depth) };
                writeln!(out, "x {} ; {} ; {}\t{}", shape.to_text(), data.to_text(false), shape2.to_text(), run_cross(&shape, &data, &shape2)).unwrap();
            }
            for ty in derived::TYPES {
                for _ in 0..n_der {
                    let s = r.next() % 1_000_000_007;
                    writeln!(out, "derived {} {}\t{}", ty, s, derived::run(ty, s)).unwrap();
                }
            }
            for ty in derived::TYPES_X {
                for _ in 0..n_der {
                    let s = r.next() % 1_000_000_007;
                    writeln!(out, "derivedx {} {}\t{}", ty, s, derived::run_x(ty, s)).unwrap();
                }
            }
            // the handle registry with up to 40 live handles
            for i in 0..(if thorough { 4000 } else { 400 }) {
                let n = if i < 41 { i } else { 1 + r.below(40) as usize };
                let order: Vec<usize> = match i % 5 {
                    _ if n == 0 => vec![],
                    0 => (0..n).collect(),
                    1 => (0..n).rev().collect(),
                    2 => {
                        let mut v: Vec<usize> = (0..n).collect();
                        for j in (1..n).rev() {
                            v.swap(j, r.below(j as u64 + 1) as usize);
                        }
                        v
                    }
                    3 => (0..n).filter(|_| r.chance(2, 3)).collect(),
                    _ => (0..r.below(2 * n as u64 + 1)).map(|_| r.below(n as u64) as usize).collect(),
                };
                let o: Vec<String> = order.iter().map(|x| x.to_string()).collect();
                writeln!(out, "reg {} {}\t{}", n, if o.is_empty() { "-".to_string() } else { o.join(",") }, run_reg(n, &order)).unwrap();
            }
            for ctx in EMBED_CTX {
                for kind in EMBED_KINDS {
                    for _ in 0..(if thorough { 20 } else { 2 }) {
                        let s = r.next() % 1_000_000_007;
                        writeln!(out, "embed {} {} {}\t{}", ctx, kind, s, run_embed(ctx, kind, s)).unwrap();
                    }
                }
            }
            // strings (the risky layer): every mode, plain and nested as key + member
            for i in 0..n_str {
                let s = gen_string(r);
                let vd = match i % 4 {
                    0 | 1 => VD::Str(s, false),
                    2 => VD::Seq(vec![VD::Str(s, i % 8 == 2)]),
                    _ => VD::Map(vec![(VD::Str(s.clone(), false), VD::Str(s, false))]),
                };
                let mode = JSON_MODES[(i / 4) % JSON_MODES.len()];
                writeln!(out, "json {} {}\t{}", mode, vd.to_text(), run_json(&env, mode, &vd)).unwrap();
            }
            // every single char below U+0100 plus the separators, HTML and surrogate-neighbour chars
            let mut singles: Vec<u32> = (0..0x100).collect();
            singles.extend([0x2027, 0x2028, 0x2029, 0x202a, 0xd7ff, 0xe000, 0xfeff, 0xfffd, 0xffff, 0x10000, 0x10ffff]);
            for cp in singles {
                let s: String = char::from_u32(cp).unwrap().to_string();
                for mode in ["tojson", "auto_json"] {
                    let vd = VD::Str(s.clone(), false);
                    writeln!(out, "json {} {}\t{}", mode, vd.to_text(), run_json(&env, mode, &vd)).unwrap();
                }
            }
            // deeply nested values (every mode)
            {
                let mut deep_list = VD::Int(1, false);
                let mut deep_map = VD::Str("x".into(), false);
                let mut deep_lazy = VD::None;
                for i in 0..200 {
                    deep_list = VD::Seq(vec![deep_list]);
                    if i < 100 {
                        deep_map = VD::Map(vec![(VD::Str("k".into(), false), deep_map)]);
                        deep_lazy = VD::Lazy(if i % 2 == 0 { "if" } else { "os" }, vec![VD::Int(i as i128, false), deep_lazy]);
                    }
                }
                for vd in [deep_list, deep_map, deep_lazy, VD::Invalid, VD::Seq(vec![VD::Invalid, VD::Undef]), VD::Map(vec![(VD::Str("e".into(), false), VD::Invalid)])] {
                    for mode in JSON_MODES {
                        // an invalid value handed to a filter / printed raises its error: only the direct serializer
                        if vd == VD::Invalid && !mode.starts_with("sj_") {
                            continue;
                        }
                        writeln!(out, "json {} {}\t{}", mode, vd.to_text(), run_json(&env, mode, &vd)).unwrap();
                    }
                    writeln!(out, "ser {}\t{}", vd.to_text(), run_ser(&vd)).unwrap();
                }
            }
            // member order and number layout anchors (every mode)
            for desc in JSON_ANCHORS {
                let vd = parse_vd(&mut Toks::new(desc)).unwrap();
                for mode in JSON_MODES {
                    writeln!(out, "json {} {}\t{}", mode, vd.to_text(), run_json(&env, mode, &vd)).unwrap();
                }
            }
            // lazily produced values: every lazy kind at top level and nested, through every JSON mode,
            // through the shape-recording serializer, and as the source of a deserialisation
            let mut lazies: Vec<VD> = vec![];
            for kind in lazy::LAZY_SEQ_KINDS {
                for n in 0..4i128 {
                    let items: Vec<VD> = (0..n).map(|i| if kind == "cs" { VD::Str(NAMES[i as usize].to_string(), false) } else { VD::Int(i + 1, false) }).collect();
                    if kind == "ce" && n > 0 {
                        continue;
                    }
                    lazies.push(VD::Lazy(kind, items));
                }
            }
            for kind in lazy::LAZY_MAP_KINDS {
                for n in 0..3usize {
                    lazies.push(VD::LazyMap(kind, (0..n).map(|i| (VD::Str(NAMES[i].to_string(), false), VD::Int(i as i128, false))).collect()));
                }
            }
            for i in 0..n_lazy {
                lazies.push(gen_lazy_vd(r, 1 + (i % 3) as u32));
            }
            for (i, inner) in lazies.iter().enumerate() {
                let wrapped = match i % 5 {
                    0 | 1 => inner.clone(),
                    2 => VD::Seq(vec![VD::Int(0, false), inner.clone()]),
                    3 => VD::Map(vec![(VD::Str("a".into(), false), inner.clone())]),
                    _ => VD::Lazy("os", vec![inner.clone(), VD::None]),
                };
                let modes: Vec<&str> = if i < 120 { JSON_MODES.to_vec() } else { vec![JSON_MODES[i % JSON_MODES.len()], JSON_MODES[(i / 7) % JSON_MODES.len()]] };
                for mode in modes {
                    writeln!(out, "json {} {}\t{}", mode, wrapped.to_text(), run_json(&env, mode, &wrapped)).unwrap();
                }
                writeln!(out, "ser {}\t{}", wrapped.to_text(), run_ser(&wrapped)).unwrap();
                let shapes: &[&str] = match inner {
                    VD::Lazy(..) => &["seq u8", "seq i64", "tup 2 u8 u8", "bytes", "opt seq u16", "tstruct T 1 u8", "struct T 2 a u8 b u8", "nstruct T seq u8", "seq str"],
                    _ => &["map str u8", "map str i64", "struct T 2 a u8 b u8", "struct T 1 a opt u8", "enum E 2 a vn u8 b vn u8"],
                };
                // (plain objects cannot be deserialised from at all, not even as ignored fields)
                if (i < 400 || i % 4 == 0) && !contains_plain(inner) {
                    for sh in shapes {
                        let shape = parse_shape(&mut Toks::new(sh)).unwrap();
                        writeln!(out, "lde {} ; {}\t{}", inner.to_text(), shape.to_text(), run_lde(inner, &shape)).unwrap();
                    }
                }
            }
            // fields that are ignored are still walked (`deserialize_ignored_any` = `deserialize_any`)
            for line in LDE_ANCHORS {
                let (v, sh) = line.split_once(" ; ").unwrap();
                let vd = parse_vd(&mut Toks::new(v)).unwrap();
                let shape = parse_shape(&mut Toks::new(sh)).unwrap();
                writeln!(out, "lde {} ; {}\t{}", vd.to_text(), shape.to_text(), run_lde(&vd, &shape)).unwrap();
            }
            let tenv = tpl_env();
            for idx in 0..TPL_EXPRS.len() {
                for mode in TPL_MODES {
                    writeln!(out, "tpl {} {}\t{}", mode, idx, run_tpl(&tenv, mode, idx)).unwrap();
                }
            }
            for idx in 0..TPL_RAW.len() {
                writeln!(out, "tplraw {}\t{}", idx, run_tplraw(&tenv, idx)).unwrap();
            }
            for i in 0..n_json {
                let vd = gen_vd(r, 1 + (i % 3) as u32);
                let mode = JSON_MODES[r.below(JSON_MODES.len() as u64) as usize];
                // a safe string printed directly under auto-escaping is, by definition, not escaped
                if mode.starts_with("auto") && matches!(vd, VD::Str(_, true)) {
                    continue;
                }
                writeln!(out, "json {} {}\t{}", mode, vd.to_text(), run_json(&env, mode, &vd)).unwrap();
                if i % 4 == 0 {
                    writeln!(out, "ser {}\t{}", vd.to_text(), run_ser(&vd)).unwrap();
                }
            }
            // ---- second generation streams (c16_parts/more.rs)
            let (n_buf, n_arg, n_vv) = if thorough { (120_000, 96_000, 120_000) } else { (1_200, 1_800, 2_500) };
            let aenv = more::arg_env();
            // serde's buffering read path and `Serde<T>` arguments: the anchors, then random shapes
            for line in ANCHORS {
                let (s, d) = line.split_once(" ; ").unwrap();
                let shape = parse_shape(&mut Toks::new(s)).unwrap();
                let data = parse_dyn(&mut Toks::new(d)).unwrap();
                writeln!(out, "buf {} ; {}\t{}", shape.to_text(), data.to_text(false), more::run_buf(&shape, &data)).unwrap();
                for form in ["fn", "opt", "literal"] {
                    writeln!(out, "arg {} {} ; {}\t{}", form, shape.to_text(), data.to_text(false), more::run_arg(&aenv, form, &shape, &data)).unwrap();
                }
            }
            for i in 0..n_buf {
                let depth = 1 + (i % 4) as u32;
                let shape = gen_shape(r, depth);
                let data = gen_data(r, &shape, depth);
                writeln!(out, "buf {} ; {}\t{}", shape.to_text(), data.to_text(false), more::run_buf(&shape, &data)).unwrap();
            }
            for i in 0..n_arg {
                let depth = 1 + (i % 3) as u32;
                let shape = gen_shape(r, depth);
                let data = gen_data(r, &shape, depth);
                let form = more::ARG_FORMS[i % more::ARG_FORMS.len()];
                writeln!(out, "arg {} {} ; {}\t{}", form, shape.to_text(), data.to_text(false), more::run_arg(&aenv, form, &shape, &data)).unwrap();
            }
            // serialised data printed as JSON against serde_json's own JSON of the same data
            let sj_modes = ["tojson", "tojson_kw3", "auto_json", "auto_e"];
            for (i, line) in ANCHORS.iter().enumerate() {
                let (s, d) = line.split_once(" ; ").unwrap();
                let shape = parse_shape(&mut Toks::new(s)).unwrap();
                let data = parse_dyn(&mut Toks::new(d)).unwrap();
                let mode = sj_modes[i % sj_modes.len()];
                writeln!(out, "sjson {} {} ; {}\t{}", mode, shape.to_text(), data.to_text(false), more::run_sjson(&|v| render_json(&env, mode, v), &shape, &data)).unwrap();
            }
            for i in 0..n_buf {
                let depth = 1 + (i % 4) as u32;
                let shape = gen_shape(r, depth);
                let data = gen_data(r, &shape, depth);
                let mode = sj_modes[i % sj_modes.len()];
                writeln!(out, "sjson {} {} ; {}\t{}", mode, shape.to_text(), data.to_text(false), more::run_sjson(&|v| render_json(&env, mode, v), &shape, &data)).unwrap();
            }
            // `Value` as the target of a deserialisation
            for desc in VV_ANCHORS {
                let vd = parse_vd(&mut Toks::new(desc)).unwrap();
                for mode in more::VV_MODES {
                    writeln!(out, "vv {} {}\t{}", mode, vd.to_text(), more::run_vv(mode, &vd)).unwrap();
                }
            }
            for i in 0..n_vv {
                let vd = gen_vd(r, 1 + (i % 3) as u32);
                let mode = more::VV_MODES[i % more::VV_MODES.len()];
                writeln!(out, "vv {} {}\t{}", mode, vd.to_text(), more::run_vv(mode, &vd)).unwrap();
            }
            // serde's own impls for std types; the primitive deserializers of serde::de::value into `Value`
            for ty in stdtypes::TYPES {
                for _ in 0..n_der {
                    let s = r.next() % 1_000_000_007;
                    writeln!(out, "derived {} {}\t{}", ty, s, stdtypes::run(ty, s)).unwrap();
                }
            }
            for idx in 0..stdtypes::PRIM_COUNT {
                writeln!(out, "vv prim {}\t{}", idx, stdtypes::run_prim(idx)).unwrap();
            }
            // the post-processing of tojson: every 1- and 2-byte ASCII prefix x distance to the first special byte
            let pads: Vec<usize> = if thorough { (0..=17).collect() } else { vec![0, 1, 7] };
            let pads_txt = pads.iter().map(|p| p.to_string()).collect::<Vec<_>>().join(",");
            writeln!(out, "pp e {}\t{}", pads_txt, more::run_pp(None, &pads)).unwrap();
            for b1 in 0u8..128 {
                writeln!(out, "pp {} {}\t{}", b1, pads_txt, more::run_pp(Some(b1), &pads)).unwrap();
            }
            // … and every 1-byte prefix with the first special byte at every distance up to 70 (word / vector widths)
            let long: Vec<usize> = (0..=(if thorough { 130 } else { 70 })).collect();
            let long_txt = long.iter().map(|p| p.to_string()).collect::<Vec<_>>().join(",");
            for b1 in 0u8..128 {
                writeln!(out, "pp {}. {}\t{}", b1, long_txt, more::run_pp_one(b1, &long)).unwrap();
            }
            // threads on which many values have been embedded before
            let mut warms: Vec<u64> = vec![0, 1, 254, 255, 256, 257, 65_534, 65_535, 65_536, 65_537, 70_001, 131_073];
            if thorough {
                warms.extend([16_777_215, 16_777_217]);
            }
            for n in warms {
                writeln!(out, "warm {}\t{}", n, more::run_warm(n)).unwrap();
            }
            // every Deserializer method on every representation of a value (a generator of its own: the
            // streams above keep their cases)
            let rr = &mut Rng::new(seed ^ 0x726b_7265_7072);
            for src in reprs::universe(rr, if thorough { 400 } else { 12 }) {
                for m in reprs::METHODS {
                    writeln!(out, "{}\t{}", src.case(m), src.run(m)).unwrap();
                }
            }
            // the token printed for a finite double (every binade boundary, decimal powers, random patterns)
            for (i, bits) in reprs::ff_universe(rr, if thorough { 60_000 } else { 1_500 }).into_iter().enumerate() {
                let neg = i % 7 == 3;
                writeln!(out, "ff {}{}\t{}", if neg { "-" } else { "" }, bits, reprs::run_ff(bits, neg)).unwrap();
            }
        }
        Some("one") => {
            let stream = args.get(2).map(|s| s.as_str()).unwrap_or("");
            let rest = args[3..].join(" ");
            let res = match stream {
                "rt" => {
                    let (s, d) = rest.split_once(" ; ").expect("rt <shape> ; <data>");
                    let shape = parse_shape(&mut Toks::new(s)).unwrap();
                    let data = parse_dyn(&mut Toks::new(d)).unwrap();
                    run_rt(&shape, &data)
                }
                "x" => {
                    let parts: Vec<&str> = rest.split(" ; ").collect();
                    let shape = parse_shape(&mut Toks::new(parts[0])).unwrap();
                    let data = parse_dyn(&mut Toks::new(parts[1])).unwrap();
                    let shape2 = parse_shape(&mut Toks::new(parts[2])).unwrap();
                    run_cross(&shape, &data, &shape2)
                }
                "derived" if stdtypes::TYPES.contains(&args[3].as_str()) => stdtypes::run(&args[3], args[4].parse().unwrap()),
                "derived" => derived::run(&args[3], args[4].parse().unwrap()),
                "derivedx" => derived::run_x(&args[3], args[4].parse().unwrap()),
                "reg" => {
                    let order: Vec<usize> = if args[4] == "-" { vec![] } else { args[4].split(',').map(|x| x.parse().unwrap()).collect() };
                    run_reg(args[3].parse().unwrap(), &order)
                }
                "embed" => run_embed(&args[3], &args[4], args[5].parse().unwrap()),
                "json" => {
                    let vd = parse_vd(&mut Toks::new(&args[4..].join(" "))).unwrap();
                    run_json(&env, &args[3], &vd)
                }
                "ser" => run_ser(&parse_vd(&mut Toks::new(&rest)).unwrap()),
                "lde" => {
                    let (v, sh) = rest.split_once(" ; ").expect("lde <value> ; <shape>");
                    run_lde(&parse_vd(&mut Toks::new(v)).unwrap(), &parse_shape(&mut Toks::new(sh)).unwrap())
                }
                "tpl" => run_tpl(&tpl_env(), &args[3], args[4].parse().unwrap()),
                "tplraw" => run_tplraw(&tpl_env(), args[3].parse().unwrap()),
                "buf" => {
                    let (s, d) = rest.split_once(" ; ").expect("buf <shape> ; <data>");
                    more::run_buf(&parse_shape(&mut Toks::new(s)).unwrap(), &parse_dyn(&mut Toks::new(d)).unwrap())
                }
                "arg" => {
                    let body = args[4..].join(" ");
                    let (s, d) = body.split_once(" ; ").expect("arg <form> <shape> ; <data>");
                    more::run_arg(&more::arg_env(), &args[3], &parse_shape(&mut Toks::new(s)).unwrap(), &parse_dyn(&mut Toks::new(d)).unwrap())
                }
                "vv" if args[3] == "prim" => stdtypes::run_prim(args[4].parse().unwrap()),
                "vv" => more::run_vv(&args[3], &parse_vd(&mut Toks::new(&args[4..].join(" "))).unwrap()),
                "pp" => {
                    let pads: Vec<usize> = args[4].split(',').map(|x| x.parse().unwrap()).collect();
                    if let Some(b) = args[3].strip_suffix('.') {
                        more::run_pp_one(b.parse().unwrap(), &pads)
                    } else {
                        more::run_pp(if args[3] == "e" { None } else { Some(args[3].parse().unwrap()) }, &pads)
                    }
                }
                "warm" => more::run_warm(args[3].parse().unwrap()),
                "ff" => {
                    let neg = args[3].starts_with('-');
                    reprs::run_ff(args[3].trim_start_matches('-').parse().unwrap(), neg)
                }
                "rk" => {
                    let (m, src) = reprs::parse_case(&rest).expect("rk <method> <repr>/<how> <value>");
                    src.run(&m)
                }
                "sjson" => {
                    let body = args[4..].join(" ");
                    let (s, d) = body.split_once(" ; ").expect("sjson <mode> <shape> ; <data>");
                    let mode = args[3].clone();
                    more::run_sjson(&|v| render_json(&env, &mode, v), &parse_shape(&mut Toks::new(s)).unwrap(), &parse_dyn(&mut Toks::new(d)).unwrap())
                }
                _ => "bad-case".into(),
            };
            writeln!(out, "{} {}\t{}", stream, rest, res).unwrap();
        }
        _ => {
            eprintln!("usage: c16 gen <quick|thorough> | c16 one <case>");
            std::process::exit(2);
        }
    }
}

fn wide_cases() -> Vec<(Shape, Dyn)> {
    let names: Vec<&'static str> = (0..14).map(|i| intern(&format!("f{i:02}"))).collect();
    let fields: Vec<(&'static str, Shape)> = names.iter().enumerate().map(|(i, n)| (*n, if i % 3 == 0 { Shape::Opt(Box::new(Shape::U8)) } else if i % 3 == 1 { Shape::Str } else { Shape::I64 })).collect();
    let vals: Vec<Dyn> = (0..14).map(|i| if i % 3 == 0 { if i % 2 == 0 { Dyn::None } else { Dyn::Some(Box::new(Dyn::Int(i as i128))) } } else if i % 3 == 1 { Dyn::Str(format!("v{i}")) } else { Dyn::Int(-(i as i128)) }).collect();
    vec![
        (Shape::Struct("T", fields.clone()), Dyn::List(vals.clone())),
        (Shape::Enum("E", vec![("A", VShape::Unit), ("Wide", VShape::Struct(fields.clone()))]), Dyn::Variant(1, Box::new(Dyn::List(vals.clone())))),
        (Shape::Enum("E", vec![("Wide", VShape::Tuple(fields.iter().map(|f| f.1.clone()).collect()))]), Dyn::Variant(0, Box::new(Dyn::List(vals.clone())))),
        (Shape::Map(Box::new(Shape::Str), Box::new(Shape::I64)), Dyn::Map((0..20).map(|i| (Dyn::Str(format!("key{:02}", (i * 7) % 20)), Dyn::Int(i))).collect())),
        (Shape::Map(Box::new(Shape::I16), Box::new(Shape::Str)), Dyn::Map((0..17).map(|i| (Dyn::Int(((i * 5) % 17 - 8) as i128), Dyn::Str(format!("{i}")))).collect())),
        (Shape::Seq(Box::new(Shape::U16)), Dyn::List((0..1500).map(|i| Dyn::Int(i % 65536)).collect())),
        (Shape::Tup((0..16).map(|_| Shape::I8).collect()), Dyn::List((0..16).map(|i| Dyn::Int(i - 8)).collect())),
        (Shape::Bytes, Dyn::Bytes((0..3000).map(|i| (i % 251) as u8).collect())),
        (Shape::Str, Dyn::Str("<é'&>".repeat(700))),
    ]
}

/// a shape close to `s` (for the cross-shape stream): widths, option wrappers, renamed variants …
fn mutate_shape(r: &mut Rng, s: &Shape) -> Shape {
    match s {
        Shape::U8 | Shape::U16 | Shape::U32 | Shape::U64 | Shape::I8 | Shape::I16 | Shape::I32 | Shape::I64 => {
            r.pick(&[Shape::U8, Shape::U16, Shape::U32, Shape::U64, Shape::I8, Shape::I16, Shape::I32, Shape::I64, Shape::F64, Shape::F32]).clone()
        }
        Shape::Str => r.pick(&[Shape::Char, Shape::Bytes, Shape::Opt(Box::new(Shape::Str)), Shape::Enum("E", vec![("A", VShape::Unit), ("type", VShape::Unit)])]).clone(),
        Shape::Char => Shape::Str,
        Shape::Seq(a) => {
            let m = mutate_shape(r, a);
            r.pick(&[Shape::Tup(vec![(**a).clone(), (**a).clone()]), Shape::Seq(Box::new(m)), Shape::TStruct("T", vec![(**a).clone()])]).clone()
        }
        Shape::Tup(ss) => {
            let mut v = ss.clone();
            if r.chance(1, 2) {
                v.pop();
            } else {
                v.push(Shape::U8);
            }
            if r.chance(1, 2) {
                Shape::Tup(v)
            } else {
                Shape::Seq(Box::new(ss[0].clone()))
            }
        }
        Shape::Opt(a) => (**a).clone(),
        Shape::Struct(n, fs) => {
            let mut v = fs.clone();
            match r.below(4) {
                0 => {
                    v.pop();
                }
                1 => v.push(("extra", Shape::Opt(Box::new(Shape::U8)))),
                2 => v.push(("extra", Shape::U8)),
                _ => v.reverse(),
            }
            if r.chance(1, 4) {
                Shape::Map(Box::new(Shape::Str), Box::new(v.first().map(|x| x.1.clone()).unwrap_or(Shape::U8)))
            } else if r.chance(1, 4) && !fs.is_empty() {
                // a struct value read as an enum whose variants are named like the fields
                Shape::Enum("E", fs.iter().map(|f| (f.0, VShape::Newtype(f.1.clone()))).collect())
            } else {
                Shape::Struct(n, v)
            }
        }
        Shape::Enum(n, vs) => {
            let mut v = vs.clone();
            match r.below(3) {
                0 => {
                    v.rotate_left(1);
                }
                1 => {
                    let i = r.below(v.len() as u64) as usize;
                    v[i].1 = r.pick(&[VShape::Unit, VShape::Newtype(Shape::U8), VShape::Tuple(vec![Shape::U8, Shape::U8]), VShape::Struct(vec![("a", Shape::U8)])]).clone();
                }
                _ => {
                    v.remove(0);
                    v.push(("Zz", VShape::Unit));
                }
            }
            Shape::Enum(n, v)
        }
        Shape::Map(k, v) => Shape::Map(Box::new(mutate_shape(r, k)), v.clone()),
        Shape::NStruct(_, a) => (**a).clone(),
        other => Shape::Opt(Box::new(other.clone())),
    }
}

/// JSON anchors: key order of the value map across kinds and number representations, the layouts of
/// the float printer (integers as floats, decimal point inside, leading zeros, exponents, subnormals)
const JSON_ANCHORS: &[&str] = &[
    "M 6 s62 i1 s61 i2 i10 i3 i9 i4 i-1 i5 sc3a9 i6",
    "M 5 d4609434218613702656 i1 i1 i2 i2 i3 d4602678819172646912 i4 d13826050856027422720 i5",
    "M 4 i340282366920938463463374607431768211455 i1 i-170141183460469231731687303715884105728 i2 u18446744073709551615 i3 i9223372036854775807 i4",
    "M 4 d4890909195324358656 i1 i1000000000000000000 i2 i999999999999999999 i3 d4890909195324358657 i4",
    "M 3 T i1 s i2 i5 i3",
    "M 4 sefbfbf i1 sf0908080 i2 s7f i3 sc280 i4",
    "M 3 s61 M 2 s7a i1 s79 i2 s41 L 2 M 2 i2 i1 i1 i2 M 0 s5a none",
    "M 2 S62 i1 s61 i2",
    "L 12 d0 d9223372036854775808 d4607182418800017408 d4621819117588971520 d4591870180066957722 d4487126258331716666 d4472406533629990549 d4846369599423283200 d4846369599423283201 d4850376798678024192 d4741671816366391296 d4372995238176751616",
    "L 8 d1 d4503599627370496 d9218868437227405311 d4890909195324358656 d4895412794951729152 d4382002437431492608 d4562254508917369340 d13835058055282163712",
    "L 6 d4607182418800017409 d4607182418800017407 d4611686018427387903 d4728779608739021824 d4728779608739021825 d4503599627370497",
    "M 2 y00 i1 s61 i2",
    "M 2 none i1 s61 i2",
    "M 2 L 1 i1 i1 s61 i2",
    "M 2 d9218868437227405312 i1 s61 i2",
];

/// deserialisation sources with entries no field names (ignored, but walked), keyed by name and by index
const LDE_ANCHORS: &[&str] = &[
    "M 2 s61 i1 s7a i2 ; struct T 1 a u8",
    "M 2 s61 i1 s7a X ; struct T 1 a u8",
    "M 2 s61 i1 s7a L 2 i1 X ; struct T 1 a u8",
    "M 2 s61 i1 s7a M 1 s6b X ; struct T 1 a u8",
    "M 2 s61 i1 s7a M 1 X i1 ; struct T 1 a u8",
    "M 2 s61 i1 s7a O61 ; struct T 1 a u8",
    "M 2 s61 i1 s7a Zos 2 i1 i2 ; struct T 1 a u8",
    "M 2 s61 i1 s7a Zcn 2 i1 i2 ; struct T 1 a u8",
    "M 2 s61 i1 s7a undef ; struct T 1 a u8",
    "M 2 s61 i1 s7a y00ff ; struct T 1 a u8",
    "M 2 s61 i1 s7a i340282366920938463463374607431768211455 ; struct T 1 a u8",
    "M 2 s7a X s61 i1 ; struct T 1 a u8",
    "M 2 u0 i1 u5 i7 ; struct T 1 a u8",
    "M 2 u0 i1 u5 X ; struct T 1 a u8",
    "M 2 u0 i1 u5 L 1 X ; struct T 1 a u8",
    "M 2 u0 i1 y7a X ; struct T 1 a u8",
    "M 2 u0 i1 y7a i2 ; struct T 1 a u8",
    "M 1 s41 M 2 s61 i1 s7a X ; enum E 1 A vs 1 a u8",
    "M 1 s41 M 2 s61 i1 s7a i9 ; enum E 1 A vs 1 a u8",
    "M 1 s41 M 2 u0 i1 u7 X ; enum E 1 A vs 1 a u8",
    "M 2 s61 X s7a i1 ; struct T 1 a opt u8",
    "L 2 i1 X ; tup 1 u8",
    "L 2 i1 X ; struct T 1 a u8",
];

/// values read back into a `Value`: the integer representations at their borders, nested containers,
/// keys of every kind, what cannot be a source
const VV_ANCHORS: &[&str] = &[
    "u18446744073709551615",
    "u9223372036854775808",
    "u9223372036854775807",
    "i-9223372036854775808",
    "i340282366920938463463374607431768211455",
    "i-170141183460469231731687303715884105728",
    "i18446744073709551616",
    "u0",
    "i-1",
    "d9221120237041090560",
    "d9223372036854775808",
    "undef",
    "none",
    "X",
    "O61",
    "S3c623e",
    "y00ff",
    "L 3 u18446744073709551615 undef S61",
    "P 2 i1 L 1 P 0",
    "M 3 u18446744073709551615 i1 s61 undef T L 1 u9223372036854775808",
    "M 2 i1 s61 s31 s62",
    "M 1 none i1",
    "M 1 L 1 i1 i1",
    "L 1 O61",
    "L 1 X",
    "Zos 3 i1 i2 i3",
    "Zcn 2 i1 i2",
    "Wwi 2 s61 i1 s62 u18446744073709551615",
];

/// cross-shape anchors (serialise with the first shape, deserialise with the second): the error and
/// leniency branches of the deserializer
const X_ANCHORS: &[&str] = &[
    "struct T 2 a u8 b u8 ; L 2 i1 i2 ; enum E 2 a vn u8 b vn u8",
    "struct T 1 a u8 ; L 1 i1 ; enum E 1 a vn u8",
    "struct T 0 ; L 0 ; enum E 1 a vu",
    "str ; s41 ; enum E 1 A vn u8",
    "str ; s41 ; enum E 1 A vt 0",
    "str ; s41 ; enum E 1 A vs 0",
    "str ; s42 ; enum E 1 A vu",
    "enum E 1 A vn u8 ; V 0 i1 ; enum E 1 A vu",
    "enum E 1 A vn unit ; V 0 U ; enum E 1 A vu",
    "enum E 1 A vn u8 ; V 0 i1 ; enum E 1 A vt 1 u8",
    "enum E 1 A vn u8 ; V 0 i1 ; enum E 1 A vs 1 a u8",
    "enum E 1 A vt 2 u8 u8 ; V 0 L 2 i1 i2 ; enum E 1 A vn tup 2 u8 u8",
    "enum E 1 A vn tup 2 u8 u8 ; V 0 L 2 i1 i2 ; enum E 1 A vt 2 u8 u8",
    "enum E 1 A vs 1 a u8 ; V 0 L 1 i1 ; enum E 1 A vn map str u8",
    "enum E 1 A vn map str u8 ; V 0 M 1 s61 i1 ; enum E 1 A vs 1 a u8",
    "enum E 2 A vu B vu ; V 1 U ; enum E 2 B vu A vu",
    "enum E 1 A vt 2 u8 u8 ; V 0 L 2 i1 i2 ; enum E 1 A vt 1 u8",
    "enum E 1 A vt 2 u8 u8 ; V 0 L 2 i1 i2 ; enum E 1 A vt 3 u8 u8 u8",
    "enum E 1 A vt 2 u8 u8 ; V 0 L 2 i1 i2 ; enum E 1 A vt 0",
    "enum E 1 A vs 2 a u8 b u8 ; V 0 L 2 i1 i2 ; enum E 1 A vs 1 a u8",
    "enum E 1 A vs 1 a u8 ; V 0 L 1 i1 ; enum E 1 A vs 2 a u8 b opt u8",
    "enum E 1 A vs 1 a u8 ; V 0 L 1 i1 ; enum E 1 A vs 2 a u8 b u8",
    "enum E 1 A vu ; V 0 U ; str",
    "tup 2 u8 u8 ; L 2 i1 i2 ; tup 1 u8",
    "tup 2 u8 u8 ; L 2 i1 i2 ; tup 3 u8 u8 u8",
    "seq u8 ; L 0 ; tup 1 u8",
    "seq u8 ; L 2 i1 i2 ; tstruct T 2 u8 u8",
    "opt u8 ; N ; u8",
    "unit ; U ; opt u8",
    "unit ; U ; ustruct T",
    "unit ; U ; str",
    "u16 ; i300 ; u8",
    "i8 ; i-1 ; u8",
    "u8 ; i5 ; i8",
    "u64 ; i18446744073709551615 ; i64",
    "i64 ; i-1 ; u64",
    "str ; s6162 ; char",
    "str ; s61 ; char",
    "str ; s ; char",
    "char ; c97 ; str",
    "bool ; T ; u8",
    "u8 ; i1 ; bool",
    "f64 ; d4607182418800017408 ; f32",
    "f64 ; d4591870180066957722 ; f32",
    "f64 ; d9218868437227405311 ; f32",
    "f64 ; d1 ; f32",
    "f64 ; d3936146074321813504 ; f32",
    "f64 ; d3931642474694443008 ; f32",
    "f64 ; d3931642474694443009 ; f32",
    "f64 ; d5183643170566569984 ; f32",
    "f64 ; d5183643171103440895 ; f32",
    "f64 ; d5183643170835005440 ; f32",
    "map str u8 ; M 1 s61 i1 ; struct T 1 a u8",
    "map str u8 ; M 0 ; struct T 1 a opt u8",
    "map str u8 ; M 0 ; struct T 1 a u8",
    "map str u8 ; M 2 s61 i1 s7a i2 ; struct T 1 a u8",
    "map u8 u8 ; M 1 i0 i1 ; struct T 1 a u8",
    "tstruct T 2 u8 u8 ; L 2 i1 i2 ; struct T 2 a u8 b u8",
    "struct T 2 a u8 b u8 ; L 2 i1 i2 ; struct T 2 b u8 a u8",
    "struct T 2 a u8 b u8 ; L 2 i1 i2 ; map str u8",
    "struct T 2 a u8 b u8 ; L 2 i1 i2 ; seq u8",
    "seq u8 ; L 2 i1 i2 ; map u8 u8",
    "bytes ; y0102 ; seq u8",
    "nstruct T u8 ; i1 ; nstruct W u8",
    // integer -> float casts of serde's float visitors (round to nearest even)
    "u64 ; i18446744073709551615 ; f64",
    "u64 ; i18446744073709551615 ; f32",
    "u64 ; i9007199254740993 ; f64",
    "u64 ; i9007199254740995 ; f64",
    "i64 ; i-9007199254740995 ; f64",
    "i64 ; i-9007199254740993 ; f64",
    "u64 ; i9223372036854775807 ; f64",
    "u64 ; i9223372036854775809 ; f64",
    "u64 ; i18446744073709550592 ; f64",
    "u64 ; i18446744073709550593 ; f64",
    "u32 ; i16777217 ; f32",
    "u32 ; i16777219 ; f32",
    "u32 ; i4294967295 ; f32",
    "u32 ; i4294967167 ; f32",
    "i64 ; i-9223372036854775808 ; f32",
    "i64 ; i-9223372036854775808 ; f64",
    "u8 ; i0 ; f64",
    "u8 ; i1 ; f32",
    "i8 ; i-1 ; f32",
    "u16 ; i65535 ; f32",
    // bytes <-> str <-> seq
    "bytes ; y68c3a9 ; str",
    "bytes ; y ; str",
    "bytes ; yff ; str",
    "bytes ; yc080 ; str",
    "bytes ; yc1bf ; str",
    "bytes ; yc2 ; str",
    "bytes ; ye08080 ; str",
    "bytes ; ye0a080 ; str",
    "bytes ; yeda080 ; str",
    "bytes ; yed9fbf ; str",
    "bytes ; yee8080 ; str",
    "bytes ; ye282ac ; str",
    "bytes ; ye282 ; str",
    "bytes ; yf0808080 ; str",
    "bytes ; yf0908080 ; str",
    "bytes ; yf48fbfbf ; str",
    "bytes ; yf4908080 ; str",
    "bytes ; yf5808080 ; str",
    "bytes ; y80 ; str",
    "bytes ; y61e282ac62 ; str",
    "str ; sc3a9e282acf09d849e00 ; bytes",
    "char ; c1114111 ; bytes",
    "seq u8 ; L 2 i1 i255 ; bytes",
    "seq u16 ; L 1 i256 ; bytes",
    "seq i8 ; L 1 i-1 ; bytes",
    "seq str ; L 1 s61 ; bytes",
    "tup 2 u8 u8 ; L 2 i1 i2 ; bytes",
    // field / variant identifiers by index and by bytes
    "map u8 u8 ; M 2 i0 i1 i5 i2 ; struct T 1 a u8",
    "map u8 u8 ; M 2 i1 i1 i0 i2 ; struct T 2 a u8 b u8",
    "map u8 u8 ; M 1 i1 i1 ; struct T 2 a u8 b u8",
    "map u8 u8 ; M 1 i1 i1 ; struct T 2 a opt u8 b u8",
    "map i8 u8 ; M 1 i0 i1 ; struct T 1 a u8",
    "map bool u8 ; M 1 T i1 ; struct T 1 a u8",
    "map bytes u8 ; M 1 y61 i1 ; struct T 1 a u8",
    "map bytes u8 ; M 2 y61 i1 y7a i9 ; struct T 1 a u8",
    "map char u8 ; M 1 c97 i1 ; struct T 1 a u8",
    "map opt u8 u8 ; M 1 N i1 ; struct T 1 a opt u8",
    "map u8 u8 ; M 1 i1 i7 ; enum E 2 A vn u8 B vn u8",
    "map u8 u8 ; M 1 i2 i7 ; enum E 2 A vn u8 B vn u8",
    "map u8 unit ; M 1 i0 U ; enum E 2 A vu B vn u8",
    "map i8 u8 ; M 1 i0 i7 ; enum E 1 A vn u8",
    "map bytes u8 ; M 1 y41 i7 ; enum E 1 A vn u8",
    "map bytes u8 ; M 1 y42 i7 ; enum E 1 A vn u8",
    "map bool u8 ; M 1 T i7 ; enum E 1 A vn u8",
    "enum E 1 A vn map u8 u8 ; V 0 M 1 i0 i3 ; enum E 1 A vs 1 a u8",
];

/// hand-picked anchors: every constructor and the classic trouble spots
const ANCHORS: &[&str] = &[
    "bool ; T",
    "u8 ; i255",
    "u64 ; i18446744073709551615",
    "u64 ; i9223372036854775808",
    "i64 ; i-9223372036854775808",
    "i8 ; i-128",
    "f32 ; f1",
    "f32 ; f2139095039",
    "f32 ; f2143289344",
    "f64 ; d9221120237041090560",
    "f64 ; d9218868437227405313",
    "f64 ; d9223372036854775808",
    "char ; c0",
    "char ; c1114111",
    "char ; c8232",
    "str ; s",
    "str ; s015f5f6d696e696a696e6a615f56616c756548616e646c65",
    "bytes ; y",
    "bytes ; y00ff3c",
    "unit ; U",
    "opt u8 ; N",
    "opt u8 ; S i0",
    "opt str ; S s",
    "opt seq u8 ; S L 0",
    "opt map str u8 ; S M 0",
    "opt bool ; S F",
    "opt tup 1 u8 ; S L 1 i0",
    "opt struct T 0 ; S L 0",
    "opt enum E 2 none vu A vn opt u8 ; S V 0 U",
    "opt enum E 2 none vu A vn opt u8 ; S V 1 N",
    "seq opt u8 ; L 3 N S i1 N",
    "map u8 str ; M 2 i2 s62 i1 s61",
    "map str u8 ; M 2 s62 i1 s61 i2",
    "map char bool ; M 2 c60 T c0 F",
    "map bool u8 ; M 2 T i1 F i0",
    "map i64 u8 ; M 3 i-1 i1 i0 i2 i9223372036854775807 i3",
    "map u64 u8 ; M 2 i18446744073709551615 i1 i0 i2",
    "map tup 2 u8 char unit ; M 1 L 2 i1 c97 U",
    "map opt u8 u8 ; M 2 N i1 S i0 i2",
    "tup 3 u8 str tup 1 bool ; L 3 i1 s61 L 1 T",
    "ustruct T ; U",
    "nstruct T u8 ; i7",
    "nstruct T opt u8 ; N",
    "tstruct T 0 ; L 0",
    "tstruct T 2 u8 u8 ; L 2 i1 i2",
    "struct T 0 ; L 0",
    "struct Point 3 x i32 y i32 label opt str ; L 3 i-1 i2 N",
    "struct Point 2 type str none unit ; L 2 s74797065 U",
    "enum E 1 A vu ; V 0 U",
    "enum E 4 A vu B vn u8 C vt 2 u8 u8 Dd vs 2 a u8 b str ; V 0 U",
    "enum E 4 A vu B vn u8 C vt 2 u8 u8 Dd vs 2 a u8 b str ; V 1 i5",
    "enum E 4 A vu B vn u8 C vt 2 u8 u8 Dd vs 2 a u8 b str ; V 2 L 2 i1 i2",
    "enum E 4 A vu B vn u8 C vt 2 u8 u8 Dd vs 2 a u8 b str ; V 3 L 2 i1 s78",
    "enum E 2 A vn map str u8 B vn map str u8 ; V 0 M 2 s41 i1 s42 i2",
    "enum E 2 A vn map str u8 B vn map str u8 ; V 1 M 0",
    "enum E 1 A vn enum F 2 A vu B vn str ; V 0 V 0 U",
    "enum E 1 A vn enum F 2 A vu B vn str ; V 0 V 1 s41",
    "enum E 1 A vn str ; V 0 s41",
    "enum E 1 A vn unit ; V 0 U",
    "enum E 1 A vn opt u8 ; V 0 N",
    "enum E 1 A vn seq u8 ; V 0 L 0",
    "enum E 1 A vn bytes ; V 0 y00",
    "enum E 1 A vn tup 2 u8 u8 ; V 0 L 2 i1 i2",
    "enum E 1 A vt 0 ; V 0 L 0",
    "enum E 1 A vt 1 u8 ; V 0 L 1 i1",
    "enum E 1 A vs 0 ; V 0 L 0",
    "enum E 1 A vs 2 b u8 a u8 ; V 0 L 2 i1 i2",
    "enum E 1 A vs 1 a opt u8 ; V 0 L 1 N",
    "seq enum E 2 A vu B vn u8 ; L 3 V 0 U V 1 i0 V 0 U",
    "map enum K 2 A vu B vu u8 ; M 2 V 1 U i1 V 0 U i2",
];
