//! C09 correspondence harness: subscripts and slices.
//!
//! Enumerates the box of the property's quantifier, evaluates every case on the real engine
//! (in-process, `catch_unwind` per case) and prints one line per case:
//!
//!   slice <kind> <len> <start> <stop> <step> <form>\t<result>
//!   index <kind> <len> <i> <form>\t<result>
//!
//! `_` = omitted bound.  Results are canonical: `<class>:<i,j,...>` (positions of the selected
//! elements in the original sequence, class in str/bytes/tuple/list), `elem:<i>`, `undef`,
//! `err:<ErrorKind>`, `panic`.
//!
//! usage: c09 gen <quick|thorough>   — print the case lines with results
//!        c09 one <case fields…>     — run one case (replay)
use minijinja::value::{Tuple, Value, ValueKind};
use minijinja::{context, Environment};
use mjh::*;
use std::io::Write;
use std::sync::Arc;

const CHARS: [char; 7] = ['a', 'é', '€', '𝄞', 'b', 'ß', 'c'];
const KINDS: [&str; 10] = [
    "strplain", "strsmall", "strsafe", "bytes", "list", "tuple", "itersized", "iterunsized",
    "undef", "none",
];

/// characters for long strings: position i ↦ a distinct char (multi-byte every third)
fn long_char(i: usize) -> char {
    match i % 3 {
        0 => char::from_u32(0x61 + (i as u32 / 3)).unwrap(),      // a, b, c …
        1 => char::from_u32(0x3b1 + (i as u32 / 3)).unwrap(),     // α, β, …
        _ => char::from_u32(0x4e00 + (i as u32 / 3)).unwrap(),    // CJK
    }
}

fn mk_value(kind: &str, len: usize) -> Value {
    let s: String = if len <= CHARS.len() { CHARS[..len].iter().collect() } else { (0..len).map(long_char).collect() };
    match kind {
        "strplain" => Value::from(Arc::<str>::from(s.as_str())),
        "strsmall" => Value::from(s),
        "strsafe" => Value::from_safe_string(s),
        "bytes" => Value::from_bytes((0..len as u8).collect()),
        "list" => Value::from((0..len as i64).collect::<Vec<_>>()),
        "tuple" => Value::from(Tuple::from((0..len as i64).map(Value::from).collect::<Vec<_>>())),
        "itersized" => Value::make_iterable(move || 0..len as i64),
        "iterunsized" => Value::make_iterable(move || (0..len as i64).filter(|_| true)),
        "undef" => Value::UNDEFINED,
        "none" => Value::from(()),
        // the builtin range object (lazy, sized), built by the engine itself
        "range" => Environment::new()
            .compile_expression("range(n)")
            .unwrap()
            .eval(context! { n => len })
            .unwrap(),
        "oneshot" => Value::make_one_shot_iterator(0..len as i64),
        "deque" => Value::from_object((0..len as i64).map(Value::from).collect::<std::collections::VecDeque<_>>()),
        _ => panic!("bad kind"),
    }
}

fn char_pos(c: char) -> Option<usize> {
    if let Some(p) = CHARS.iter().position(|x| *x == c) {
        return Some(p);
    }
    (0..64).find(|i| long_char(*i) == c)
}

thread_local! { static LONG: std::cell::Cell<bool> = std::cell::Cell::new(false); }

fn canon(v: &Value) -> String {
    if v.is_undefined() {
        return "undef".into();
    }
    if v.is_none() {
        return "none".into();
    }
    match v.kind() {
        ValueKind::String => {
            let s = v.as_str().unwrap();
            let idx: Vec<String> = s
                .chars()
                .map(|c| (if LONG.with(|l| l.get()) { (0..64).find(|i| long_char(*i) == c) } else { char_pos(c) }).map(|p| p.to_string()).unwrap_or("?".into()))
                .collect();
            format!("str:{}", idx.join(","))
        }
        ValueKind::Bytes => {
            let b = v.as_bytes().unwrap();
            format!("bytes:{}", b.iter().map(|x| x.to_string()).collect::<Vec<_>>().join(","))
        }
        ValueKind::Seq | ValueKind::Iterable => {
            let class = if v.is_tuple() { "tuple" } else { "list" };
            match v.try_iter() {
                Ok(it) => format!(
                    "{}:{}",
                    class,
                    it.map(|x| x.to_string()).collect::<Vec<_>>().join(",")
                ),
                Err(e) => format!("err:{}", error_kind_name(&e)),
            }
        }
        ValueKind::Number => format!("elem:{}", v),
        other => format!("other:{:?}", other),
    }
}

fn canon_elem(kind: &str, v: &Value) -> String {
    if v.is_undefined() {
        return "undef".into();
    }
    match v.kind() {
        ValueKind::String => {
            let s = v.as_str().unwrap();
            let mut it = s.chars();
            let c = it.next();
            if kind.starts_with("str") && c.is_some() && it.next().is_none() {
                match c.and_then(|c| if LONG.with(|l| l.get()) { (0..64).find(|i| long_char(*i) == c) } else { char_pos(c) }) {
                    Some(p) => format!("elem:{}", p),
                    None => "other:char".into(),
                }
            } else {
                "other:str".into()
            }
        }
        ValueKind::Number => format!("elem:{}", v),
        other => format!("other:{:?}", other),
    }
}

fn bound_src(name: &str, b: &str, form: &str) -> (String, Option<i64>) {
    if b == "_" {
        return (String::new(), None);
    }
    let n: i64 = b.parse().unwrap();
    if form == "lit" {
        (b.to_string(), Some(n))
    } else {
        (name.to_string(), Some(n))
    }
}

fn run_slice(env: &Environment, kind: &str, len: usize, a: &str, b: &str, c: &str, form: &str) -> String {
    let (sa, va) = bound_src("a", a, form);
    let (sb, vb) = bound_src("b", b, form);
    let (sc, vc) = bound_src("c", c, form);
    let src = if c == "_" { format!("v[{}:{}]", sa, sb) } else { format!("v[{}:{}:{}]", sa, sb, sc) };
    let v = mk_value(kind, len);
    let r = guarded(|| {
        let expr = env.compile_expression(&src)?;
        let out = expr.eval(context! { v => v, a => va, b => vb, c => vc })?;
        // force lazily evaluated results inside the guard
        Ok::<String, minijinja::Error>(canon(&out))
    });
    match r {
        Ok(Ok(s)) => s,
        Ok(Err(e)) => format!("err:{}", error_kind_name(&e)),
        Err(_) => "panic".into(),
    }
}

fn run_index(env: &Environment, kind: &str, len: usize, i: &str, form: &str) -> String {
    let (si, vi) = bound_src("a", i, form);
    let src = format!("v[{}]", si);
    let v = mk_value(kind, len);
    let r = guarded(|| {
        let expr = env.compile_expression(&src)?;
        let out = expr.eval(context! { v => v, a => vi })?;
        Ok::<String, minijinja::Error>(canon_elem(kind, &out))
    });
    match r {
        Ok(Ok(s)) => s,
        Ok(Err(e)) => format!("err:{}", error_kind_name(&e)),
        Err(_) => "panic".into(),
    }
}

/// `chain <kind> <len> <suffix>`: evaluates `v<suffix>` where suffix is a sequence of literal
/// slices/subscripts such as `[1:4][::-1][0]`; the last op decides slice vs element result.
fn run_chain(env: &Environment, kind: &str, len: usize, suffix: &str) -> String {
    LONG.with(|l| l.set(len > CHARS.len()));
    let src = format!("v{}", suffix);
    let v = mk_value(kind, len);
    let is_index = suffix.rsplit('[').next().map(|last| !last.contains(':')).unwrap_or(false);
    let r = guarded(|| {
        let expr = env.compile_expression(&src)?;
        let out = expr.eval(context! { v => v })?;
        Ok::<String, minijinja::Error>(if is_index { canon_elem(if kind.starts_with("str") { "str" } else { kind }, &out) } else { canon(&out) })
    });
    LONG.with(|l| l.set(false));
    match r {
        Ok(Ok(s)) => s,
        Ok(Err(e)) => format!("err:{}", error_kind_name(&e)),
        Err(_) => "panic".into(),
    }
}

fn rnd_bound(rng: &mut Rng, len: usize, wide: i64) -> String {
    match rng.below(10) {
        0 | 1 => String::new(),
        2 => i64::MAX.to_string(),
        3 => i64::MIN.to_string(),
        _ => (rng.below((2 * (len as i64 + wide) + 1) as u64) as i64 - (len as i64 + wide)).to_string(),
    }
}

fn rnd_slice(rng: &mut Rng, len: usize) -> String {
    let a = rnd_bound(rng, len, 3);
    let b = rnd_bound(rng, len, 3);
    let c = match rng.below(8) {
        0 | 1 | 2 => String::new(),
        3 => "-1".to_string(),
        _ => { let k = rng.below(9) as i64 + 1; if rng.chance(1, 2) { (-k).to_string() } else { k.to_string() } }
    };
    if c.is_empty() { format!("[{}:{}]", a, b) } else { format!("[{}:{}:{}]", a, b, c) }
}

fn bounds(range: std::ops::RangeInclusive<i64>) -> Vec<String> {
    let mut v = vec!["_".to_string()];
    v.extend(range.map(|x| x.to_string()));
    for x in [i64::MAX, i64::MIN, i64::MIN + 1, i64::MAX - 1] {
        v.push(x.to_string());
    }
    v
}

fn main() {
    quiet_panics();
    let args: Vec<String> = std::env::args().collect();
    let env = Environment::new();
    let out = std::io::stdout();
    let mut out = std::io::BufWriter::new(out.lock());
    match args.get(1).map(|s| s.as_str()) {
        Some("gen") => {
            let thorough = args.get(2).map(|s| s == "thorough").unwrap_or(false);
            let ss = bounds(-9..=9);
            let steps = bounds(-4..=4);
            let forms: &[&str] = if thorough { &["var", "lit"] } else { &["var"] };
            for kind in KINDS {
                for len in 0..=6usize {
                    if (kind == "undef" || kind == "none") && len > 0 {
                        continue;
                    }
                    for form in forms {
                        for a in &ss {
                            for b in &ss {
                                for c in &steps {
                                    // the quick tier enumerates literal forms only on a sub-box
                                    let r = run_slice(&env, kind, len, a, b, c, form);
                                    writeln!(out, "slice {} {} {} {} {} {}\t{}", kind, len, a, b, c, form, r).unwrap();
                                }
                            }
                        }
                        for i in &ss {
                            if i == "_" {
                                continue;
                            }
                            let r = run_index(&env, kind, len, i, form);
                            writeln!(out, "index {} {} {} {}\t{}", kind, len, i, form, r).unwrap();
                        }
                    }
                }
            }
            // ---- chain stream: longer sequences, more kinds, slices of slices, subscripts of slices
            {
                let mut rng = Rng::new(seed_from_env() ^ 0x0c09);
                let n = if thorough { 400_000 } else { 60_000 };
                let kinds = ["strplain", "strsmall", "strsafe", "bytes", "list", "tuple", "itersized",
                             "iterunsized", "range", "oneshot", "deque"];
                for _ in 0..n {
                    let kind = *rng.pick(&kinds);
                    let len = if rng.chance(1, 3) { rng.below(7) as usize } else { 7 + rng.below(34) as usize };
                    // a quarter of the cases is a bare subscript (every kind, incl. one-shot
                    // iterators: a non-negative subscript must not drain the iterator first)
                    if rng.chance(1, 4) {
                        let i = if kind == "oneshot" {
                            rng.below(len as u64 + 3) as i64
                        } else {
                            rng.below(2 * len as u64 + 5) as i64 - len as i64 - 2
                        };
                        let suffix = format!("[{}]", i);
                        let r = run_chain(&env, kind, len, &suffix);
                        writeln!(out, "chain {} {} {}\t{}", kind, len, suffix, r).unwrap();
                        continue;
                    }
                    let mut suffix = rnd_slice(&mut rng, len);
                    // one-shot iterators can be iterated once: a single op only
                    if kind != "oneshot" {
                        if rng.chance(1, 2) { suffix.push_str(&rnd_slice(&mut rng, len)); }
                        if rng.chance(1, 3) {
                            suffix.push_str(&format!("[{}]", rng.below(2 * len as u64 + 5) as i64 - len as i64 - 2));
                        }
                    }
                    let r = run_chain(&env, kind, len, &suffix);
                    writeln!(out, "chain {} {} {}\t{}", kind, len, suffix, r).unwrap();
                }
            }
            if !thorough {
                // literal forms on a sub-box (the parser's negative-literal path)
                for kind in ["strsmall", "list", "tuple"] {
                    for len in [0usize, 3, 5] {
                        for a in ["_", "-7", "-2", "0", "1", "4", "9", "-9223372036854775808", "9223372036854775807"] {
                            for b in ["_", "-7", "-1", "0", "2", "5", "-9223372036854775808", "9223372036854775807"] {
                                for c in ["_", "-3", "-1", "1", "2", "0", "-9223372036854775808", "9223372036854775807"] {
                                    let r = run_slice(&env, kind, len, a, b, c, "lit");
                                    writeln!(out, "slice {} {} {} {} {} lit\t{}", kind, len, a, b, c, r).unwrap();
                                }
                            }
                        }
                    }
                }
            }
        }
        Some("one") => {
            let f: Vec<&str> = args[2..].iter().map(|s| s.as_str()).collect();
            let r = match f[0] {
                "slice" => run_slice(&env, f[1], f[2].parse().unwrap(), f[3], f[4], f[5], f[6]),
                "index" => run_index(&env, f[1], f[2].parse().unwrap(), f[3], f[4]),
                "chain" => run_chain(&env, f[1], f[2].parse().unwrap(), f[3]),
                _ => "bad-case".into(),
            };
            writeln!(out, "{}\t{}", f.join(" "), r).unwrap();
        }
        _ => {
            eprintln!("usage: c09 gen <quick|thorough> | c09 one <case>");
            std::process::exit(2);
        }
    }
}
