//! C09 correspondence harness: subscripts and slices.
//!
//! Enumerates the box of the property's quantifier, evaluates every case on the real engine
//! (in-process, `catch_unwind` per case) and prints one line per case:
//!
//!   slice <kind> <len> <start> <stop> <step> <form>\t<result>
//!   index <kind> <len> <i> <form>\t<result>
//!
//! `_` = omitted bound.  Results are canonical: `<class>:<i,j,...>` (positions of the selected
//! elements in the original sequence, class in str/bytes/tuple/list), `elem:<i>`, `undef`,
//! `err:<ErrorKind>`, `panic`.
//!
//! usage: c09 gen <quick|thorough>   — print the case lines with results
//!        c09 one <case fields…>     — run one case (replay)
use minijinja::value::{Tuple, Value, ValueKind};
use minijinja::{context, Environment};
use mjh::*;
use std::io::Write;
use std::sync::Arc;

const CHARS: [char; 7] = ['a', 'é', '€', '𝄞', 'b', 'ß', 'c'];
const KINDS: [&str; 10] = [
    "strplain", "strsmall", "strsafe", "bytes", "list", "tuple", "itersized", "iterunsized",
    "undef", "none",
];

/// characters for long strings: position i ↦ a distinct char (multi-byte every third)
fn long_char(i: usize) -> char {
    match i % 3 {
        0 => char::from_u32(0x61 + (i as u32 / 3)).unwrap(),      // a, b, c …
        1 => char::from_u32(0x3b1 + (i as u32 / 3)).unwrap(),     // α, β, …
        _ => char::from_u32(0x4e00 + (i as u32 / 3)).unwrap(),    // CJK
    }
}

fn mk_value(kind: &str, len: usize) -> Value {
    let s: String = if len <= CHARS.len() { CHARS[..len].iter().collect() } else { (0..len).map(long_char).collect() };
    match kind {
        "strplain" => Value::from(Arc::<str>::from(s.as_str())),
        "strsmall" => Value::from(s),
        "strsafe" => Value::from_safe_string(s),
        "bytes" => Value::from_bytes((0..len as u8).collect()),
        "list" => Value::from((0..len as i64).collect::<Vec<_>>()),
        "tuple" => Value::from(Tuple::from((0..len as i64).map(Value::from).collect::<Vec<_>>())),
        "itersized" => Value::make_iterable(move || 0..len as i64),
        "iterunsized" => Value::make_iterable(move || (0..len as i64).filter(|_| true)),
        "undef" => Value::UNDEFINED,
        "none" => Value::from(()),
        // the builtin range object (lazy, sized), built by the engine itself
        "range" => Environment::new()
            .compile_expression("range(n)")
            .unwrap()
            .eval(context! { n => len })
            .unwrap(),
        "oneshot" => Value::make_one_shot_iterator(0..len as i64),
        "deque" => Value::from_object((0..len as i64).map(Value::from).collect::<std::collections::VecDeque<_>>()),
        _ => panic!("bad kind"),
    }
}

fn char_pos(c: char) -> Option<usize> {
    if let Some(p) = CHARS.iter().position(|x| *x == c) {
        return Some(p);
    }
    (0..64).find(|i| long_char(*i) == c)
}

thread_local! { static LONG: std::cell::Cell<bool> = std::cell::Cell::new(false); }

fn canon(v: &Value) -> String {
    if v.is_undefined() {
        return "undef".into();
    }
    if v.is_none() {
        return "none".into();
    }
    match v.kind() {
        ValueKind::String => {
            let s = v.as_str().unwrap();
            let idx: Vec<String> = s
                .chars()
                .map(|c| (if LONG.with(|l| l.get()) { (0..64).find(|i| long_char(*i) == c) } else { char_pos(c) }).map(|p| p.to_string()).unwrap_or("?".into()))
                .collect();
            format!("str:{}", idx.join(","))
        }
        ValueKind::Bytes => {
            let b = v.as_bytes().unwrap();
            format!("bytes:{}", b.iter().map(|x| x.to_string()).collect::<Vec<_>>().join(","))
        }
        ValueKind::Seq | ValueKind::Iterable => {
            let class = if v.is_tuple() { "tuple" } else { "list" };
            match v.try_iter() {
                Ok(it) => format!(
                    "{}:{}",
                    class,
                    it.map(|x| x.to_string()).collect::<Vec<_>>().join(",")
                ),
                Err(e) => format!("err:{}", error_kind_name(&e)),
            }
        }
        ValueKind::Number => format!("elem:{}", v),
        other => format!("other:{:?}", other),
    }
}

fn canon_elem(kind: &str, v: &Value) -> String {
    if v.is_undefined() {
        return "undef".into();
    }
    match v.kind() {
        ValueKind::String => {
            let s = v.as_str().unwrap();
            let mut it = s.chars();
            let c = it.next();
            if kind.starts_with("str") && c.is_some() && it.next().is_none() {
                match c.and_then(|c| if LONG.with(|l| l.get()) { (0..64).find(|i| long_char(*i) == c) } else { char_pos(c) }) {
                    Some(p) => format!("elem:{}", p),
                    None => "other:char".into(),
                }
            } else {
                "other:str".into()
            }
        }
        ValueKind::Number => format!("elem:{}", v),
        other => format!("other:{:?}", other),
    }
}

fn bound_src(name: &str, b: &str, form: &str) -> (String, Option<i64>) {
    if b == "_" {
        return (String::new(), None);
    }
    let n: i64 = b.parse().unwrap();
    if form == "lit" {
        (b.to_string(), Some(n))
    } else {
        (name.to_string(), Some(n))
    }
}

fn run_slice(env: &Environment, kind: &str, len: usize, a: &str, b: &str, c: &str, form: &str) -> String {
    let (sa, va) = bound_src("a", a, form);
    let (sb, vb) = bound_src("b", b, form);
    let (sc, vc) = bound_src("c", c, form);
    let src = if c == "_" { format!("v[{}:{}]", sa, sb) } else { format!("v[{}:{}:{}]", sa, sb, sc) };
    let v = mk_value(kind, len);
    LONG.with(|l| l.set(len > CHARS.len()));
    let r = guarded(|| {
        let expr = env.compile_expression(&src)?;
        let out = expr.eval(context! { v => v, a => va, b => vb, c => vc })?;
        // force lazily evaluated results inside the guard
        Ok::<String, minijinja::Error>(canon(&out))
    });
    LONG.with(|l| l.set(false));
    match r {
        Ok(Ok(s)) => s,
        Ok(Err(e)) => format!("err:{}", error_kind_name(&e)),
        Err(_) => "panic".into(),
    }
}

fn run_index(env: &Environment, kind: &str, len: usize, i: &str, form: &str) -> String {
    let (si, vi) = bound_src("a", i, form);
    let src = format!("v[{}]", si);
    let v = mk_value(kind, len);
    LONG.with(|l| l.set(len > CHARS.len()));
    let r = guarded(|| {
        let expr = env.compile_expression(&src)?;
        let out = expr.eval(context! { v => v, a => vi })?;
        Ok::<String, minijinja::Error>(canon_elem(kind, &out))
    });
    LONG.with(|l| l.set(false));
    match r {
        Ok(Ok(s)) => s,
        Ok(Err(e)) => format!("err:{}", error_kind_name(&e)),
        Err(_) => "panic".into(),
    }
}

/// `chain <kind> <len> <suffix>`: evaluates `v<suffix>` where suffix is a sequence of literal
/// slices/subscripts such as `[1:4][::-1][0]`; the last op decides slice vs element result.
fn run_chain(env: &Environment, kind: &str, len: usize, suffix: &str) -> String {
    LONG.with(|l| l.set(len > CHARS.len()));
    let src = format!("v{}", suffix);
    let v = mk_value(kind, len);
    let is_index = suffix.rsplit('[').next().map(|last| !last.contains(':')).unwrap_or(false);
    let r = guarded(|| {
        let expr = env.compile_expression(&src)?;
        let out = expr.eval(context! { v => v })?;
        Ok::<String, minijinja::Error>(if is_index { canon_elem(if kind.starts_with("str") { "str" } else { kind }, &out) } else { canon(&out) })
    });
    LONG.with(|l| l.set(false));
    match r {
        Ok(Ok(s)) => s,
        Ok(Err(e)) => format!("err:{}", error_kind_name(&e)),
        Err(_) => "panic".into(),
    }
}

fn rnd_bound(rng: &mut Rng, len: usize, wide: i64) -> String {
    match rng.below(10) {
        0 | 1 => String::new(),
        2 => i64::MAX.to_string(),
        3 => i64::MIN.to_string(),
        _ => (rng.below((2 * (len as i64 + wide) + 1) as u64) as i64 - (len as i64 + wide)).to_string(),
    }
}

fn rnd_slice(rng: &mut Rng, len: usize) -> String {
    let a = rnd_bound(rng, len, 3);
    let b = rnd_bound(rng, len, 3);
    let c = match rng.below(8) {
        0 | 1 | 2 => String::new(),
        3 => "-1".to_string(),
        _ => { let k = rng.below(9) as i64 + 1; if rng.chance(1, 2) { (-k).to_string() } else { k.to_string() } }
    };
    if c.is_empty() { format!("[{}:{}]", a, b) } else { format!("[{}:{}:{}]", a, b, c) }
}

fn bounds(range: std::ops::RangeInclusive<i64>) -> Vec<String> {
    let mut v = vec!["_".to_string()];
    v.extend(range.map(|x| x.to_string()));
    for x in [i64::MAX, i64::MIN, i64::MIN + 1, i64::MAX - 1] {
        v.push(x.to_string());
    }
    v
}

// =====================================================================================
// Glue streams (deepening round 3): value-kind x bound-kind products through several
// entry points and undefined modes, long sequences, metamorphic relations.
//
//   gs <mode> <entry> <value> <a> <b> <c>      slice, `_` = omitted part
//   gi <mode> <entry> <value> <key>            subscript
//   ga <mode> <entry> <value> <hexname>        attribute lookup
//   long <kind> <len> <a> <b> <c>              long sequences, result as digest
//   meta <rel> <kind> <len> <a> <b> <c>        metamorphic relations (lhs|rhs)
//
// value specs: U undefined, Z none, T/F bool, i:<n> I64, u:<n> U64, I:<n> I128, W:<n> U128,
// f:<bits> F64, sn:<hex> String(Normal), sm:<hex> Value::from(&str) (SmallStr when it fits),
// sa:<hex> safe string, b:<hex> bytes, L:<n> Vec, D:<n> VecDeque, P:<n> Tuple, E:<n> sized
// iterable, X:<n> iterable of unknown length, O:<n> one-shot iterator, R:<n> range(n),
// CS:<n> custom Seq object, CI:<n> custom Iterable object, M:<k,k,..> ValueMap (keys are value
// specs, values 0,1,2..), MS:<hex,hex,..> string-keyed BTreeMap<String, Value>, Q plain object.
// =====================================================================================
use minijinja::value::{Enumerator, Object, ObjectRepr};
use minijinja::UndefinedBehavior;
use std::collections::BTreeMap;

#[derive(Debug)]
struct CustomSeq(usize);
impl Object for CustomSeq {
    fn repr(self: &Arc<Self>) -> ObjectRepr { ObjectRepr::Seq }
    fn get_value(self: &Arc<Self>, key: &Value) -> Option<Value> {
        let i = key.as_usize()?;
        if i < self.0 { Some(Value::from(i as i64)) } else { None }
    }
    fn enumerate(self: &Arc<Self>) -> Enumerator { Enumerator::Seq(self.0) }
}
#[derive(Debug)]
struct CustomIter(usize);
impl Object for CustomIter {
    fn repr(self: &Arc<Self>) -> ObjectRepr { ObjectRepr::Iterable }
    fn enumerate(self: &Arc<Self>) -> Enumerator {
        Enumerator::Values((0..self.0 as i64).map(Value::from).collect())
    }
}
#[derive(Debug)]
struct PlainObj;
impl Object for PlainObj {
    fn repr(self: &Arc<Self>) -> ObjectRepr { ObjectRepr::Plain }
}

/// A custom object for every `Enumerator` variant under both sequence-like representations:
/// `CE:<repr>:<variant>:<n>` with repr `S` (`ObjectRepr::Seq`, answers `get_value` by position) or
/// `I` (`ObjectRepr::Iterable`, no `get_value`), items 0..n.  Variants: `seq` `Enumerator::Seq(n)`,
/// `vals` `Values`, `iter` `Iter` with exact size hints, `iterlo` `Iter` whose upper bound is too
/// large (n + 2), `iterlow` `Iter` with a lower bound only, `iternone` `Iter` without hints,
/// `rev` `RevIter`, `empty` `Empty`, `str` `Str` (items are names), `kv` / `revkv` pairs.
#[derive(Debug)]
struct CustomEnum { seq: bool, variant: String, n: usize }

struct Hinted<I> { inner: I, lo: usize, hi: Option<usize> }
impl<I: Iterator> Iterator for Hinted<I> {
    type Item = I::Item;
    fn next(&mut self) -> Option<I::Item> { self.inner.next() }
    fn size_hint(&self) -> (usize, Option<usize>) { (self.lo, self.hi) }
}
impl<I: DoubleEndedIterator> DoubleEndedIterator for Hinted<I> {
    fn next_back(&mut self) -> Option<I::Item> { self.inner.next_back() }
}

const CE_NAMES: [&str; 6] = ["n0", "n1", "n2", "n3", "n4", "n5"];

impl CustomEnum {
    fn item(&self, i: usize) -> Value {
        match self.variant.as_str() {
            "str" => Value::from(CE_NAMES[i]),
            "kv" | "revkv" | "kvnone" | "revkvnone" => Value::from(vec![Value::from(i as i64), Value::from(10 * i as i64)]),
            _ => Value::from(i as i64),
        }
    }
}

impl Object for CustomEnum {
    fn repr(self: &Arc<Self>) -> ObjectRepr { if self.seq { ObjectRepr::Seq } else { ObjectRepr::Iterable } }
    fn get_value(self: &Arc<Self>, key: &Value) -> Option<Value> {
        // an object that enumerates by position (`Enumerator::Seq`) has to answer `get_value`
        if !self.seq && self.variant != "seq" { return None; }
        let i = key.as_usize()?;
        if i < self.n { Some(self.item(i)) } else { None }
    }
    fn enumerate(self: &Arc<Self>) -> Enumerator {
        let n = self.n;
        let items: Vec<Value> = (0..n).map(|i| self.item(i)).collect();
        match self.variant.as_str() {
            "seq" => Enumerator::Seq(n),
            "vals" => Enumerator::Values(items),
            "iter" => Enumerator::Iter(Box::new(items.into_iter())),
            "iterlo" => Enumerator::Iter(Box::new(Hinted { inner: items.into_iter(), lo: 0, hi: Some(n + 2) })),
            "iterlow" => Enumerator::Iter(Box::new(Hinted { inner: items.into_iter(), lo: n.min(1), hi: None })),
            "iternone" => Enumerator::Iter(Box::new(Hinted { inner: items.into_iter(), lo: 0, hi: None })),
            "rev" => Enumerator::RevIter(Box::new(items.into_iter())),
            // `RevIter` / the pair iterators whose size hints do not pin the length
            "revlo" => Enumerator::RevIter(Box::new(Hinted { inner: items.into_iter(), lo: 0, hi: Some(n + 2) })),
            "revnone" => Enumerator::RevIter(Box::new(Hinted { inner: items.into_iter(), lo: 0, hi: None })),
            "none" => Enumerator::NonEnumerable,
            "empty" => Enumerator::Empty,
            "str" => Enumerator::Str(&CE_NAMES[..n.min(6)]),
            "kv" => Enumerator::KeyValueIter(Box::new((0..n as i64).map(|i| (Value::from(i), Value::from(10 * i))))),
            "revkv" => Enumerator::RevKeyValueIter(Box::new((0..n as i64).map(|i| (Value::from(i), Value::from(10 * i))))),
            "kvnone" => Enumerator::KeyValueIter(Box::new(Hinted { inner: (0..n as i64).map(|i| (Value::from(i), Value::from(10 * i))), lo: 0, hi: None })),
            "revkvnone" => Enumerator::RevKeyValueIter(Box::new(Hinted { inner: (0..n as i64).map(|i| (Value::from(i), Value::from(10 * i))), lo: n.min(1), hi: None })),
            _ => panic!("bad CE variant"),
        }
    }
}

fn eval_with(src: &str, ctx: Value) -> Value {
    derived_env("L").compile_expression(src).unwrap().eval(ctx).unwrap()
}

fn mk_spec(spec: &str) -> Value {
    let (tag, arg) = spec.split_once(':').unwrap_or((spec, ""));
    let n = || arg.parse::<usize>().unwrap();
    match tag {
        "U" => Value::UNDEFINED,
        "Z" | "_" => Value::from(()),
        "T" => Value::from(true),
        "F" => Value::from(false),
        "i" => Value::from(arg.parse::<i64>().unwrap()),
        "u" => Value::from(arg.parse::<u64>().unwrap()),
        "I" => Value::from(arg.parse::<i128>().unwrap()),
        "W" => Value::from(arg.parse::<u128>().unwrap()),
        "f" => Value::from(f64::from_bits(arg.parse::<u64>().unwrap())),
        "sn" => Value::from(Arc::<str>::from(String::from_utf8(unhex(arg)).unwrap().as_str())),
        "sm" => Value::from(String::from_utf8(unhex(arg)).unwrap()),
        "sa" => Value::from_safe_string(String::from_utf8(unhex(arg)).unwrap()),
        "b" => Value::from_bytes(unhex(arg)),
        "L" => Value::from((0..n() as i64).collect::<Vec<_>>()),
        "D" => Value::from_object((0..n() as i64).map(Value::from).collect::<std::collections::VecDeque<_>>()),
        "P" => Value::from(Tuple::from((0..n() as i64).map(Value::from).collect::<Vec<_>>())),
        "E" => { let n = n(); Value::make_iterable(move || 0..n as i64) }
        "X" => { let n = n() as i64; Value::make_iterable(move || { let mut i = 0i64; std::iter::from_fn(move || if i < n { i += 1; Some(i - 1) } else { None }) }) }
        "O" => Value::make_one_shot_iterator(0..n() as i64),
        "R" => Environment::new().compile_expression("range(n)").unwrap().eval(context! { n => n() }).unwrap(),
        "CS" => Value::from_object(CustomSeq(n())),
        // a Rust array (`impl Object for [T; N]`), N fixed to 4
        "A" => Value::from_object([0i64, 1, 2, 3]),
        "CI" => Value::from_object(CustomIter(n())),
        "M" => {
            let mut m: BTreeMap<Value, Value> = BTreeMap::new();
            for (i, k) in arg.split(',').filter(|k| !k.is_empty()).enumerate() {
                m.insert(mk_spec(&k.replace('=', ":")), Value::from(i as i64));
            }
            Value::from_object(m)
        }
        "MS" => {
            let mut m: BTreeMap<String, Value> = BTreeMap::new();
            for (i, k) in arg.split(',').filter(|k| !k.is_empty()).enumerate() {
                m.insert(String::from_utf8(unhex(k)).unwrap(), Value::from(i as i64));
            }
            Value::from(m)
        }
        "Q" => Value::from_object(PlainObj),
        // std collections that are `ObjectRepr::Iterable` (sets, linked lists)
        "BS" => Value::from((0..n() as i64).collect::<std::collections::BTreeSet<_>>()),
        "LL" => Value::from((0..n() as i64).collect::<std::collections::LinkedList<_>>()),
        "HS" => Value::from((0..n() as i64).collect::<std::collections::HashSet<_>>()),
        // repetitions: `RP:<n>x<k>` = [0..n) * k, `RR:<n>x<a>x<b>` = ([0..n) * a) * b
        "RP" | "RR" => {
            let p: Vec<usize> = arg.split('x').map(|x| x.parse().unwrap()).collect();
            let base = Value::from((0..p[0] as i64).collect::<Vec<_>>());
            if tag == "RP" { eval_with("v * a", context! { v => base, a => p[1] }) }
            else { eval_with("(v * a) * b", context! { v => base, a => p[1], b => p[2] }) }
        }
        // the reversed view of another spec (`=` stands for `:` in the inner spec)
        "RV" => mk_spec(&arg.replace('=', ":")).reverse().unwrap(),
        "CE" => {
            let p: Vec<&str> = arg.split(':').collect();
            Value::from_object(CustomEnum { seq: p[0] == "S", variant: p[1].to_string(), n: p[2].parse().unwrap() })
        }
        _ => panic!("bad value spec {}", spec),
    }
}

/// source text of a literal for the `lit` entries (None = the spec has no literal form)
fn lit_src(spec: &str) -> Option<String> {
    let (tag, arg) = spec.split_once(':').unwrap_or((spec, ""));
    Some(match tag {
        "_" => String::new(),
        "Z" => "none".into(),
        "T" => "true".into(),
        "F" => "false".into(),
        "i" | "u" | "I" | "W" => {
            // the literal -2^127 is not an integer literal of the engine (2^127 does not fit i128)
            if arg == "-170141183460469231731687303715884105728" { return None; }
            if arg.starts_with('-') { format!("({})", arg) } else { arg.to_string() }
        }
        "f" => {
            let f = f64::from_bits(arg.parse::<u64>().unwrap());
            if !f.is_finite() || f.abs() >= 1e15 || (f != 0.0 && f.abs() < 1e-4) || (f == 0.0 && f.is_sign_negative()) { return None; }
            let t = format!("{:?}", f);
            if t.starts_with('-') { format!("({})", t) } else { t }
        }
        "sn" | "sm" => {
            let s = String::from_utf8(unhex(arg)).unwrap();
            if s.contains('"') || s.contains('\\') { return None; }
            format!("\"{}\"", s)
        }
        "L" => format!("[{}]", (0..arg.parse::<usize>().unwrap()).map(|i| i.to_string()).collect::<Vec<_>>().join(", ")),
        "P" => {
            let n = arg.parse::<usize>().unwrap();
            if n == 0 { "()".into() } else if n == 1 { "(0,)".into() } else { format!("({})", (0..n).map(|i| i.to_string()).collect::<Vec<_>>().join(", ")) }
        }
        // a map literal: the engine's own `ValueMap`
        "M" => {
            let mut parts = Vec::new();
            for (i, k) in arg.split(',').filter(|k| !k.is_empty()).enumerate() {
                parts.push(format!("{}: {}", lit_src(&k.replace('=', ":"))?, i));
            }
            format!("{{{}}}", parts.join(", "))
        }
        _ => return None,
    })
}

/// an item of a test sequence as a number: the integers themselves; the items of the custom objects
/// that enumerate names (`n<i>`, `Enumerator::Str`) and pairs (`[i, 10 i]`, the key-value iterators
/// of an object that is not a map) as `1000 + i` and `2000 + i`
fn elem_str(v: &Value) -> String {
    if v.is_undefined() { return "undef".into(); }
    if v.kind() == ValueKind::Number && v.is_integer() { return v.to_string(); }
    if let Some(s) = v.as_str() {
        if let Some(i) = CE_NAMES.iter().position(|n| *n == s) { return (1000 + i).to_string(); }
    }
    if v.kind() == ValueKind::Seq && v.len() == Some(2) {
        if let (Ok(k), Ok(x)) = (v.get_item_by_index(0), v.get_item_by_index(1)) {
            if let (Some(k), Some(x)) = (k.as_i64(), x.as_i64()) {
                if k >= 0 && x == 10 * k && k < 1000 { return (2000 + k).to_string(); }
            }
        }
    }
    format!("?{}", v.kind())
}

fn canon_g(v: &Value) -> String {
    if v.is_undefined() { return "undef".into(); }
    if v.is_none() { return "none".into(); }
    match v.kind() {
        ValueKind::String => format!("{}:{}", if v.is_safe() { "safestr" } else { "str" }, hex(v.as_str().unwrap().as_bytes())),
        ValueKind::Bytes => format!("bytes:{}", hex(v.as_bytes().unwrap())),
        ValueKind::Bool => format!("bool:{}", v),
        ValueKind::Number => if v.is_integer() { format!("num:{}", v) } else { format!("numf:{}", f64::try_from(v.clone()).unwrap().to_bits()) },
        ValueKind::Seq | ValueKind::Iterable => {
            // iterate first (one-shot iterators!), ask for the length afterwards
            let items = match v.try_iter() {
                Ok(it) => it.map(|x| elem_str(&x)).collect::<Vec<_>>().join(","),
                Err(e) => return format!("err:{}|iter", error_kind_name(&e)),
            };
            let class = if v.is_tuple() { "tuple".to_string() } else if v.kind() == ValueKind::Seq { "seq".to_string() }
                else { format!("iter{}", if v.len().is_some() { "S" } else { "U" }) };
            format!("{}:{}", class, items)
        }
        other => format!("other:{:?}", other),
    }
}

fn canon_item(container: &str, v: &Value) -> String {
    if v.is_undefined() { return "undef".into(); }
    match v.kind() {
        ValueKind::String if container.starts_with('s') || container.starts_with("RV:s") => format!("chr:{}{}", hex(v.as_str().unwrap().as_bytes()), if v.is_safe() { ":safe" } else { "" }),
        ValueKind::Number if (container.starts_with('b') || container.starts_with("RV:b")) && v.is_integer() => format!("byte:{}", v),
        ValueKind::Number if v.is_integer() => format!("elem:{}", v),
        _ if container.starts_with("CE:") && !elem_str(v).starts_with('?') => format!("elem:{}", elem_str(v)),
        _ => format!("other:{}", canon_g(v)),
    }
}

fn err_str(e: &minijinja::Error) -> String {
    format!("err:{}|{}", error_kind_name(e), e.detail().unwrap_or(""))
}

fn mode_of(m: &str) -> UndefinedBehavior {
    match m { "L" => UndefinedBehavior::Lenient, "C" => UndefinedBehavior::Chainable, "S" => UndefinedBehavior::SemiStrict, "X" => UndefinedBehavior::Strict, _ => panic!("bad mode") }
}

thread_local! { static PROBE: std::cell::RefCell<Option<String>> = std::cell::RefCell::new(None); }

/// evaluate `expr_src` (an expression over the context `ctx`) through the entry point `entry`
/// and canonicalise its value with `canon` *inside* the evaluation (lazy results are forced there)
fn eval_entry(mode: &str, entry: &str, expr_src: &str, ctx: Value, canon: &(dyn Fn(&Value) -> String + Sync + Send)) -> String {
    let mut env = Environment::new();
    env.set_undefined_behavior(mode_of(mode));
    let r = guarded(|| -> Result<String, minijinja::Error> {
        if entry == "expr" || entry == "lit" || entry == "dot" {
            let e = env.compile_expression(expr_src)?;
            let out = e.eval(ctx)?;
            return Ok(canon(&out));
        }
        // template entries: a probe function receives the value and canonicalises it
        let canon_ptr: &'static (dyn Fn(&Value) -> String + Sync + Send) = unsafe { std::mem::transmute(canon) };
        env.add_function("probe", move |v: Value| -> String {
            let s = canon_ptr(&v);
            PROBE.with(|p| *p.borrow_mut() = Some(s));
            String::new()
        });
        PROBE.with(|p| *p.borrow_mut() = None);
        let src = match entry {
            "tmpl" | "write" => format!("{{{{ probe({}) }}}}", expr_src),
            "blk" => format!("x{{% if false %}}{{% block body %}}{{{{ probe({}) }}}}{{% endblock %}}{{% endif %}}y", expr_src),
            "mac" => format!("{{% macro m(v, a, b, c) %}}{{{{ probe({}) }}}}{{% endmacro %}}{{{{ m(v, a, b, c) }}}}", expr_src),
            "for" => format!("{{% for q in [1] %}}{{{{ probe({}) }}}}{{% endfor %}}", expr_src),
            "set" => format!("{{% set r = {} %}}{{{{ probe(r) }}}}", expr_src),
            "cap" => format!("{{{{ probe({}) }}}}", expr_src),
            _ => panic!("bad entry {}", entry),
        };
        match entry {
            "write" => {
                env.add_template_owned("t.txt".to_string(), src.clone())?;
                let t = env.get_template("t.txt")?;
                let mut buf = Vec::new();
                t.render_captured_to(ctx, &mut buf)?;
            }
            "blk" => {
                let t = env.template_from_str(&src)?;
                let mut cap = t.render_captured(ctx)?;
                PROBE.with(|p| *p.borrow_mut() = None);
                cap.with_state_mut(|st| st.render_block("body"))?;
            }
            "cap" => {
                let t = env.template_from_str(&src)?;
                t.render_captured(ctx)?;
            }
            _ => {
                let t = env.template_from_str(&src)?;
                t.render(ctx)?;
            }
        }
        Ok(PROBE.with(|p| p.borrow_mut().take()).unwrap_or_else(|| "no-probe".into()))
    });
    match r {
        Ok(Ok(s)) => s,
        Ok(Err(e)) => err_str(&e),
        Err(_) => "panic".into(),
    }
}

fn run_gs(mode: &str, entry: &str, vs: &str, a: &str, b: &str, c: &str) -> String {
    let part = |name: &str, spec: &str| -> Option<String> {
        if spec == "_" { Some(String::new()) } else if entry == "lit" { lit_src(spec) } else { Some(name.to_string()) }
    };
    let (Some(sa), Some(sb), Some(sc)) = (part("a", a), part("b", b), part("c", c)) else { return "no-literal".into() };
    let vsrc = if entry == "lit" && ["L:", "P:", "sn:", "sm:", "M:"].iter().any(|p| vs.starts_with(p)) { lit_src(vs).unwrap_or_else(|| "v".to_string()) } else { "v".to_string() };
    let src = if c == "_" && entry != "lit" { format!("{}[{}:{}]", vsrc, sa, sb) } else { format!("{}[{}:{}:{}]", vsrc, sa, sb, sc) };
    let ctx = context! { v => mk_spec(vs), a => mk_spec(a), b => mk_spec(b), c => mk_spec(c) };
    eval_entry(mode, entry, &src, ctx, &canon_g)
}

fn run_gi(mode: &str, entry: &str, vs: &str, key: &str) -> String {
    let vs_owned = vs.to_string();
    let canon = move |v: &Value| canon_item(&vs_owned, v);
    match entry {
        "api" => {
            let v = mk_spec(vs);
            let k = mk_spec(key);
            match guarded(|| v.get_item(&k).map(|x| canon_item(vs, &x))) {
                Ok(Ok(s)) => s, Ok(Err(e)) => err_str(&e), Err(_) => "panic".into(),
            }
        }
        "apiidx" => {
            let v = mk_spec(vs);
            let idx: usize = key.split_once(':').unwrap().1.parse::<u64>().unwrap() as usize;
            match guarded(|| v.get_item_by_index(idx).map(|x| canon_item(vs, &x))) {
                Ok(Ok(s)) => s, Ok(Err(e)) => err_str(&e), Err(_) => "panic".into(),
            }
        }
        "lit" | "dot" => {
            let Some(k) = lit_src(key) else { return "no-literal".into() };
            let vsrc = if ["L:", "P:", "sn:", "sm:", "M:"].iter().any(|p| vs.starts_with(p)) { lit_src(vs).unwrap_or_else(|| "v".to_string()) } else { "v".to_string() };
            let src = if entry == "dot" { format!("{}.{}", vsrc, k) } else { format!("{}[{}]", vsrc, k) };
            eval_entry(mode, entry, &src, context! { v => mk_spec(vs) }, &canon)
        }
        _ => eval_entry(mode, entry, "v[a]", context! { v => mk_spec(vs), a => mk_spec(key), b => (), c => () }, &canon),
    }
}

fn run_ga(mode: &str, entry: &str, vs: &str, hexname: &str) -> String {
    let name = String::from_utf8(unhex(hexname)).unwrap();
    let vs_owned = vs.to_string();
    let canon = move |v: &Value| canon_item(&vs_owned, v);
    if entry == "api" {
        let v = mk_spec(vs);
        return match guarded(|| v.get_attr(&name).map(|x| canon_item(vs, &x))) {
            Ok(Ok(s)) => s, Ok(Err(e)) => err_str(&e), Err(_) => "panic".into(),
        };
    }
    eval_entry(mode, entry, &format!("v.{}", name), context! { v => mk_spec(vs), a => (), b => (), c => () }, &canon)
}

// ---- long sequences -----------------------------------------------------------------------
fn long_chr(i: usize) -> char {
    let q = (i / 4) as u32;
    match i % 4 {
        0 => char::from_u32(0x61 + q % 26).unwrap(),
        1 => char::from_u32(0x300 + q % 32).unwrap(),   // combining marks: a scalar value of its own, for Python as for Rust
        2 => char::from_u32(0x4e00 + q % 1000).unwrap(),
        _ => char::from_u32(0x1f600 + q % 64).unwrap(),
    }
}
fn long_byte(i: usize) -> u8 { ((i * 7 + 3) % 256) as u8 }

fn mk_long(kind: &str, len: usize) -> Value {
    match kind {
        "strn" => Value::from(Arc::<str>::from((0..len).map(long_chr).collect::<String>().as_str())),
        "strm" => Value::from((0..len).map(long_chr).collect::<String>()),
        "stra" => Value::from_safe_string((0..len).map(long_chr).collect::<String>()),
        "bytes" => Value::from_bytes((0..len).map(long_byte).collect()),
        "list" => Value::from((0..len as i64).collect::<Vec<_>>()),
        "tuple" => Value::from(Tuple::from((0..len as i64).map(Value::from).collect::<Vec<_>>())),
        "deque" => Value::from_object((0..len as i64).map(Value::from).collect::<std::collections::VecDeque<_>>()),
        "itersized" => Value::make_iterable(move || 0..len as i64),
        "iterunsized" => { let n = len as i64; Value::make_iterable(move || { let mut i = 0i64; std::iter::from_fn(move || if i < n { i += 1; Some(i - 1) } else { None }) }) }
        "oneshot" => Value::make_one_shot_iterator(0..len as i64),
        "range" => mk_value("range", len),
        // a repetition: len items = (0..len/100 or so) repeated; item i = i % base
        "rep" => { let base = rep_base(len); eval_with("v * n", context! { v => Value::from((0..base as i64).collect::<Vec<_>>()), n => len / base }) }
        _ => panic!("bad long kind"),
    }
}

/// the operand length of the `rep` kind: the largest divisor of `len` that is at most 1000
fn rep_base(len: usize) -> usize { (1..=1000usize.min(len.max(1))).rev().find(|d| len % d == 0).unwrap_or(1) }

fn digest(class: &str, xs: impl Iterator<Item = u64>) -> String {
    let mut h: u64 = 0xcbf29ce484222325;
    let mut n = 0usize;
    let mut head = Vec::new();
    for x in xs {
        h = (h ^ x).wrapping_mul(0x100000001b3);
        if n < 6 { head.push(x.to_string()); }
        n += 1;
    }
    format!("{}#{}#{}#{}", class, n, h, head.join(","))
}

fn canon_long(v: &Value) -> String {
    if v.is_undefined() { return "undef".into(); }
    match v.kind() {
        ValueKind::String => digest(if v.is_safe() { "safestr" } else { "str" }, v.as_str().unwrap().chars().map(|c| c as u64)),
        ValueKind::Bytes => digest("bytes", v.as_bytes().unwrap().iter().map(|b| *b as u64)),
        ValueKind::Seq | ValueKind::Iterable => {
            let class = if v.is_tuple() { "tuple" } else { "list" };
            match v.try_iter() {
                Ok(it) => digest(class, it.map(|x| u64::try_from(x).unwrap_or(u64::MAX))),
                Err(e) => err_str(&e),
            }
        }
        ValueKind::Number => format!("elem:{}", v),
        other => format!("other:{:?}", other),
    }
}

fn bound_lit(b: &str) -> String {
    if b == "_" { String::new() } else if b.starts_with('-') { format!("({})", b) } else { b.to_string() }
}

/// `long <kind> <len> <a> <b> <c>`: bounds are decimal integers of any size (context values of
/// the narrowest of I64/U64/I128/U128 holding them) or `_`; `c` = `i<k>` means the subscript `[k]`
fn run_long(kind: &str, len: usize, a: &str, b: &str, c: &str) -> String {
    let v = mk_long(kind, len);
    let val = |s: &str| -> Value {
        if s == "_" { return Value::from(()); }
        if let Ok(x) = s.parse::<i64>() { Value::from(x) }
        else if let Ok(x) = s.parse::<u64>() { Value::from(x) }
        else if let Ok(x) = s.parse::<i128>() { Value::from(x) }
        else { Value::from(s.parse::<u128>().unwrap()) }
    };
    let env = Environment::new();
    let r = guarded(|| -> Result<String, minijinja::Error> {
        if let Some(k) = c.strip_prefix('i') {
            let out = env.compile_expression("v[k]")?.eval(context! { v => v, k => val(k) })?;
            return Ok(if out.is_undefined() { "undef".into() } else { match out.kind() {
                ValueKind::String => format!("chr:{}", out.as_str().unwrap().chars().next().map(|c| c as u32).unwrap_or(0)),
                _ => format!("elem:{}", out),
            } });
        }
        let src = if c == "_" { "v[a:b]" } else { "v[a:b:c]" };
        let out = env.compile_expression(src)?.eval(context! { v => v, a => val(a), b => val(b), c => val(c) })?;
        Ok(canon_long(&out))
    });
    match r { Ok(Ok(s)) => s, Ok(Err(e)) => err_str(&e), Err(_) => "panic".into() }
}

// ---- metamorphic relations ----------------------------------------------------------------
/// `meta <rel> <kind> <len> <a> <b> <c>` prints `lhs|rhs` (both canonical)
fn run_meta(rel: &str, kind: &str, len: usize, a: &str, b: &str, c: &str) -> String {
    let env = Environment::new();
    let sl = if c == "_" { format!("[{}:{}]", bound_lit(a), bound_lit(b)) } else { format!("[{}:{}:{}]", bound_lit(a), bound_lit(b), bound_lit(c)) };
    let ev = |src: &str| -> String {
        let v = mk_long(kind, len);
        match guarded(|| env.compile_expression(src).and_then(|e| e.eval(context! { v => v })).map(|o| canon_long(&o))) {
            Ok(Ok(s)) => s, Ok(Err(e)) => err_str(&e), Err(_) => "panic".into(),
        }
    };
    let rd = |src: &str| -> String {
        let v = mk_long(kind, len);
        match guarded(|| env.render_str(src, context! { v => v })) {
            Ok(Ok(s)) => s, Ok(Err(e)) => err_str(&e), Err(_) => "panic".into(),
        }
    };
    match rel {
        // `xs|reverse` selects what `xs[::-1]` selects
        "rev" => format!("{}~~{}", ev("v|reverse"), ev("v[::-1]")),
        "first" => format!("{}~~{}", ev("v|first"), ev("v[0]")),
        "last" => format!("{}~~{}", ev("v|last"), ev("v[-1]")),
        // length of a slice
        "len" => rd(&format!("{{{{ v{}|length }}}}", sl)),
        // a slice driven by a for loop: loop.length and the items
        "loop" => rd(&format!("{{% for x in v{} %}}{{{{ loop.length }}}}:{{{{ loop.index0 }}}}:{{{{ x }}}},{{% endfor %}}", sl)),
        // a slice of a slice of a slice (b and c reused as the inner slices' bounds)
        "sss" => ev(&format!("v{}[{}:{}][::{}]", sl, bound_lit(b), bound_lit(a), if c == "_" || c == "0" { "1".to_string() } else { bound_lit(c) })),
        // literal container vs run-time container (lists and short strings only)
        "litv" => {
            let lit = match kind {
                "list" => format!("[{}]", (0..len).map(|i| i.to_string()).collect::<Vec<_>>().join(", ")),
                "tuple" => if len == 1 { "(0,)".to_string() } else { format!("({})", (0..len).map(|i| i.to_string()).collect::<Vec<_>>().join(", ")) },
                _ => format!("\"{}\"", (0..len).map(long_chr).collect::<String>()),
            };
            format!("{}~~{}", ev(&format!("{}{}", lit, sl)), ev(&format!("v{}", sl)))
        }
        "liti" => {
            let lit = match kind {
                "list" => format!("[{}]", (0..len).map(|i| i.to_string()).collect::<Vec<_>>().join(", ")),
                "tuple" => if len == 1 { "(0,)".to_string() } else { format!("({})", (0..len).map(|i| i.to_string()).collect::<Vec<_>>().join(", ")) },
                _ => format!("\"{}\"", (0..len).map(long_chr).collect::<String>()),
            };
            let evi = |src: &str| -> String {
                let v = mk_long(kind, len);
                match guarded(|| env.compile_expression(src).and_then(|e| e.eval(context! { v => v })).map(|o| {
                    if o.is_undefined() { "undef".to_string() } else if o.kind() == ValueKind::String { format!("chr:{}", o.as_str().unwrap().chars().next().map(|c| c as u32).unwrap_or(0)) } else { format!("elem:{}", o) }
                })) { Ok(Ok(s)) => s, Ok(Err(e)) => err_str(&e), Err(_) => "panic".into() }
            };
            format!("{}~~{}", evi(&format!("{}[{}]", lit, bound_lit(a))), evi(&format!("v[{}]", bound_lit(a))))
        }
        _ => "bad-rel".into(),
    }
}

fn fb(x: f64) -> String { format!("f:{}", x.to_bits()) }

fn value_specs() -> Vec<String> {
    let s5 = hex("aé€𝄞b".as_bytes());
    let long: String = (0..30).map(long_chr).collect();
    let mut v: Vec<String> = ["U", "Z", "T", "i:5", "sn:", "sm:61", "b:000102fe", "b:", "L:0", "L:1", "L:4", "D:4", "A:4", "P:0", "P:1", "P:2",
        "P:4", "E:4", "E:0", "X:4", "X:0", "O:4", "R:4", "CS:4", "CI:4", "M:i=1,i=-1,i=0,sm=6b,sm=31,T", "M:", "MS:6b,31", "Q"]
        .iter().map(|s| s.to_string()).collect();
    v.push(fb(1.0));
    for r in ["sn", "sm", "sa"] { v.push(format!("{}:{}", r, s5)); }
    v.push(format!("sm:{}", hex(long.as_bytes())));
    v.push(format!("sa:{}", hex(long.as_bytes())));
    // combining marks, a ZWJ sequence and 4-byte characters: Python and Rust both count scalar values
    v.push(format!("sm:{}", hex("e\u{301}\u{1f469}\u{200d}\u{1f680}x".as_bytes())));
    for s in NEW_VALUE_SPECS { v.push(s.to_string()); }
    v
}

/// every sequence-like object kind the engine registers besides the classic ones: std sets and
/// linked lists, repetitions (also nested), reversed views, one custom object per `Enumerator`
/// variant under both sequence-like `ObjectRepr`s
const NEW_VALUE_SPECS: &[&str] = &[
    "BS:4", "LL:4", "HS:1", "RP:3x2", "RP:0x3", "RP:2x0", "RR:2x2x2", "RR:1x3x1",
    "RV:L=4", "RV:X=4", "RV:BS=4", "RV:LL=3", "RV:P=3", "RV:RP=2x2", "RV:CE=I=vals=4", "RV:CE=I=rev=4", "RV:CE=S=seq=4", "RV:O=3", "RV:sm=61c3a962", "RV:b=000102",
    "CE:S:seq:4", "CE:S:vals:4", "CE:S:iter:4", "CE:S:rev:4", "CE:S:empty:0",
    "CE:S:iterlo:4", "CE:S:iterlow:4", "CE:S:iternone:4", "CE:S:revnone:3", "CE:S:str:3", "CE:S:kvnone:3", "CE:I:str:3", "CE:I:kv:3", "CE:I:revkvnone:3",
    "CE:I:seq:4", "CE:I:vals:4", "CE:I:iter:4", "CE:I:iterlo:4", "CE:I:iterlow:4", "CE:I:iternone:4", "CE:I:rev:4", "CE:I:empty:0",
];

fn key_specs() -> Vec<String> {
    let mut k: Vec<String> = ["Z", "U", "T", "F"].iter().map(|s| s.to_string()).collect();
    for i in -6..=6i64 { k.push(format!("i:{}", i)); }
    for s in ["i:-9223372036854775808", "i:9223372036854775807", "i:-9223372036854775807", "u:0", "u:3", "u:9223372036854775807",
              "u:9223372036854775808", "u:18446744073709551615", "I:-1", "I:2", "I:0", "I:-9223372036854775808", "I:-9223372036854775809",
              "I:9223372036854775807", "I:9223372036854775808", "I:-170141183460469231731687303715884105728",
              "I:170141183460469231731687303715884105727", "W:1", "W:0", "W:9223372036854775808",
              "W:340282366920938463463374607431768211455", "sn:31", "sm:31", "sm:6b", "sa:30", "sm:", "b:01", "L:2", "P:1", "M:i=1", "Q", "E:2"] {
        k.push(s.to_string());
    }
    for f in [1.0, -1.0, 0.0, -0.0, 2.0, 3.0, -4.0, -5.0, 1.5, -0.5, f64::NAN, f64::INFINITY, f64::NEG_INFINITY, 9223372036854775808.0,
              -9223372036854775808.0, 9223372036854774784.0, -9223372036854777856.0, 9007199254740992.0, 1e300, -1e300, 5e-324, 4294967296.0] {
        k.push(fb(f));
    }
    k
}

const MODES: [&str; 4] = ["L", "C", "S", "X"];
const TMPL_ENTRIES: [&str; 7] = ["tmpl", "write", "blk", "mac", "for", "set", "cap"];

fn spec_seed(spec: &str) -> u64 {
    spec.bytes().fold(0xcbf29ce484222325u64, |h, b| (h ^ b as u64).wrapping_mul(0x100000001b3))
}

const GS_SHARDS: usize = 8;

/// slices: value specs `shard, shard + GS_SHARDS, …`; every value draws from its own generator
fn gen_gs(out: &mut impl Write, thorough: bool, shard: usize) {
    let values = value_specs();
    let keys = key_specs();
    let others: [(&str, &str); 9] = [("_", "_"), ("i:1", "i:3"), ("i:-2", "_"), ("_", "i:-1"), ("i:0", "i:2"), ("i:-1", "i:-1"),
                                     ("i:2", "i:0"), ("U", "_"), ("sn:31", "sm:31")];
    let den = if thorough { 2 } else { 16 };
    for (vi, vs) in values.iter().enumerate() {
        if vi % GS_SHARDS != shard { continue; }
        let mut rng = Rng::new(seed_from_env() ^ 0x9109 ^ spec_seed(vs));
        // the conversion of the parts happens before the dispatch on the value: the object kinds
        // of NEW_VALUE_SPECS meet every key with three neighbour pairs instead of nine
        let newkind = NEW_VALUE_SPECS.contains(&vs.as_str());
        let mut ks: Vec<String> = keys.clone();
        ks.push("_".to_string());
        for k in &ks {
            for pos in 0..3 {
                for (oi, (o1, o2)) in others.iter().enumerate() {
                    if newkind && !thorough && !matches!(oi, 0 | 2 | 6) { continue; }
                    let (a, b, c) = match pos { 0 => (k.as_str(), *o1, *o2), 1 => (*o1, k.as_str(), *o2), _ => (*o1, *o2, k.as_str()) };
                    for mode in MODES {
                        let entries: Vec<&str> = std::iter::once("expr").chain(std::iter::once("lit")).chain(TMPL_ENTRIES.iter().copied()).collect();
                        for entry in entries {
                            let always = (mode == "L" && entry == "expr") || ((vs == "U" || vs == "Z") && (entry == "expr" || entry == "tmpl") && pos == 0);
                            if !always && !rng.chance(1, den) { continue; }
                            let r = run_gs(mode, entry, vs, a, b, c);
                            if r == "no-literal" { continue; }
                            writeln!(out, "gs {} {} {} {} {} {}\t{}", mode, entry, vs, a, b, c, r).unwrap();
                        }
                    }
                }
            }
        }
    }
}

fn gen_gi(out: &mut impl Write, thorough: bool) {
    let values = value_specs();
    let keys = key_specs();
    // ---- subscripts
    for vs in &values {
        let mut rng = Rng::new(seed_from_env() ^ 0x9119 ^ spec_seed(vs));
        for k in &keys {
            for mode in MODES {
                for entry in ["expr", "api", "tmpl", "lit", "dot", "apiidx", "write", "blk", "mac", "for", "set", "cap"] {
                    if entry == "apiidx" && !(k.starts_with("u:")) { continue; }
                    if entry == "dot" && !(["i:", "u:", "I:", "W:"].iter().any(|p| k.starts_with(p)) && !k.contains('-')) { continue; }
                    let always = matches!(entry, "expr" | "api" | "apiidx" | "dot") || vs == "U" || vs == "Z";
                    if !always && !rng.chance(1, if thorough { 1 } else { 4 }) { continue; }
                    let r = run_gi(mode, entry, vs, k);
                    if r == "no-literal" { continue; }
                    writeln!(out, "gi {} {} {} {}\t{}", mode, entry, vs, k, r).unwrap();
                }
            }
        }
    }
    // ---- attributes
    for vs in &values {
        for name in ["x", "k", "length", "x1"] {
            for mode in MODES {
                for entry in ["expr", "api", "tmpl", "mac"] {
                    let r = run_ga(mode, entry, vs, &hex(name.as_bytes()));
                    writeln!(out, "ga {} {} {} {}\t{}", mode, entry, vs, hex(name.as_bytes()), r).unwrap();
                }
            }
        }
        // numeric strings as attribute names reach `get_attr` only through the API
        for name in ["0", "1", "-1", "1.0", "31", "é", "k"] {
            let r = run_ga("L", "api", vs, &hex(name.as_bytes()));
            writeln!(out, "ga L api {} {}\t{}", vs, hex(name.as_bytes()), r).unwrap();
        }
    }
}

fn rnd_big_bound(rng: &mut Rng, len: usize, step: bool) -> String {
    let l = len as i128;
    let around = |rng: &mut Rng, c: i128, w: i128| -> String { (c + rng.below((2 * w + 1) as u64) as i128 - w).to_string() };
    match rng.below(if step { 12 } else { 14 }) {
        0 | 1 => "_".to_string(),
        2 => around(rng, 0, if step { 7 } else { 5 }),
        3 => around(rng, l, 3),
        4 => around(rng, -l, 3),
        5 => around(rng, 1i128 << 31, 2),
        6 => around(rng, -(1i128 << 31), 2),
        7 => around(rng, 1i128 << 63, 2),
        8 => around(rng, -(1i128 << 63), 2),
        9 => match rng.below(6) {
            0 => around(rng, 1i128 << 64, 1),
            1 => around(rng, -(1i128 << 64), 1),
            2 => i128::MAX.to_string(),
            3 => i128::MIN.to_string(),
            4 => u128::MAX.to_string(),
            _ => around(rng, 1i128 << 32, 2),
        },
        10 => around(rng, l / 2, l / 2 + 2),
        11 => around(rng, -l / 2, l / 2 + 2),
        _ => around(rng, 0, l + 10),
    }
}

fn gen_long(out: &mut impl Write, thorough: bool, shard: u64) {
    let mut rng = Rng::new(seed_from_env() ^ 0x10c9 ^ (shard << 32));
    let kinds = ["strn", "strm", "stra", "bytes", "list", "tuple", "deque", "itersized", "iterunsized", "oneshot", "range"];
    let n = (if thorough { 1_200_000 } else { 30_000 }) / LONG_SHARDS;
    for _ in 0..n {
        let kind = *rng.pick(&kinds);
        let len = match rng.below(3) { 0 => rng.below(50), 1 => rng.below(300), _ => rng.below(2001) } as usize;
        let a = rnd_big_bound(&mut rng, len, false);
        let (b, c) = if rng.chance(1, 6) {
            // subscript
            let k = if a == "_" { "0".to_string() } else { a.clone() };
            let k = if kind == "oneshot" && k.starts_with('-') { k[1..].to_string() } else { k };
            ("_".to_string(), format!("i{}", k))
        } else {
            let b = rnd_big_bound(&mut rng, len, false);
            let mut c = rnd_big_bound(&mut rng, len, true);
            if c == "0" && !rng.chance(1, 4) { c = "_".to_string(); }
            (b, c)
        };
        let a = if c.starts_with('i') { "_".to_string() } else { a };
        let r = run_long(kind, len, &a, &b, &c);
        writeln!(out, "long {} {} {} {} {}\t{}", kind, len, a, b, c, r).unwrap();
    }
}

fn gen_meta(out: &mut impl Write, thorough: bool, shard: u64) {
    let mut rng = Rng::new(seed_from_env() ^ 0x3e7a ^ (shard << 32));
    let kinds = ["strn", "strm", "stra", "bytes", "list", "tuple", "deque", "itersized", "iterunsized", "range"];
    let n = (if thorough { 400_000 } else { 16_000 }) / 2;
    let small = |rng: &mut Rng, len: usize| -> String {
        match rng.below(8) { 0 | 1 => "_".to_string(), 2 => i64::MAX.to_string(), 3 => i64::MIN.to_string(),
            _ => (rng.below(2 * len as u64 + 7) as i64 - len as i64 - 3).to_string() }
    };
    for _ in 0..n {
        let rel = *rng.pick(&["rev", "first", "last", "len", "len", "loop", "loop", "sss", "sss", "litv", "liti"]);
        let kind = if rel.starts_with("lit") { *rng.pick(&["list", "tuple", "strm", "strn"]) } else { *rng.pick(&kinds) };
        // the reverse/first/last filters and for loops do not treat bytes as a sequence (not this property's business)
        let kind = if matches!(rel, "rev" | "first" | "last" | "loop") && kind == "bytes" { "list" } else { kind };
        let len = if rel.starts_with("lit") { rng.below(12) as usize + if kind == "tuple" { 1 } else { 0 } } else if rng.chance(1, 3) { rng.below(7) as usize } else { rng.below(120) as usize };
        let (a, b, c) = if matches!(rel, "rev" | "first" | "last") { ("_".to_string(), "_".to_string(), "_".to_string()) } else {
            let a = small(&mut rng, len);
            let b = small(&mut rng, len);
            let c = match rng.below(6) { 0 | 1 => "_".to_string(), 2 => "-1".to_string(), _ => { let k = rng.below(5) as i64 + 1; if rng.chance(1, 2) { (-k).to_string() } else { k.to_string() } } };
            (a, b, c)
        };
        let a = if rel == "liti" && a == "_" { "-1".to_string() } else { a };
        let r = run_meta(rel, kind, len, &a, &b, &c);
        writeln!(out, "meta {} {} {} {} {} {}\t{}", rel, kind, len, a, b, c, r).unwrap();
    }
}

// =====================================================================================
// Derived values: every built-in value with its own `get_value` / indexing
//
//   mg <lens> <types> <entry> <i>     `a|chain(b, c, d)` over operands of the given lengths
//                                     (types: L list / P tuple per operand), subscript i
//   dv <mode> <entry> <id> <key>      DERIVED[id] subscripted: `lhs~~rhs~~kind~~mat`
//                                     lhs = x[key], rhs = (x|list)[key], mat = items of x|list
//   ds <mode> <id> <a> <b> <c>        sliced: lhs = items of x[a:b:c], rhs = items of (x|list)[a:b:c]
// =====================================================================================
const DERIVED: &[(&str, &str)] = &[
    ("chain_e_xs", "e|chain(xs)"),
    ("chain_xs_e", "xs|chain(e)"),
    ("chain_e_e_xs_e", "e|chain(e, xs, e)"),
    ("chain_xs_e_t", "xs|chain(e, t)"),
    ("chain_t0_xs", "t0|chain(xs, xs)"),
    ("chain_nested", "(e|chain(xs))|chain(e|chain(e), t)"),
    ("chain_nested_head", "(e|chain(e))|chain(xs)"),
    ("chain_one", "xs|chain"),
    ("chain_mixed_str", "s|chain(xs)"),
    ("chain_mixed_iter", "e|chain(it, xs)"),
    ("chain_maps", "m|chain(m2)"),
    ("add_e_xs", "e + xs"),
    ("add_xs_xs", "xs + xs"),
    ("add_t_t", "t + t"),
    ("add_t0_t", "t0 + t"),
    ("add_xs_it", "xs + it"),
    ("add_add", "(e + e) + (xs + e)"),
    ("batch", "xs|batch(2)"),
    ("batch_row", "(xs|batch(2))[0]"),
    ("batch_fill", "xs|batch(2, 'x')"),
    ("batch_last", "(xs|batch(2, 'x'))[-1]"),
    ("slicef", "xs|slice(2)"),
    ("slicef_row", "(xs|slice(2))[1]"),
    ("items", "m|items"),
    ("items_pair", "(m|items)[0]"),
    ("dictsort", "m|dictsort"),
    ("dictsort_pair", "(m|dictsort(reverse=true))[0]"),
    ("zip", "xs|zip(t)"),
    ("zip_pair", "(xs|zip(t))[1]"),
    ("groupby", "recs|groupby('k')"),
    ("group", "(recs|groupby('k'))[0]"),
    ("group_list", "(recs|groupby('k'))[0].list"),
    ("group_1", "(recs|groupby('k'))[1][1]"),
    ("range5", "range(5)"),
    ("range_step", "range(0, 10, 3)"),
    ("range_down", "range(5, 0, -2)"),
    ("range_empty", "range(0)"),
    ("rev_xs", "xs|reverse"),
    ("rev_t", "t|reverse"),
    ("rev_s", "s|reverse"),
    ("rev_it", "it|reverse"),
    ("rev_ux", "ux|reverse"),
    ("rev_range", "range(4)|reverse"),
    ("rev_chain", "(e|chain(xs))|reverse"),
    ("list_xs", "xs|list"),
    ("list_s", "s|list"),
    ("list_m", "m|list"),
    ("list_ux", "ux|list"),
    ("map_str", "xs|map('string')"),
    ("map_attr", "recs|map(attribute='k')"),
    ("select", "xs|select('odd')"),
    ("reject", "range(6)|reject('odd')"),
    ("selectattr", "recs|selectattr('k')"),
    ("sort", "[3, 1, 2]|sort"),
    ("unique", "[1, 1, 2]|unique"),
    ("split", "'a,b,c'|split(',')"),
    ("lines", "'a\nb'|lines"),
    ("py_items", "m.items()"),
    ("py_keys", "m.keys()"),
    ("py_values", "m.values()"),
    ("py_split", "'a b c'.split()"),
    ("ser_tuple", "ser_tuple"),
    ("ser_struct_list", "ser_vec"),
    ("kwargs_items", "m|items|list"),
    ("slice_of_chain", "(e|chain(xs, t))[1:]"),
    ("slice_of_add", "(e + xs)[::-1]"),
    ("str", "s"),
    ("safe", "s|safe"),
    ("upper", "s|upper"),
    ("ns", "namespace(a=1)"),
    ("cycler", "cycler([1, 2])"),
    ("joiner", "joiner(',')"),
    ("dict", "dict(a=1)"),
    ("merge_ctx", "merged"),
    // ---- repetitions (`Repeated`, tuples repeat eagerly), also of repetitions
    ("rep_xs2", "xs * 2"),
    ("rep_2xs", "2 * xs"),
    ("rep_one", "xs * 1"),
    ("rep_zero", "xs * 0"),
    ("rep_nested", "(xs * 2) * 3"),
    ("rep_nested3", "((xs * 2) * 1) * 2"),
    ("rep_nested_l", "2 * (3 * xs)"),
    ("rep_nested_zero", "(xs * 0) * 3"),
    ("rep_e", "e * 3"),
    ("rep_e_nested", "(e * 2) * 2"),
    ("rep_t", "t * 2"),
    ("rep_t_nested", "(t * 2) * 2"),
    ("rep_t_zero", "t * 0"),
    ("rep_t_one", "1 * t"),
    ("rep_t0", "t0 * 3"),
    ("rep_it_zero", "it * 0"),
    ("rep_range_one", "range(3) * 1"),
    ("rep_it", "it * 2"),
    ("rep_range", "range(3) * 2"),
    ("rep_chain", "(e|chain(xs)) * 2"),
    ("rep_of_slice", "xs[1:] * 2"),
    ("rep_of_rev", "(xs|reverse) * 2"),
    ("rep_bs", "bs * 2"),
    ("rep_true", "xs * true"),
    ("slice_of_rep", "(xs * 2)[1:5]"),
    ("chain_of_rep", "(xs * 2)|chain(xs * 1)"),
    ("add_of_rep", "(xs * 2) + (t|list * 2)"),
    // ---- attribute paths with numeric parts: `Value::get_path` splits at dots and indexes by position
    ("path_map0", "prs|map(attribute='0')"),
    ("path_map1", "prs|map(attribute='1')"),
    ("path_nested", "nest|map(attribute='0.1')"),
    ("path_sort0", "prs|sort(attribute='0')"),
    ("path_sort1_rev", "prs|sort(attribute='1', reverse=true)"),
    ("path_tuple", "tps|map(attribute='1')"),
    ("path_str", "['ab', 'cd']|map(attribute='1')"),
    ("path_oob", "prs|map(attribute='5')"),
    ("path_select", "prs|selectattr('0')"),
    ("path_reject", "prs|rejectattr('0')"),
    ("path_unique", "prs|unique(attribute='0')"),
    ("path_groupby_first", "(prs|groupby('0'))[0]"),
    // ---- operands that know their length mixed with operands that do not
    ("chain_xs_ux", "xs|chain(ux)"),
    ("chain_ux_xs", "ux|chain(xs)"),
    ("chain_ux_e_ux", "ux|chain(e, ux)"),
    ("add_xs_ux", "xs + ux"),
    ("add_ux_xs", "ux + xs"),
    ("slice_ux_open", "ux[1:]"),
    ("slice_ux_back", "ux[::-1]"),
    ("slice_ux_end", "ux[-2:]"),
    ("chain_of_slices", "ux[1:]|chain(xs[:2])"),
    ("zip_ux", "ux|zip(xs)"),
    ("batch_ux", "ux|batch(2)"),
    // ---- std sets / linked lists / deques / arrays
    ("bs", "bs"),
    ("ll", "ll"),
    ("hs1", "hs1"),
    ("dq", "dq"),
    ("arr", "arr"),
    ("bs_slice", "bs[1:]"),
    ("ll_back", "ll[::-1]"),
    // ---- reversed views of every enumerator flavour
    ("rev_bs", "bs|reverse"),
    ("rev_ll", "ll|reverse"),
    ("rev_dq", "dq|reverse"),
    ("rev_arr", "arr|reverse"),
    ("rev_rep", "(xs * 2)|reverse"),
    ("rev_rev", "xs|reverse|reverse"),
    ("rev_rev_bs", "bs|reverse|reverse"),
    ("rev_e", "e|reverse"),
    ("rev_slice", "xs[1:]|reverse"),
    ("rev_back_slice", "xs[::-1]|reverse"),
    ("rev_m", "m|reverse"),
    ("rev_items", "m|items|reverse"),
    ("rev_batch", "xs|batch(2)|reverse"),
    ("rev_oneshot", "os|reverse"),
    ("rev_ce_seq", "ce_s_seq|reverse"),
    ("rev_ce_vals", "ce_i_vals|reverse"),
    ("rev_ce_iter", "ce_i_iter|reverse"),
    ("rev_ce_iternone", "ce_i_iternone|reverse"),
    ("rev_ce_rev", "ce_i_rev|reverse"),
    ("rev_ce_str", "ce_i_str|reverse"),
    ("rev_ce_kv", "ce_i_kv|reverse"),
    ("rev_ce_revkv", "ce_i_revkv|reverse"),
    ("rev_ce_empty", "ce_i_empty|reverse"),
    ("rev_bytes", "by|reverse"),
    // ---- custom objects with non-integer items
    ("ce_i_str", "ce_i_str"),
    ("ce_s_str", "ce_s_str"),
    ("ce_i_kv", "ce_i_kv"),
    ("ce_i_revkv", "ce_i_revkv"),
    // ---- chains / concatenations nested deeper than `MergeSeq::MAX_DEPTH`
    ("deep_chain_l", "deep_chain_l"),
    ("deep_chain_r", "deep_chain_r"),
    ("deep_chain_mid", "deep_chain_mid"),
    ("deep_chain_iter", "deep_chain_iter"),
    ("deep_add_l", "deep_add_l"),
    ("deep_add_r", "deep_add_r"),
    ("deep_rep", "deep_rep"),
    // ---- maps, namespaces, the loop object, plain objects: not sequences (engine rule)
    ("loop_obj", "loop_obj"),
    ("hm", "hm"),
    ("bytes", "by"),
];

/// values that are expensive to build and immutable: built once per process.
/// `deep_*`: 40 rounds of `acc|chain([i])`, `[i]|chain(acc)`, `[2i]|chain(acc, [2i+1])`,
/// `acc + [i]`, `[i] + acc`, `acc * 1`.
fn deep_values() -> &'static Vec<(&'static str, Value)> {
    static CELL: std::sync::OnceLock<Vec<(&'static str, Value)>> = std::sync::OnceLock::new();
    CELL.get_or_init(|| {
        let env = derived_env("L");
        let step = |src: &str, acc: &Value, i: i64| -> Value {
            env.compile_expression(src).unwrap().eval(context! { acc => acc.clone(), i => i, j => 2 * i, k => 2 * i + 1, u => Value::make_iterable(move || (i..i + 1).filter(|_| true)) }).unwrap()
        };
        let build = |src: &str, first: Value, rounds: i64| -> Value {
            let mut acc = first;
            for i in 1..=rounds { acc = step(src, &acc, i); }
            acc
        };
        let one = || Value::from(vec![0i64]);
        vec![
            ("deep_chain_l", build("acc|chain([i])", one(), 40)),
            ("deep_chain_r", build("[i]|chain(acc)", one(), 40)),
            ("deep_chain_mid", build("[j]|chain(acc, [k])", one(), 36)),
            ("deep_chain_iter", build("acc|chain(u)", one(), 40)),
            ("deep_add_l", build("acc + [i]", one(), 40)),
            ("deep_add_r", build("[i] + acc", one(), 40)),
            ("deep_rep", build("(acc * 1) * 1", Value::from(vec![5i64, 6]), 40)),
        ]
    })
}

fn derived_env(mode: &str) -> Environment<'static> {
    let mut env = Environment::new();
    env.set_undefined_behavior(mode_of(mode));
    minijinja_contrib::add_to_environment(&mut env);
    env.set_unknown_method_callback(minijinja_contrib::pycompat::unknown_method_callback);
    env
}

fn derived_ctx() -> Value {
    let mut m: BTreeMap<String, Value> = BTreeMap::new();
    m.insert("a".into(), Value::from(1));
    m.insert("b".into(), Value::from(2));
    let mut m2: BTreeMap<String, Value> = BTreeMap::new();
    m2.insert("c".into(), Value::from(3));
    let rec = |k: i64, v: i64| { let mut r: BTreeMap<String, Value> = BTreeMap::new(); r.insert("k".into(), Value::from(k)); r.insert("v".into(), Value::from(v)); Value::from(r) };
    context! {
        xs => vec![10, 20, 30],
        e => Vec::<i64>::new(),
        t => Value::from(Tuple::from(vec![Value::from(7), Value::from(8)])),
        t0 => Value::from(Tuple::from(Vec::<Value>::new())),
        s => "héy",
        m => Value::from(m),
        m2 => Value::from(m2),
        it => Value::make_iterable(|| 100..103i64),
        ux => Value::make_iterable(|| { let mut i = 0i64; std::iter::from_fn(move || if i < 3 { i += 1; Some(200 + i) } else { None }) }),
        recs => vec![rec(0, 1), rec(1, 2), rec(1, 3)],
        ser_tuple => Value::from(minijinja::value::Serde((1, "two", 3.5))),
        ser_vec => Value::from(minijinja::value::Serde(vec![(1, 2), (3, 4)])),
        merged => minijinja::value::merge_maps([Value::from(vec![1, 2, 3]), Value::from(vec![4, 5])]),
        prs => Value::from(vec![Value::from(vec![Value::from(1), Value::from("b")]), Value::from(vec![Value::from(0), Value::from("a")]), Value::from(vec![Value::from(2), Value::from("c")])]),
        nest => Value::from(vec![Value::from(vec![Value::from(vec![5, 6])]), Value::from(vec![Value::from(vec![7, 8])])]),
        tps => Value::from(vec![Value::from(Tuple::from(vec![Value::from(1), Value::from("x")])), Value::from(Tuple::from(vec![Value::from(3), Value::from("y")]))]),
        bs => Value::from([4i64, 1, 3, 2].into_iter().collect::<std::collections::BTreeSet<_>>()),
        ll => Value::from([5i64, 6, 7].into_iter().collect::<std::collections::LinkedList<_>>()),
        hs1 => Value::from([9i64].into_iter().collect::<std::collections::HashSet<_>>()),
        dq => Value::from_object([11i64, 12, 13].into_iter().map(Value::from).collect::<std::collections::VecDeque<_>>()),
        arr => Value::from_object([21i64, 22, 23]),
        os => Value::make_one_shot_iterator(300..303i64),
        by => Value::from_bytes(vec![1, 2, 254]),
        hm => Value::from([("q".to_string(), 1i64)].into_iter().collect::<std::collections::HashMap<_, _>>()),
        loop_obj => loop_object(),
        ce_s_seq => Value::from_object(CustomEnum { seq: true, variant: "seq".into(), n: 3 }),
        ce_i_vals => Value::from_object(CustomEnum { seq: false, variant: "vals".into(), n: 3 }),
        ce_i_iter => Value::from_object(CustomEnum { seq: false, variant: "iter".into(), n: 3 }),
        ce_i_iternone => Value::from_object(CustomEnum { seq: false, variant: "iternone".into(), n: 3 }),
        ce_i_rev => Value::from_object(CustomEnum { seq: false, variant: "rev".into(), n: 3 }),
        ce_i_str => Value::from_object(CustomEnum { seq: false, variant: "str".into(), n: 3 }),
        ce_s_str => Value::from_object(CustomEnum { seq: true, variant: "str".into(), n: 3 }),
        ce_i_kv => Value::from_object(CustomEnum { seq: false, variant: "kv".into(), n: 3 }),
        ce_i_revkv => Value::from_object(CustomEnum { seq: false, variant: "revkv".into(), n: 3 }),
        ce_i_empty => Value::from_object(CustomEnum { seq: false, variant: "empty".into(), n: 0 }),
        deep_chain_l => deep_values()[0].1.clone(),
        deep_chain_r => deep_values()[1].1.clone(),
        deep_chain_mid => deep_values()[2].1.clone(),
        deep_chain_iter => deep_values()[3].1.clone(),
        deep_add_l => deep_values()[4].1.clone(),
        deep_add_r => deep_values()[5].1.clone(),
        deep_rep => deep_values()[6].1.clone(),
    }
}

/// the `loop` object of a running for loop (third of five rounds), captured from a template
fn loop_object() -> Value {
    let mut env = Environment::new();
    env.add_function("stash", |v: Value| -> String { STASH.with(|p| *p.borrow_mut() = Some(v)); String::new() });
    let _ = env.render_str("{% for q in [1, 2, 3, 4, 5] %}{% if q == 3 %}{{ stash(loop) }}{% endif %}{% endfor %}", ());
    STASH.with(|p| p.borrow_mut().take()).unwrap_or(Value::UNDEFINED)
}
thread_local! { static STASH: std::cell::RefCell<Option<Value>> = std::cell::RefCell::new(None); }

fn dbg_val(v: &Value) -> String {
    if v.is_undefined() { "undef".into() } else { format!("{:?}", v).replace('\t', " ").replace('\n', " ") }
}

fn items_of(v: &Value) -> String {
    match v.try_iter() {
        Ok(it) => it.map(|x| dbg_val(&x)).collect::<Vec<_>>().join(" ¦ "),
        Err(e) => err_str(&e),
    }
}

fn derived_expr(id: &str) -> &'static str {
    DERIVED.iter().find(|(i, _)| *i == id).map(|(_, e)| *e).unwrap_or("undefined_name")
}

fn res_str(r: Result<Result<String, minijinja::Error>, String>) -> String {
    match r { Ok(Ok(s)) => s, Ok(Err(e)) => err_str(&e), Err(_) => "panic".into() }
}

fn run_dv(mode: &str, entry: &str, id: &str, key: &str) -> String {
    let x = derived_expr(id);
    let env = derived_env(mode);
    let ctxk = || { let c = derived_ctx(); context! { k => mk_spec(key), ..c } };
    let ev = |src: &str| res_str(guarded(|| env.compile_expression(src).and_then(|e| e.eval(ctxk())).map(|o| dbg_val(&o))));
    let lhs = match entry {
        "expr" => ev(&format!("({})[k]", x)),
        "attr" => ev(&format!("({})|attr(k)", x)),
        "tmpl" => {
            let mut env2 = derived_env(mode);
            env2.add_function("probe", |v: Value| -> String { PROBE.with(|p| *p.borrow_mut() = Some(dbg_val(&v))); String::new() });
            PROBE.with(|p| *p.borrow_mut() = None);
            match guarded(|| env2.render_str(&format!("{{% for q in [1] %}}{{{{ probe(({})[k]) }}}}{{% endfor %}}", x), ctxk())) {
                Ok(Ok(_)) => PROBE.with(|p| p.borrow_mut().take()).unwrap_or_else(|| "no-probe".into()),
                Ok(Err(e)) => err_str(&e),
                Err(_) => "panic".into(),
            }
        }
        "api" => res_str(guarded(|| env.compile_expression(x).and_then(|e| e.eval(ctxk())).and_then(|o| o.get_item(&mk_spec(key))).map(|o| dbg_val(&o)))),
        "apiidx" => {
            let idx = key.split_once(':').unwrap().1.parse::<u64>().unwrap() as usize;
            res_str(guarded(|| env.compile_expression(x).and_then(|e| e.eval(ctxk())).and_then(|o| o.get_item_by_index(idx)).map(|o| dbg_val(&o))))
        }
        _ => "bad-entry".into(),
    };
    let rhs = ev(&format!("(({})|list)[k]", x));
    let kind = res_str(guarded(|| env.compile_expression(x).and_then(|e| e.eval(ctxk())).map(|o| o.kind().to_string())));
    let mat = res_str(guarded(|| env.compile_expression(&format!("({})|list", x)).and_then(|e| e.eval(ctxk())).map(|o| items_of(&o))));
    format!("{}~~{}~~{}~~{}", lhs, rhs, kind, mat)
}

fn run_ds(mode: &str, id: &str, a: &str, b: &str, c: &str) -> String {
    let x = derived_expr(id);
    let env = derived_env(mode);
    let ctxk = || { let cx = derived_ctx(); context! { a => mk_spec(a), b => mk_spec(b), c => mk_spec(c), ..cx } };
    let ev = |src: &str| res_str(guarded(|| env.compile_expression(src).and_then(|e| e.eval(ctxk())).map(|o| {
        if o.kind() == ValueKind::String { o.as_str().unwrap().chars().map(|c| dbg_val(&Value::from(c))).collect::<Vec<_>>().join(" ¦ ") } else { items_of(&o) }
    })));
    let lhs = ev(&format!("({})[a:b:c]", x));
    let rhs = ev(&format!("(({})|list)[a:b:c]", x));
    let kind = res_str(guarded(|| env.compile_expression(x).and_then(|e| e.eval(ctxk())).map(|o| o.kind().to_string())));
    let mat = res_str(guarded(|| env.compile_expression(&format!("({})|list", x)).and_then(|e| e.eval(ctxk())).map(|o| items_of(&o))));
    format!("{}~~{}~~{}~~{}", lhs, rhs, kind, mat)
}

/// `mg <lens> <types> <entry> <i>`: operands hold consecutive numbers 0,1,2,…
fn run_mg(lens: &str, types: &str, entry: &str, i: &str) -> String {
    let lens: Vec<usize> = lens.split(',').filter(|x| !x.is_empty()).map(|x| x.parse().unwrap()).collect();
    let mut next = 0i64;
    let mut ops = Vec::new();
    for (n, ty) in lens.iter().zip(types.chars()) {
        let items: Vec<Value> = (0..*n).map(|_| { next += 1; Value::from(next - 1) }).collect();
        ops.push(if ty == 'P' { Value::from(Tuple::from(items)) } else { Value::from(items) });
    }
    let names = ["a", "b", "c", "d"];
    let src = format!("{}|chain({})", names[0], names[1..ops.len()].join(", "));
    let mut it = ops.into_iter();
    let ctx = context! { a => it.next().unwrap_or_default(), b => it.next().unwrap_or_default(), c => it.next().unwrap_or_default(), d => it.next().unwrap_or_default(), k => mk_spec(i) };
    let env = Environment::new();
    let show = |o: Value| if o.is_undefined() { "undef".to_string() } else { format!("elem:{}", o) };
    res_str(guarded(|| {
        let x = env.compile_expression(&src)?.eval(ctx.clone())?;
        if x.kind() != ValueKind::Seq { return Ok(format!("not-seq:{}", x.kind())); }
        match entry {
            "expr" => Ok(show(env.compile_expression(&format!("({})[k]", src))?.eval(ctx.clone())?)),
            "attr" => Ok(show(env.compile_expression(&format!("({})|attr(k)", src))?.eval(ctx.clone())?)),
            "api" => Ok(show(x.get_item(&mk_spec(i))?)),
            _ => Ok("bad-entry".into()),
        }
    }))
}

const DV_SHARDS: usize = 6;

fn gen_mg(out: &mut impl Write, thorough: bool) {
    // ---- MergeSeq: all operand-length vectors (1..=4 operands, lengths 0..=3) x every index
    for nops in 1..=4usize {
        let total = 4usize.pow(nops as u32);
        for code in 0..total {
            let lens: Vec<usize> = (0..nops).map(|p| (code / 4usize.pow(p as u32)) % 4).collect();
            let sum: i64 = lens.iter().sum::<usize>() as i64;
            let ls = lens.iter().map(|x| x.to_string()).collect::<Vec<_>>().join(",");
            for types in [&"LLLL"[..nops], &"PLPL"[..nops]] {
                for i in (-sum - 2)..=(sum + 1) {
                    for entry in ["expr", "attr", "api"] {
                        if !thorough && nops == 4 && entry != "expr" { continue; }
                        let k = format!("i:{}", i);
                        writeln!(out, "mg {} {} {} {}\t{}", ls, types, entry, k, run_mg(&ls, types, entry, &k)).unwrap();
                    }
                }
                for k in ["T", "F", "u:0", "I:-1", "u:9223372036854775808", "I:-9223372036854775809"].into_iter().chain(std::iter::once(fb(0.0).as_str())).chain(std::iter::once(fb(-1.0).as_str())) {
                    writeln!(out, "mg {} {} expr {}\t{}", ls, types, k, run_mg(&ls, types, "expr", k)).unwrap();
                }
            }
        }
    }
}

fn gen_derived(out: &mut impl Write, _thorough: bool, shard: usize) {
    // ---- derived values x keys x entries
    let mut keys: Vec<String> = (-7..=7i64).map(|i| format!("i:{}", i)).collect();
    for k in ["T", "F", "u:0", "u:2", "I:-1", "I:1", "W:0", "u:9223372036854775808", "I:-9223372036854775809", "U", "Z", "sm:30", "sm:6b"] { keys.push(k.to_string()); }
    for f in [0.0, 1.0, -1.0, 2.0, 0.5] { keys.push(fb(f)); }
    for (di, (id, _)) in DERIVED.iter().enumerate() {
        if di % DV_SHARDS != shard { continue; }
        for k in &keys {
            for (mode, entry) in [("L", "expr"), ("X", "expr"), ("L", "attr"), ("L", "api"), ("C", "tmpl"), ("L", "apiidx")] {
                if entry == "apiidx" && !k.starts_with("u:") { continue; }
                writeln!(out, "dv {} {} {} {}\t{}", mode, entry, id, k, run_dv(mode, entry, id, k)).unwrap();
            }
        }
        let bs = ["_", "i:0", "i:1", "i:2", "i:-1", "i:-2", "i:5", "i:-9", "T", "u:9223372036854775808"];
        let cs = ["_", "i:1", "i:2", "i:-1", "i:-2", "i:0"];
        for a in bs { for b in bs { for c in cs {
            writeln!(out, "ds L {} {} {} {}\t{}", id, a, b, c, run_ds("L", id, a, b, c)).unwrap();
        } } }
    }
}


// =====================================================================================
// Relations on every sequence-like value (specs and derived values), produced bounds, one-shot
// iterators used more than once, very long sequences, conversion sites
//
//   mr <rel> <spec>            rel in rev / first / last / len: `lhs~~rhs` on a value spec
//   dr <rel> <id>              the same on DERIVED[id]: `lhs~~kind~~mat`
//   pb <kind> <a> <b> <c>      bounds produced inside the template (ids of BOUND_EXPRS, `@<id>` in
//                              c = subscript); the value is built inside the template as well
//   os <len> <ops>             ops on ONE one-shot iterator in one template, `;`-separated:
//                              `i<k>` subscript, `s<a>,<b>,<c>` slice + list, `t<a>,<b>,<c>` slice
//                              listed twice, `l` list, `f` first filter
//   cv <site> <tmplhex> <key>  a template (hex) rendered with `k` = key spec: conversion sites
// =====================================================================================
fn run_mr(rel: &str, spec: &str) -> String {
    let env = Environment::new();
    let ev = |src: &str, items: bool| -> String {
        let v = mk_spec(spec);
        match guarded(|| env.compile_expression(src).and_then(|e| e.eval(context! { v => v })).map(|o| if items { canon_g(&o) } else { canon_item(spec, &o) })) {
            Ok(Ok(s)) => s, Ok(Err(e)) => err_str(&e), Err(_) => "panic".into(),
        }
    };
    match rel {
        "rev" => format!("{}~~{}", ev("v|reverse", true), ev("v[::-1]", true)),
        "first" => format!("{}~~{}", ev("v|first", false), ev("v[0]", false)),
        "last" => format!("{}~~{}", ev("v|last", false), ev("v[-1]", false)),
        "len" => format!("{}~~{}", ev("v|length", false), ev("v[:]|length", false)),
        _ => "bad-rel".into(),
    }
}

fn run_dr(rel: &str, id: &str) -> String {
    let x = derived_expr(id);
    let env = derived_env("L");
    let as_items = rel == "rev" || rel == "revslice";
    let ev = |src: &str| res_str(guarded(|| env.compile_expression(src).and_then(|e| e.eval(derived_ctx())).map(|o| {
        match o.kind() { ValueKind::Seq | ValueKind::Iterable if as_items => items_of(&o), _ => dbg_val(&o) }
    })));
    let lhs = match rel {
        "rev" => ev(&format!("({})|reverse", x)),
        "revslice" => ev(&format!("({})[::-1]", x)),
        "first" => ev(&format!("({})|first", x)),
        "last" => ev(&format!("({})|last", x)),
        "len" => ev(&format!("({})|length", x)),
        "lenslice" => ev(&format!("({})[:]|list|length", x)),
        _ => "bad-rel".into(),
    };
    let kind = res_str(guarded(|| env.compile_expression(x).and_then(|e| e.eval(derived_ctx())).map(|o| o.kind().to_string())));
    let mat = res_str(guarded(|| env.compile_expression(&format!("({})|list", x)).and_then(|e| e.eval(derived_ctx())).map(|o| items_of(&o))));
    format!("{}~~{}~~{}", lhs, kind, mat)
}

/// expressions that produce a bound / subscript inside the template, with the representation the
/// engine happens to give the result (the point of the stream: nobody chooses it)
const BOUND_EXPRS: &[(&str, &str)] = &[
    ("_", ""), ("lit2", "2"), ("neg1", "-1"), ("neg2p", "(-2)"), ("int_s3", "'3'|int"), ("int_sneg2", "'-2'|int"),
    ("int_f2", "2.9|int"), ("int_fneg", "(-1.5)|int"), ("int_t", "true|int"), ("len3", "[1, 2, 3]|length"), ("abs2", "(-2)|abs"),
    ("true", "true"), ("false", "false"), ("add2", "1 + 1"), ("subneg2", "1 - 3"), ("mul4", "2 * 2"), ("fdiv3", "7 // 2"),
    ("fdivneg", "-3 // 2"), ("mod3", "7 % 4"), ("pow2", "2 ** 1"), ("round2", "2.4|round|int"), ("loopidx", "loop.index"),
    ("looplen", "loop.length"), ("looprev0", "loop.revindex0"), ("big63", "9223372036854775808"), ("negbig", "-9223372036854775809"),
    ("big64", "18446744073709551616"), ("min1", "[3, 1]|min"), ("sum2", "[1, 1]|sum"), ("count3", "'abc'|count"), ("first2", "[2]|first"),
    ("nsattr", "namespace(a=2).a"), ("negvar", "-two"), ("varu", "two_u64"), ("var128", "three_i128"), ("varu128", "one_u128"),
    ("cond", "2 if true else 0"), ("float2", "2.0"), ("floatneg1", "-1.0"), ("sumf", "[1.0, 1.0]|sum"), ("divf", "4 / 2"),
    // bounds that contain subscripts, slices and colons of their own (the parser's slice detection)
    ("mapsub", "{'a': 2}['a']"), ("mapint", "{1: 2}[1]"), ("listsub", "[5, 2][1]"), ("negsub", "[1, -2][-1]"),
    ("slicesub", "[0, 1, 2, 3][1:][1]"), ("slicelen", "'abc'[1:]|length"), ("ternslice", "[0, 3][1:][0] if lv[:1] else 0"),
    ("callsub", "range(5)[::2][1]"),
];

fn bound_expr(id: &str) -> &'static str {
    BOUND_EXPRS.iter().find(|(i, _)| *i == id).map(|(_, e)| *e).unwrap_or("undefined_name")
}

fn run_pb(kind: &str, a: &str, b: &str, c: &str) -> String {
    let vsrc = match kind {
        "list" => "[0, 1, 2, 3, 4]", "tuple" => "(0, 1, 2, 3, 4)", "str" => "'a\u{e9}\u{20ac}\u{1d11e}b'", "range" => "range(5)",
        "listv" => "lv", "strv" => "sv", "unsized" => "uv", "bytes" => "bv", _ => "undefined_name",
    };
    let expr = if let Some(k) = c.strip_prefix('@') { format!("{}[{}]", vsrc, bound_expr(k)) }
        else { format!("{}[{}:{}:{}]", vsrc, bound_expr(a), bound_expr(b), bound_expr(c)) };
    let mut env = derived_env("L");
    env.add_function("probe", |v: Value| -> String {
        let s = match v.kind() {
            ValueKind::String => format!("str:{}", hex(v.as_str().unwrap().as_bytes())),
            ValueKind::Bytes => format!("bytes:{}", hex(v.as_bytes().unwrap())),
            ValueKind::Seq | ValueKind::Iterable => format!("{}:{}", if v.is_tuple() { "tuple" } else { "list" }, match v.try_iter() { Ok(it) => it.map(|x| elem_str(&x)).collect::<Vec<_>>().join(","), Err(e) => err_str(&e) }),
            _ => if v.is_undefined() { "undef".into() } else { format!("elem:{}", v) },
        };
        PROBE.with(|p| *p.borrow_mut() = Some(s));
        String::new()
    });
    PROBE.with(|p| *p.borrow_mut() = None);
    let ctx = context! { two => 2, two_u64 => 2u64, three_i128 => 3i128, one_u128 => 1u128, lv => vec![0, 1, 2, 3, 4], sv => "a\u{e9}\u{20ac}\u{1d11e}b",
        uv => Value::make_iterable(|| (0..5i64).filter(|_| true)), bv => Value::from_bytes(vec![0, 1, 2, 3, 4]) };
    // the third round of a loop over five items: loop.index = 3, loop.length = 5, loop.revindex0 = 2
    let src = format!("{{% for q in [1, 2, 3, 4, 5] %}}{{% if q == 3 %}}{{{{ probe({}) }}}}{{% endif %}}{{% endfor %}}", expr);
    match guarded(|| env.render_str(&src, ctx)) {
        Ok(Ok(_)) => PROBE.with(|p| p.borrow_mut().take()).unwrap_or_else(|| "no-probe".into()),
        Ok(Err(e)) => err_str(&e),
        Err(_) => "panic".into(),
    }
}

fn run_os(len: usize, ops: &str) -> String {
    let mut src = String::new();
    for op in ops.split(';') {
        let (h, rest) = op.split_at(1);
        let sl = |rest: &str| { let p: Vec<&str> = rest.split(',').collect(); let f = |x: &str| if x == "_" { String::new() } else { bound_lit(x) }; format!("[{}:{}:{}]", f(p[0]), f(p[1]), f(p[2])) };
        match h {
            "i" => src.push_str(&format!("{{{{ it[{}] }}}}|", bound_lit(rest))),
            "s" => src.push_str(&format!("{{{{ it{}|list }}}}|", sl(rest))),
            "t" => src.push_str(&format!("{{% set s = it{} %}}{{{{ s|list }}}}~{{{{ s|list }}}}|", sl(rest))),
            "l" => src.push_str("{{ it|list }}|"),
            "f" => src.push_str("{{ it|first }}|"),
            _ => src.push_str("bad-op|"),
        }
    }
    let env = Environment::new();
    match guarded(|| env.render_str(&src, context! { it => Value::make_one_shot_iterator(0..len as i64) })) {
        Ok(Ok(s)) => s.replace(' ', ""), Ok(Err(e)) => err_str(&e), Err(_) => "panic".into(),
    }
}

fn run_cv(tmplhex: &str, key: &str) -> String {
    let src = String::from_utf8(unhex(tmplhex)).unwrap();
    let env = derived_env("L");
    let c = derived_ctx();
    match guarded(|| env.render_str(&src, context! { k => mk_spec(key), ..c })) {
        Ok(Ok(s)) => format!("out:{}", hex(s.as_bytes())), Ok(Err(e)) => err_str(&e), Err(_) => "panic".into(),
    }
}

fn gen_relations(out: &mut impl Write, thorough: bool) {
    for spec in value_specs() {
        for rel in ["rev", "first", "last", "len"] {
            writeln!(out, "mr {} {}\t{}", rel, spec, run_mr(rel, &spec)).unwrap();
        }
    }
    for (id, _) in DERIVED {
        for rel in ["rev", "revslice", "first", "last", "len", "lenslice"] {
            writeln!(out, "dr {} {}\t{}", rel, id, run_dr(rel, id)).unwrap();
        }
    }
    // ---- bounds produced inside the template
    let mut rng = Rng::new(seed_from_env() ^ 0x9b09);
    let ids: Vec<&str> = BOUND_EXPRS.iter().map(|(i, _)| *i).collect();
    let kinds = ["list", "tuple", "str", "range", "listv", "strv", "unsized", "bytes"];
    for kind in kinds {
        for id in &ids {
            for pos in 0..3 {
                let (a, b, c) = match pos { 0 => (*id, "_", "_"), 1 => ("_", *id, "_"), _ => ("_", "_", *id) };
                writeln!(out, "pb {} {} {} {}\t{}", kind, a, b, c, run_pb(kind, a, b, c)).unwrap();
            }
            if *id != "_" {
                let c = format!("@{}", id);
                writeln!(out, "pb {} _ _ {}\t{}", kind, c, run_pb(kind, "_", "_", &c)).unwrap();
            }
        }
    }
    for _ in 0..(if thorough { 200_000 } else { 4_000 }) {
        let kind = *rng.pick(&kinds);
        let (a, b, c) = (*rng.pick(&ids), *rng.pick(&ids), *rng.pick(&ids));
        writeln!(out, "pb {} {} {} {}\t{}", kind, a, b, c, run_pb(kind, a, b, c)).unwrap();
    }
    // ---- one-shot iterators used more than once
    let small = |rng: &mut Rng, len: usize| -> String { match rng.below(7) { 0 | 1 => "_".to_string(), _ => (rng.below(2 * len as u64 + 5) as i64 - len as i64 - 2).to_string() } };
    for _ in 0..(if thorough { 300_000 } else { 6_000 }) {
        let len = rng.below(9) as usize;
        let nops = 1 + rng.below(3);
        let mut ops = Vec::new();
        for _ in 0..nops {
            ops.push(match rng.below(8) {
                0 | 1 => format!("i{}", rng.below(len as u64 + 2) as i64 - if rng.chance(1, 4) { len as i64 + 1 } else { 0 }),
                2 | 3 => { let st = match rng.below(5) { 0 => "_".to_string(), 1 => "-1".to_string(), 2 => "-2".to_string(), _ => (1 + rng.below(3)).to_string() }; format!("s{},{},{}", small(&mut rng, len), small(&mut rng, len), st) }
                4 | 5 => { let st = match rng.below(5) { 0 => "_".to_string(), 1 => "-1".to_string(), _ => (1 + rng.below(3)).to_string() }; format!("t{},{},{}", small(&mut rng, len), small(&mut rng, len), st) }
                6 => "l".to_string(),
                _ => "f".to_string(),
            });
        }
        let ops = ops.join(";");
        writeln!(out, "os {} {}\t{}", len, ops, run_os(len, &ops)).unwrap();
    }
    // ---- very long sequences: lengths around 2^16 and at the size limits of ranges / repetitions
    let big = |x: i64| x.to_string();
    for kind in ["bytes", "strn", "list", "tuple", "range", "itersized", "iterunsized", "rep"] {
        for len in [65_535usize, 65_536, 65_537, 100_000] {
            let l = len as i64;
            let combos: Vec<(String, String, String)> = vec![
                (big(l - 3), "_".into(), "_".into()), (big(-3), "_".into(), "_".into()), ("_".into(), "_".into(), big(-20_000)),
                ("_".into(), "_".into(), big(65_536)), ("_".into(), "_".into(), big(-65_536)), (big(65_534), big(65_538), "_".into()),
                (big(-l - 1), big(3), "_".into()), (big(l + 5), big(l - 4), big(-1)), ("_".into(), "_".into(), big(l - 1)),
                ("_".into(), big(-l + 2), "_".into()), ("_".into(), "_".into(), big(256)), (big(-1), big(-l - 2), big(-32_768)),
                ("_".into(), "_".into(), format!("i{}", l - 1)), ("_".into(), "_".into(), format!("i{}", -l)), ("_".into(), "_".into(), "i65536".into()),
            ];
            for (a, b, c) in combos {
                if !thorough && kind != "bytes" && kind != "list" && kind != "rep" && len == 65_537 { continue; }
                writeln!(out, "huge {} {} {} {} {}\t{}", kind, len, a, b, c, run_long(kind, len, &a, &b, &c)).unwrap();
            }
        }
    }
}

/// the case generators, cut into independent parts (each with its own random generators) so that
/// `lib/props/c09.py` can run them side by side; `gen` runs all of them in this order
fn part_names() -> Vec<String> {
    let mut v: Vec<String> = KINDS.iter().map(|k| format!("box:{}", k)).collect();
    for i in 0..CHAIN_SHARDS { v.push(format!("chain:{}", i)); }
    for i in 0..GS_SHARDS { v.push(format!("gs:{}", i)); }
    v.push("gi".into());
    for i in 0..LONG_SHARDS { v.push(format!("long:{}", i)); }
    for i in 0..2 { v.push(format!("meta:{}", i)); }
    v.push("mg".into());
    for i in 0..DV_SHARDS { v.push(format!("dv:{}", i)); }
    v.push("rel".into());
    for i in 0..EO_SHARDS { v.push(format!("eo:{}", i)); }
    v.push("litbox".into());
    v
}

fn gen_part(out: &mut impl Write, env: &Environment, part: &str, thorough: bool) {
    let (name, arg) = part.split_once(':').unwrap_or((part, ""));
    match name {
        "box" => gen_box(out, env, arg, thorough),
        "chain" => gen_chain(out, env, thorough, arg.parse().unwrap()),
        "gs" => gen_gs(out, thorough, arg.parse().unwrap()),
        "gi" => gen_gi(out, thorough),
        "long" => gen_long(out, thorough, arg.parse().unwrap()),
        "meta" => gen_meta(out, thorough, arg.parse().unwrap()),
        "mg" => gen_mg(out, thorough),
        "dv" => gen_derived(out, thorough, arg.parse().unwrap()),
        "rel" => gen_relations(out, thorough),
        "eo" => gen_eo(out, thorough, arg.parse().unwrap()),
        "litbox" => gen_litbox(out, env, thorough),
        _ => panic!("bad part {}", part),
    }
}

/// the box of the property's quantifier for one kind, exhaustively
fn gen_box(out: &mut impl Write, env: &Environment, kind: &str, thorough: bool) {
    // the thorough tier enumerates a larger box than the quantifier's (len <= 8, bounds in [-11, 11], steps in [-5, 5])
    let ss = if thorough { bounds(-11..=11) } else { bounds(-9..=9) };
    let steps = if thorough { bounds(-5..=5) } else { bounds(-4..=4) };
    let forms: &[&str] = if thorough { &["var", "lit"] } else { &["var"] };
    for len in 0..=(if thorough { 8usize } else { 6 }) {
        if (kind == "undef" || kind == "none") && len > 0 {
            continue;
        }
        for form in forms {
            for a in &ss {
                for b in &ss {
                    for c in &steps {
                        let r = run_slice(env, kind, len, a, b, c, form);
                        writeln!(out, "slice {} {} {} {} {} {}\t{}", kind, len, a, b, c, form, r).unwrap();
                    }
                }
            }
            for i in &ss {
                if i == "_" {
                    continue;
                }
                let r = run_index(env, kind, len, i, form);
                writeln!(out, "index {} {} {} {}\t{}", kind, len, i, form, r).unwrap();
            }
        }
    }
}

/// chain stream: longer sequences, more kinds, slices of slices, subscripts of slices
const CHAIN_SHARDS: u64 = 4;
const LONG_SHARDS: u64 = 4;

fn gen_chain(out: &mut impl Write, env: &Environment, thorough: bool, shard: u64) {
    let mut rng = Rng::new(seed_from_env() ^ 0x0c09 ^ (shard << 32));
    let n = (if thorough { 1_600_000 } else { 60_000 }) / CHAIN_SHARDS;
    let kinds = ["strplain", "strsmall", "strsafe", "bytes", "list", "tuple", "itersized",
                 "iterunsized", "range", "oneshot", "deque"];
    for _ in 0..n {
        let kind = *rng.pick(&kinds);
        let len = if rng.chance(1, 3) { rng.below(7) as usize } else { 7 + rng.below(34) as usize };
        // a quarter of the cases is a bare subscript (every kind, incl. one-shot
        // iterators: a non-negative subscript must not drain the iterator first)
        if rng.chance(1, 4) {
            let i = if kind == "oneshot" {
                rng.below(len as u64 + 3) as i64
            } else {
                rng.below(2 * len as u64 + 5) as i64 - len as i64 - 2
            };
            let suffix = format!("[{}]", i);
            let r = run_chain(env, kind, len, &suffix);
            writeln!(out, "chain {} {} {}\t{}", kind, len, suffix, r).unwrap();
            continue;
        }
        let mut suffix = rnd_slice(&mut rng, len);
        // one-shot iterators can be iterated once: a single op only
        if kind != "oneshot" {
            if rng.chance(1, 2) { suffix.push_str(&rnd_slice(&mut rng, len)); }
            if rng.chance(1, 3) {
                suffix.push_str(&format!("[{}]", rng.below(2 * len as u64 + 5) as i64 - len as i64 - 2));
            }
        }
        let r = run_chain(env, kind, len, &suffix);
        writeln!(out, "chain {} {} {}\t{}", kind, len, suffix, r).unwrap();
    }
}

/// literal forms on a sub-box (the parser's negative-literal path); the thorough tier enumerates
/// the literal forms of the whole box instead
fn gen_litbox(out: &mut impl Write, env: &Environment, thorough: bool) {
    if thorough { return; }
    for kind in ["strsmall", "list", "tuple"] {
        for len in [0usize, 3, 5] {
            for a in ["_", "-7", "-2", "0", "1", "4", "9", "-9223372036854775808", "9223372036854775807"] {
                for b in ["_", "-7", "-1", "0", "2", "5", "-9223372036854775808", "9223372036854775807"] {
                    for c in ["_", "-3", "-1", "1", "2", "0", "-9223372036854775808", "9223372036854775807"] {
                        let r = run_slice(env, kind, len, a, b, c, "lit");
                        writeln!(out, "slice {} {} {} {} {} lit\t{}", kind, len, a, b, c, r).unwrap();
                    }
                }
            }
        }
    }
}

// =====================================================================================
// eo stream: objects of every `Enumerator` variant x both sequence-like `ObjectRepr`s x honest /
// loose / absent size hints, sliced and subscripted over a complete small box
//   eo <S|I> <variant> <n> s <a> <b> <c>     `v[a:b:c]` (parts: integers or `_`)
//   eo <S|I> <variant> <n> i <key spec>      `v[k]` (expression) ~~ `Value::get_item`
//   eo <S|I> <variant> <n> m                 `v|list`: what the object enumerates
//   eo V <spec template> <n> s|i|m …         the same for a value spec (`#` = n): std collections, repetitions, views
// =====================================================================================
const EO_VARIANTS: [&str; 16] = ["none", "empty", "seq", "vals", "iter", "iterlo", "iterlow", "iternone", "rev", "revlo", "revnone",
                                 "str", "kv", "kvnone", "revkv", "revkvnone"];
const EO_SHARDS: usize = 4;

/// `V <spec template> <n>`: any value spec, `#` standing for the length (the engine's own collections,
/// repetitions, reversed views) instead of a custom object
fn eo_spec(repr: &str, variant: &str, n: &str) -> String {
    if repr == "V" { variant.replace('#', n) } else { format!("CE:{}:{}:{}", repr, variant, n) }
}

/// the engine's own sequence-like values on the complete box: `VecDeque`, arrays, `BTreeSet`,
/// `LinkedList`, `HashSet` (0 / 1 items: its order is not fixed), custom `Seq` / `Iterable` objects,
/// `range`, repetitions, reversed views of a list and of an iterable of unknown length
const EO_VALUES: [&str; 12] = ["D:#", "A:4", "BS:#", "LL:#", "HS:#", "CS:#", "CI:#", "R:#", "RP:#x2", "RR:#x2x2", "RV:L=#", "RV:X=#"];

fn run_eo(f: &[&str]) -> String {
    let spec = eo_spec(f[1], f[2], f[3]);
    let env = Environment::new();
    if f[4] == "m" {
        // what the object enumerates (`v|list`)
        let v = mk_spec(&spec);
        return match guarded(|| env.compile_expression("v|list").and_then(|e| e.eval(context! { v => v })).map(|o| canon_g(&o))) {
            Ok(Ok(s)) => s, Ok(Err(e)) => err_str(&e), Err(_) => "panic".into(),
        };
    }
    if f[4] == "s" {
        let part = |x: &str| if x == "_" { String::new() } else if x.starts_with('-') { format!("({})", x) } else { x.to_string() };
        let src = format!("v[{}:{}:{}]", part(f[5]), part(f[6]), part(f[7]));
        let v = mk_spec(&spec);
        match guarded(|| env.compile_expression(&src).and_then(|e| e.eval(context! { v => v })).map(|o| {
            // enumerate the lazy result twice: an object can be enumerated again and again
            let first = canon_g(&o);
            let second = canon_g(&o);
            // a result that announces a length has that many items
            let n_items = if first.ends_with(':') { 0 } else { first.split(',').count() };
            let len_bad = matches!(o.len(), Some(l) if l != n_items && !first.starts_with("err:"));
            if first != second { format!("{}!={}", first, second) }
            else if len_bad { format!("{}!len={}", first, o.len().unwrap()) }
            else { first }
        })) {
            Ok(Ok(s)) => s, Ok(Err(e)) => err_str(&e), Err(_) => "panic".into(),
        }
    } else {
        let v = mk_spec(&spec);
        let k = mk_spec(f[5]);
        let a = match guarded(|| env.compile_expression("v[k]").and_then(|e| e.eval(context! { v => v.clone(), k => k.clone() })).map(|o| canon_item(&spec, &o))) {
            Ok(Ok(s)) => s, Ok(Err(e)) => err_str(&e), Err(_) => "panic".into(),
        };
        let b = match guarded(|| v.get_item(&k).map(|x| canon_item(&spec, &x))) {
            Ok(Ok(s)) => s, Ok(Err(e)) => err_str(&e), Err(_) => "panic".into(),
        };
        if a == b { a } else { format!("{}!={}", a, b) }
    }
}

fn gen_eo_values(out: &mut impl Write, thorough: bool, shard: usize, bs: &[String], steps: &[&str], keys: &[String]) {
    for (vi, tmpl) in EO_VALUES.iter().enumerate() {
        if vi % EO_SHARDS != shard { continue; }
        for n in 0..=(if thorough { 6usize } else { 4 }) {
            if (*tmpl == "A:4" && n != 4) || (*tmpl == "HS:#" && n > 1) { continue; }
            let ns = n.to_string();
            let f = ["eo", "V", tmpl, &ns, "m"];
            writeln!(out, "{}\t{}", f.join(" "), run_eo(&f)).unwrap();
            for a in bs {
                for b in bs {
                    for c in steps {
                        let f = ["eo", "V", tmpl, &ns, "s", a, b, c];
                        writeln!(out, "{}\t{}", f.join(" "), run_eo(&f)).unwrap();
                    }
                }
            }
            for k in keys {
                let f = ["eo", "V", tmpl, &ns, "i", k];
                writeln!(out, "{}\t{}", f.join(" "), run_eo(&f)).unwrap();
            }
        }
    }
}

fn gen_eo(out: &mut impl Write, thorough: bool, shard: usize) {
    let lim: i64 = if thorough { 7 } else { 5 };
    let mut bs: Vec<String> = vec!["_".to_string()];
    for i in -lim..=lim { bs.push(i.to_string()); }
    let steps: Vec<&str> = if thorough { vec!["_", "-3", "-2", "-1", "1", "2", "3", "4", "0", "-9223372036854775808", "9223372036854775807"] }
                           else { vec!["_", "-2", "-1", "1", "2", "3", "0"] };
    let mut keys: Vec<String> = (-lim - 2..=lim + 2).map(|i| format!("i:{}", i)).collect();
    for k in ["T", "F", "Z", "U", "u:2", "I:-1", "I:1", "W:0", "sm:31", "i:-9223372036854775808", "i:9223372036854775807",
              "u:18446744073709551615", "I:-9223372036854775809", "L:1"] { keys.push(k.to_string()); }
    for x in [1.0f64, -1.0, -0.0, 1.5, f64::NAN] { keys.push(fb(x)); }
    gen_eo_values(out, thorough, shard, &bs, &steps, &keys);
    for (vi, variant) in EO_VARIANTS.iter().enumerate() {
        if vi % EO_SHARDS != shard { continue; }
        for repr in ["S", "I"] {
            for n in 0..=(if thorough { 6usize } else { 4 }) {
                if *variant == "empty" && n > 0 { continue; }
                let ns = n.to_string();
                let f = ["eo", repr, variant, &ns, "m"];
                writeln!(out, "{}\t{}", f.join(" "), run_eo(&f)).unwrap();
                for a in &bs {
                    for b in &bs {
                        for c in &steps {
                            let f = ["eo", repr, variant, &ns, "s", a, b, c];
                            writeln!(out, "{}\t{}", f.join(" "), run_eo(&f)).unwrap();
                        }
                    }
                }
                for k in &keys {
                    let f = ["eo", repr, variant, &ns, "i", k];
                    writeln!(out, "{}\t{}", f.join(" "), run_eo(&f)).unwrap();
                }
            }
        }
    }
}

fn run_more(f: &[&str]) -> String {
    match f[0] {
        "eo" => run_eo(f),
        "mr" => run_mr(f[1], f[2]),
        "dr" => run_dr(f[1], f[2]),
        "pb" => run_pb(f[1], f[2], f[3], f[4]),
        "os" => run_os(f[1].parse().unwrap(), f[2]),
        "cv" => run_cv(f[2], f[3]),
        "huge" => run_long(f[1], f[2].parse().unwrap(), f[3], f[4], f[5]),
        _ => "bad-case".into(),
    }
}

fn main() {
    quiet_panics();
    let args: Vec<String> = std::env::args().collect();
    let env = Environment::new();
    let out = std::io::stdout();
    let mut out = std::io::BufWriter::new(out.lock());
    match args.get(1).map(|s| s.as_str()) {
        Some("parts") => {
            for p in part_names() { writeln!(out, "{}", p).unwrap(); }
        }
        Some("part") => {
            let thorough = args.get(3).map(|s| s == "thorough").unwrap_or(false);
            gen_part(&mut out, &env, &args[2], thorough);
        }
        Some("gen") => {
            let thorough = args.get(2).map(|s| s == "thorough").unwrap_or(false);
            for p in part_names() { gen_part(&mut out, &env, &p, thorough); }
        }
        Some("one") => {
            let f: Vec<&str> = args[2..].iter().map(|s| s.as_str()).collect();
            let r = match f[0] {
                "slice" => run_slice(&env, f[1], f[2].parse().unwrap(), f[3], f[4], f[5], f[6]),
                "index" => run_index(&env, f[1], f[2].parse().unwrap(), f[3], f[4]),
                "chain" => run_chain(&env, f[1], f[2].parse().unwrap(), f[3]),
                "gs" => run_gs(f[1], f[2], f[3], f[4], f[5], f[6]),
                "gi" => run_gi(f[1], f[2], f[3], f[4]),
                "ga" => run_ga(f[1], f[2], f[3], f[4]),
                "long" => run_long(f[1], f[2].parse().unwrap(), f[3], f[4], f[5]),
                "mg" => run_mg(f[1], f[2], f[3], f[4]),
                "dv" => run_dv(f[1], f[2], f[3], f[4]),
                "ds" => run_ds(f[1], f[2], f[3], f[4], f[5]),
                "meta" => run_meta(f[1], f[2], f[3].parse().unwrap(), f[4], f[5], f[6]),
                _ => run_more(&f),
            };
            writeln!(out, "{}\t{}", f.join(" "), r).unwrap();
        }
        // cases from stdin (one per line), e.g. the conversion-site stream generated by lib/props/c09.py
        Some("run") => {
            let mut line = String::new();
            while std::io::stdin().read_line(&mut line).unwrap_or(0) > 0 {
                let f: Vec<&str> = line.trim_end().split(' ').collect();
                if !f.is_empty() && !f[0].is_empty() {
                    writeln!(out, "{}\t{}", f.join(" "), run_more(&f)).unwrap();
                }
                line.clear();
            }
        }
        _ => {
            eprintln!("usage: c09 gen <quick|thorough> | c09 parts | c09 part <name> <quick|thorough> | c09 one <case> | c09 run < cases");
            std::process::exit(2);
        }
    }
}
