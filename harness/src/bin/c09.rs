//! C09 correspondence harness: subscripts and slices.
//!
//! Enumerates the box of the property's quantifier, evaluates every case on the real engine
//! (in-process, `catch_unwind` per case) and prints one line per case:
//!
//!   slice <kind> <len> <start> <stop> <step> <form>\t<result>
//!   index <kind> <len> <i> <form>\t<result>
//!
//! `_` = omitted bound.  Results are canonical: `<class>:<i,j,...>` (positions of the selected
//! elements in the original sequence, class in str/bytes/tuple/list), `elem:<i>`, `undef`,
//! `err:<ErrorKind>`, `panic`.
//!
//! usage: c09 gen <quick|thorough>   — print the case lines with results
//!        c09 one <case fields…>     — run one case (replay)
use minijinja::value::{Tuple, Value, ValueKind};
use minijinja::{context, Environment};
use mjh::*;
use std::io::Write;
use std::sync::Arc;

const CHARS: [char; 7] = ['a', 'é', '€', '𝄞', 'b', 'ß', 'c'];
const KINDS: [&str; 10] = [
    "strplain", "strsmall", "strsafe", "bytes", "list", "tuple", "itersized", "iterunsized",
    "undef", "none",
];

fn mk_value(kind: &str, len: usize) -> Value {
    let s: String = CHARS[..len].iter().collect();
    match kind {
        "strplain" => Value::from(Arc::<str>::from(s.as_str())),
        "strsmall" => Value::from(s),
        "strsafe" => Value::from_safe_string(s),
        "bytes" => Value::from_bytes((0..len as u8).collect()),
        "list" => Value::from((0..len as i64).collect::<Vec<_>>()),
        "tuple" => Value::from(Tuple::from((0..len as i64).map(Value::from).collect::<Vec<_>>())),
        "itersized" => Value::make_iterable(move || 0..len as i64),
        "iterunsized" => Value::make_iterable(move || (0..len as i64).filter(|_| true)),
        "undef" => Value::UNDEFINED,
        "none" => Value::from(()),
        _ => panic!("bad kind"),
    }
}

fn canon(v: &Value) -> String {
    if v.is_undefined() {
        return "undef".into();
    }
    if v.is_none() {
        return "none".into();
    }
    match v.kind() {
        ValueKind::String => {
            let s = v.as_str().unwrap();
            let idx: Vec<String> = s
                .chars()
                .map(|c| CHARS.iter().position(|x| *x == c).map(|p| p.to_string()).unwrap_or("?".into()))
                .collect();
            format!("str:{}", idx.join(","))
        }
        ValueKind::Bytes => {
            let b = v.as_bytes().unwrap();
            format!("bytes:{}", b.iter().map(|x| x.to_string()).collect::<Vec<_>>().join(","))
        }
        ValueKind::Seq | ValueKind::Iterable => {
            let class = if v.is_tuple() { "tuple" } else { "list" };
            match v.try_iter() {
                Ok(it) => format!(
                    "{}:{}",
                    class,
                    it.map(|x| x.to_string()).collect::<Vec<_>>().join(",")
                ),
                Err(e) => format!("err:{}", error_kind_name(&e)),
            }
        }
        ValueKind::Number => format!("elem:{}", v),
        other => format!("other:{:?}", other),
    }
}

fn canon_elem(kind: &str, v: &Value) -> String {
    if v.is_undefined() {
        return "undef".into();
    }
    match v.kind() {
        ValueKind::String => {
            let s = v.as_str().unwrap();
            let mut it = s.chars();
            let c = it.next();
            if kind.starts_with("str") && c.is_some() && it.next().is_none() {
                match CHARS.iter().position(|x| Some(*x) == c) {
                    Some(p) => format!("elem:{}", p),
                    None => "other:char".into(),
                }
            } else {
                "other:str".into()
            }
        }
        ValueKind::Number => format!("elem:{}", v),
        other => format!("other:{:?}", other),
    }
}

fn bound_src(name: &str, b: &str, form: &str) -> (String, Option<i64>) {
    if b == "_" {
        return (String::new(), None);
    }
    let n: i64 = b.parse().unwrap();
    if form == "lit" {
        (b.to_string(), Some(n))
    } else {
        (name.to_string(), Some(n))
    }
}

fn run_slice(env: &Environment, kind: &str, len: usize, a: &str, b: &str, c: &str, form: &str) -> String {
    let (sa, va) = bound_src("a", a, form);
    let (sb, vb) = bound_src("b", b, form);
    let (sc, vc) = bound_src("c", c, form);
    let src = if c == "_" { format!("v[{}:{}]", sa, sb) } else { format!("v[{}:{}:{}]", sa, sb, sc) };
    let v = mk_value(kind, len);
    let r = guarded(|| {
        let expr = env.compile_expression(&src)?;
        let out = expr.eval(context! { v => v, a => va, b => vb, c => vc })?;
        // force lazily evaluated results inside the guard
        Ok::<String, minijinja::Error>(canon(&out))
    });
    match r {
        Ok(Ok(s)) => s,
        Ok(Err(e)) => format!("err:{}", error_kind_name(&e)),
        Err(_) => "panic".into(),
    }
}

fn run_index(env: &Environment, kind: &str, len: usize, i: &str, form: &str) -> String {
    let (si, vi) = bound_src("a", i, form);
    let src = format!("v[{}]", si);
    let v = mk_value(kind, len);
    let r = guarded(|| {
        let expr = env.compile_expression(&src)?;
        let out = expr.eval(context! { v => v, a => vi })?;
        Ok::<String, minijinja::Error>(canon_elem(kind, &out))
    });
    match r {
        Ok(Ok(s)) => s,
        Ok(Err(e)) => format!("err:{}", error_kind_name(&e)),
        Err(_) => "panic".into(),
    }
}

fn bounds(range: std::ops::RangeInclusive<i64>) -> Vec<String> {
    let mut v = vec!["_".to_string()];
    v.extend(range.map(|x| x.to_string()));
    for x in [i64::MAX, i64::MIN, i64::MIN + 1, i64::MAX - 1] {
        v.push(x.to_string());
    }
    v
}

fn main() {
    quiet_panics();
    let args: Vec<String> = std::env::args().collect();
    let env = Environment::new();
    let out = std::io::stdout();
    let mut out = std::io::BufWriter::new(out.lock());
    match args.get(1).map(|s| s.as_str()) {
        Some("gen") => {
            let thorough = args.get(2).map(|s| s == "thorough").unwrap_or(false);
            let ss = bounds(-9..=9);
            let steps = bounds(-4..=4);
            let forms: &[&str] = if thorough { &["var", "lit"] } else { &["var"] };
            for kind in KINDS {
                for len in 0..=6usize {
                    if (kind == "undef" || kind == "none") && len > 0 {
                        continue;
                    }
                    for form in forms {
                        for a in &ss {
                            for b in &ss {
                                for c in &steps {
                                    // the quick tier enumerates literal forms only on a sub-box
                                    let r = run_slice(&env, kind, len, a, b, c, form);
                                    writeln!(out, "slice {} {} {} {} {} {}\t{}", kind, len, a, b, c, form, r).unwrap();
                                }
                            }
                        }
                        for i in &ss {
                            if i == "_" {
                                continue;
                            }
                            let r = run_index(&env, kind, len, i, form);
                            writeln!(out, "index {} {} {} {}\t{}", kind, len, i, form, r).unwrap();
                        }
                    }
                }
            }
            if !thorough {
                // literal forms on a sub-box (the parser's negative-literal path)
                for kind in ["strsmall", "list", "tuple"] {
                    for len in [0usize, 3, 5] {
                        for a in ["_", "-7", "-2", "0", "1", "4", "9", "-9223372036854775808", "9223372036854775807"] {
                            for b in ["_", "-7", "-1", "0", "2", "5", "-9223372036854775808", "9223372036854775807"] {
                                for c in ["_", "-3", "-1", "1", "2", "0", "-9223372036854775808", "9223372036854775807"] {
                                    let r = run_slice(&env, kind, len, a, b, c, "lit");
                                    writeln!(out, "slice {} {} {} {} {} lit\t{}", kind, len, a, b, c, r).unwrap();
                                }
                            }
                        }
                    }
                }
            }
        }
        Some("one") => {
            let f: Vec<&str> = args[2..].iter().map(|s| s.as_str()).collect();
            let r = match f[0] {
                "slice" => run_slice(&env, f[1], f[2].parse().unwrap(), f[3], f[4], f[5], f[6]),
                "index" => run_index(&env, f[1], f[2].parse().unwrap(), f[3], f[4]),
                _ => "bad-case".into(),
            };
            writeln!(out, "{}\t{}", f.join(" "), r).unwrap();
        }
        _ => {
            eprintln!("usage: c09 gen <quick|thorough> | c09 one <case>");
            std::process::exit(2);
        }
    }
}
