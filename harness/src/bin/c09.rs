//! C09 correspondence harness: subscripts and slices.
//!
//! Enumerates the box of the property's quantifier, evaluates every case on the real engine
//! (in-process, `catch_unwind` per case) and prints one line per case:
//!
//!   slice <kind> <len> <start> <stop> <step> <form>\t<result>
//!   index <kind> <len> <i> <form>\t<result>
//!
//! `_` = omitted bound.  Results are canonical: `<class>:<i,j,...>` (positions of the selected
//! elements in the original sequence, class in str/bytes/tuple/list), `elem:<i>`, `undef`,
//! `err:<ErrorKind>`, `panic`.
//!
//! usage: c09 gen <quick|thorough>   — print the case lines with results
//!        c09 one <case fields…>     — run one case (replay)
use minijinja::value::{Tuple, Value, ValueKind};
use minijinja::{context, Environment};
use mjh::*;
use std::io::Write;
use std::sync::Arc;

const CHARS: [char; 7] = ['a', 'é', '€', '𝄞', 'b', 'ß', 'c'];
const KINDS: [&str; 10] = [
    "strplain", "strsmall", "strsafe", "bytes", "list", "tuple", "itersized", "iterunsized",
    "undef", "none",
];

/// characters for long strings: position i ↦ a distinct char (multi-byte every third)
fn long_char(i: usize) -> char {
    match i % 3 {
        0 => char::from_u32(0x61 + (i as u32 / 3)).unwrap(),      // a, b, c …
        1 => char::from_u32(0x3b1 + (i as u32 / 3)).unwrap(),     // α, β, …
        _ => char::from_u32(0x4e00 + (i as u32 / 3)).unwrap(),    // CJK
    }
}

fn mk_value(kind: &str, len: usize) -> Value {
    let s: String = if len <= CHARS.len() { CHARS[..len].iter().collect() } else { (0..len).map(long_char).collect() };
    match kind {
        "strplain" => Value::from(Arc::<str>::from(s.as_str())),
        "strsmall" => Value::from(s),
        "strsafe" => Value::from_safe_string(s),
        "bytes" => Value::from_bytes((0..len as u8).collect()),
        "list" => Value::from((0..len as i64).collect::<Vec<_>>()),
        "tuple" => Value::from(Tuple::from((0..len as i64).map(Value::from).collect::<Vec<_>>())),
        "itersized" => Value::make_iterable(move || 0..len as i64),
        "iterunsized" => Value::make_iterable(move || (0..len as i64).filter(|_| true)),
        "undef" => Value::UNDEFINED,
        "none" => Value::from(()),
        // the builtin range object (lazy, sized), built by the engine itself
        "range" => Environment::new()
            .compile_expression("range(n)")
            .unwrap()
            .eval(context! { n => len })
            .unwrap(),
        "oneshot" => Value::make_one_shot_iterator(0..len as i64),
        "deque" => Value::from_object((0..len as i64).map(Value::from).collect::<std::collections::VecDeque<_>>()),
        _ => panic!("bad kind"),
    }
}

fn char_pos(c: char) -> Option<usize> {
    if let Some(p) = CHARS.iter().position(|x| *x == c) {
        return Some(p);
    }
    (0..64).find(|i| long_char(*i) == c)
}

thread_local! { static LONG: std::cell::Cell<bool> = std::cell::Cell::new(false); }

fn canon(v: &Value) -> String {
    if v.is_undefined() {
        return "undef".into();
    }
    if v.is_none() {
        return "none".into();
    }
    match v.kind() {
        ValueKind::String => {
            let s = v.as_str().unwrap();
            let idx: Vec<String> = s
                .chars()
                .map(|c| (if LONG.with(|l| l.get()) { (0..64).find(|i| long_char(*i) == c) } else { char_pos(c) }).map(|p| p.to_string()).unwrap_or("?".into()))
                .collect();
            format!("str:{}", idx.join(","))
        }
        ValueKind::Bytes => {
            let b = v.as_bytes().unwrap();
            format!("bytes:{}", b.iter().map(|x| x.to_string()).collect::<Vec<_>>().join(","))
        }
        ValueKind::Seq | ValueKind::Iterable => {
            let class = if v.is_tuple() { "tuple" } else { "list" };
            match v.try_iter() {
                Ok(it) => format!(
                    "{}:{}",
                    class,
                    it.map(|x| x.to_string()).collect::<Vec<_>>().join(",")
                ),
                Err(e) => format!("err:{}", error_kind_name(&e)),
            }
        }
        ValueKind::Number => format!("elem:{}", v),
        other => format!("other:{:?}", other),
    }
}

fn canon_elem(kind: &str, v: &Value) -> String {
    if v.is_undefined() {
        return "undef".into();
    }
    match v.kind() {
        ValueKind::String => {
            let s = v.as_str().unwrap();
            let mut it = s.chars();
            let c = it.next();
            if kind.starts_with("str") && c.is_some() && it.next().is_none() {
                match c.and_then(|c| if LONG.with(|l| l.get()) { (0..64).find(|i| long_char(*i) == c) } else { char_pos(c) }) {
                    Some(p) => format!("elem:{}", p),
                    None => "other:char".into(),
                }
            } else {
                "other:str".into()
            }
        }
        ValueKind::Number => format!("elem:{}", v),
        other => format!("other:{:?}", other),
    }
}

fn bound_src(name: &str, b: &str, form: &str) -> (String, Option<i64>) {
    if b == "_" {
        return (String::new(), None);
    }
    let n: i64 = b.parse().unwrap();
    if form == "lit" {
        (b.to_string(), Some(n))
    } else {
        (name.to_string(), Some(n))
    }
}

fn run_slice(env: &Environment, kind: &str, len: usize, a: &str, b: &str, c: &str, form: &str) -> String {
    let (sa, va) = bound_src("a", a, form);
    let (sb, vb) = bound_src("b", b, form);
    let (sc, vc) = bound_src("c", c, form);
    let src = if c == "_" { format!("v[{}:{}]", sa, sb) } else { format!("v[{}:{}:{}]", sa, sb, sc) };
    let v = mk_value(kind, len);
    let r = guarded(|| {
        let expr = env.compile_expression(&src)?;
        let out = expr.eval(context! { v => v, a => va, b => vb, c => vc })?;
        // force lazily evaluated results inside the guard
        Ok::<String, minijinja::Error>(canon(&out))
    });
    match r {
        Ok(Ok(s)) => s,
        Ok(Err(e)) => format!("err:{}", error_kind_name(&e)),
        Err(_) => "panic".into(),
    }
}

fn run_index(env: &Environment, kind: &str, len: usize, i: &str, form: &str) -> String {
    let (si, vi) = bound_src("a", i, form);
    let src = format!("v[{}]", si);
    let v = mk_value(kind, len);
    let r = guarded(|| {
        let expr = env.compile_expression(&src)?;
        let out = expr.eval(context! { v => v, a => vi })?;
        Ok::<String, minijinja::Error>(canon_elem(kind, &out))
    });
    match r {
        Ok(Ok(s)) => s,
        Ok(Err(e)) => format!("err:{}", error_kind_name(&e)),
        Err(_) => "panic".into(),
    }
}

/// `chain <kind> <len> <suffix>`: evaluates `v<suffix>` where suffix is a sequence of literal
/// slices/subscripts such as `[1:4][::-1][0]`; the last op decides slice vs element result.
fn run_chain(env: &Environment, kind: &str, len: usize, suffix: &str) -> String {
    LONG.with(|l| l.set(len > CHARS.len()));
    let src = format!("v{}", suffix);
    let v = mk_value(kind, len);
    let is_index = suffix.rsplit('[').next().map(|last| !last.contains(':')).unwrap_or(false);
    let r = guarded(|| {
        let expr = env.compile_expression(&src)?;
        let out = expr.eval(context! { v => v })?;
        Ok::<String, minijinja::Error>(if is_index { canon_elem(if kind.starts_with("str") { "str" } else { kind }, &out) } else { canon(&out) })
    });
    LONG.with(|l| l.set(false));
    match r {
        Ok(Ok(s)) => s,
        Ok(Err(e)) => format!("err:{}", error_kind_name(&e)),
        Err(_) => "panic".into(),
    }
}

fn rnd_bound(rng: &mut Rng, len: usize, wide: i64) -> String {
    match rng.below(10) {
        0 | 1 => String::new(),
        2 => i64::MAX.to_string(),
        3 => i64::MIN.to_string(),
        _ => (rng.below((2 * (len as i64 + wide) + 1) as u64) as i64 - (len as i64 + wide)).to_string(),
    }
}

fn rnd_slice(rng: &mut Rng, len: usize) -> String {
    let a = rnd_bound(rng, len, 3);
    let b = rnd_bound(rng, len, 3);
    let c = match rng.below(8) {
        0 | 1 | 2 => String::new(),
        3 => "-1".to_string(),
        _ => { let k = rng.below(9) as i64 + 1; if rng.chance(1, 2) { (-k).to_string() } else { k.to_string() } }
    };
    if c.is_empty() { format!("[{}:{}]", a, b) } else { format!("[{}:{}:{}]", a, b, c) }
}

fn bounds(range: std::ops::RangeInclusive<i64>) -> Vec<String> {
    let mut v = vec!["_".to_string()];
    v.extend(range.map(|x| x.to_string()));
    for x in [i64::MAX, i64::MIN, i64::MIN + 1, i64::MAX - 1] {
        v.push(x.to_string());
    }
    v
}

// =====================================================================================
// Glue streams (deepening round 3): value-kind x bound-kind products through several
// entry points and undefined modes, long sequences, metamorphic relations.
//
//   gs <mode> <entry> <value> <a> <b> <c>      slice, `_` = omitted part
//   gi <mode> <entry> <value> <key>            subscript
//   ga <mode> <entry> <value> <hexname>        attribute lookup
//   long <kind> <len> <a> <b> <c>              long sequences, result as digest
//   meta <rel> <kind> <len> <a> <b> <c>        metamorphic relations (lhs|rhs)
//
// value specs: U undefined, Z none, T/F bool, i:<n> I64, u:<n> U64, I:<n> I128, W:<n> U128,
// f:<bits> F64, sn:<hex> String(Normal), sm:<hex> Value::from(&str) (SmallStr when it fits),
// sa:<hex> safe string, b:<hex> bytes, L:<n> Vec, D:<n> VecDeque, P:<n> Tuple, E:<n> sized
// iterable, X:<n> iterable of unknown length, O:<n> one-shot iterator, R:<n> range(n),
// CS:<n> custom Seq object, CI:<n> custom Iterable object, M:<k,k,..> ValueMap (keys are value
// specs, values 0,1,2..), MS:<hex,hex,..> string-keyed BTreeMap<String, Value>, Q plain object.
// =====================================================================================
use minijinja::value::{Enumerator, Object, ObjectRepr};
use minijinja::UndefinedBehavior;
use std::collections::BTreeMap;

#[derive(Debug)]
struct CustomSeq(usize);
impl Object for CustomSeq {
    fn repr(self: &Arc<Self>) -> ObjectRepr { ObjectRepr::Seq }
    fn get_value(self: &Arc<Self>, key: &Value) -> Option<Value> {
        let i = key.as_usize()?;
        if i < self.0 { Some(Value::from(i as i64)) } else { None }
    }
    fn enumerate(self: &Arc<Self>) -> Enumerator { Enumerator::Seq(self.0) }
}
#[derive(Debug)]
struct CustomIter(usize);
impl Object for CustomIter {
    fn repr(self: &Arc<Self>) -> ObjectRepr { ObjectRepr::Iterable }
    fn enumerate(self: &Arc<Self>) -> Enumerator {
        Enumerator::Values((0..self.0 as i64).map(Value::from).collect())
    }
}
#[derive(Debug)]
struct PlainObj;
impl Object for PlainObj {
    fn repr(self: &Arc<Self>) -> ObjectRepr { ObjectRepr::Plain }
}

fn mk_spec(spec: &str) -> Value {
    let (tag, arg) = spec.split_once(':').unwrap_or((spec, ""));
    let n = || arg.parse::<usize>().unwrap();
    match tag {
        "U" => Value::UNDEFINED,
        "Z" | "_" => Value::from(()),
        "T" => Value::from(true),
        "F" => Value::from(false),
        "i" => Value::from(arg.parse::<i64>().unwrap()),
        "u" => Value::from(arg.parse::<u64>().unwrap()),
        "I" => Value::from(arg.parse::<i128>().unwrap()),
        "W" => Value::from(arg.parse::<u128>().unwrap()),
        "f" => Value::from(f64::from_bits(arg.parse::<u64>().unwrap())),
        "sn" => Value::from(Arc::<str>::from(String::from_utf8(unhex(arg)).unwrap().as_str())),
        "sm" => Value::from(String::from_utf8(unhex(arg)).unwrap()),
        "sa" => Value::from_safe_string(String::from_utf8(unhex(arg)).unwrap()),
        "b" => Value::from_bytes(unhex(arg)),
        "L" => Value::from((0..n() as i64).collect::<Vec<_>>()),
        "D" => Value::from_object((0..n() as i64).map(Value::from).collect::<std::collections::VecDeque<_>>()),
        "P" => Value::from(Tuple::from((0..n() as i64).map(Value::from).collect::<Vec<_>>())),
        "E" => { let n = n(); Value::make_iterable(move || 0..n as i64) }
        "X" => { let n = n() as i64; Value::make_iterable(move || { let mut i = 0i64; std::iter::from_fn(move || if i < n { i += 1; Some(i - 1) } else { None }) }) }
        "O" => Value::make_one_shot_iterator(0..n() as i64),
        "R" => Environment::new().compile_expression("range(n)").unwrap().eval(context! { n => n() }).unwrap(),
        "CS" => Value::from_object(CustomSeq(n())),
        // a Rust array (`impl Object for [T; N]`), N fixed to 4
        "A" => Value::from_object([0i64, 1, 2, 3]),
        "CI" => Value::from_object(CustomIter(n())),
        "M" => {
            let mut m: BTreeMap<Value, Value> = BTreeMap::new();
            for (i, k) in arg.split(',').filter(|k| !k.is_empty()).enumerate() {
                m.insert(mk_spec(&k.replace('=', ":")), Value::from(i as i64));
            }
            Value::from_object(m)
        }
        "MS" => {
            let mut m: BTreeMap<String, Value> = BTreeMap::new();
            for (i, k) in arg.split(',').filter(|k| !k.is_empty()).enumerate() {
                m.insert(String::from_utf8(unhex(k)).unwrap(), Value::from(i as i64));
            }
            Value::from(m)
        }
        "Q" => Value::from_object(PlainObj),
        _ => panic!("bad value spec {}", spec),
    }
}

/// source text of a literal for the `lit` entries (None = the spec has no literal form)
fn lit_src(spec: &str) -> Option<String> {
    let (tag, arg) = spec.split_once(':').unwrap_or((spec, ""));
    Some(match tag {
        "_" => String::new(),
        "Z" => "none".into(),
        "T" => "true".into(),
        "F" => "false".into(),
        "i" | "u" | "I" | "W" => {
            // the literal -2^127 is not an integer literal of the engine (2^127 does not fit i128)
            if arg == "-170141183460469231731687303715884105728" { return None; }
            if arg.starts_with('-') { format!("({})", arg) } else { arg.to_string() }
        }
        "f" => {
            let f = f64::from_bits(arg.parse::<u64>().unwrap());
            if !f.is_finite() || f.abs() >= 1e15 || (f != 0.0 && f.abs() < 1e-4) || (f == 0.0 && f.is_sign_negative()) { return None; }
            let t = format!("{:?}", f);
            if t.starts_with('-') { format!("({})", t) } else { t }
        }
        "sn" | "sm" => {
            let s = String::from_utf8(unhex(arg)).unwrap();
            if s.contains('"') || s.contains('\\') { return None; }
            format!("\"{}\"", s)
        }
        "L" => format!("[{}]", (0..arg.parse::<usize>().unwrap()).map(|i| i.to_string()).collect::<Vec<_>>().join(", ")),
        "P" => {
            let n = arg.parse::<usize>().unwrap();
            if n == 0 { "()".into() } else if n == 1 { "(0,)".into() } else { format!("({})", (0..n).map(|i| i.to_string()).collect::<Vec<_>>().join(", ")) }
        }
        // a map literal: the engine's own `ValueMap`
        "M" => {
            let mut parts = Vec::new();
            for (i, k) in arg.split(',').filter(|k| !k.is_empty()).enumerate() {
                parts.push(format!("{}: {}", lit_src(&k.replace('=', ":"))?, i));
            }
            format!("{{{}}}", parts.join(", "))
        }
        _ => return None,
    })
}

fn elem_str(v: &Value) -> String {
    if v.is_undefined() { "undef".into() } else if v.kind() == ValueKind::Number && v.is_integer() { v.to_string() } else { format!("?{}", v.kind()) }
}

fn canon_g(v: &Value) -> String {
    if v.is_undefined() { return "undef".into(); }
    if v.is_none() { return "none".into(); }
    match v.kind() {
        ValueKind::String => format!("{}:{}", if v.is_safe() { "safestr" } else { "str" }, hex(v.as_str().unwrap().as_bytes())),
        ValueKind::Bytes => format!("bytes:{}", hex(v.as_bytes().unwrap())),
        ValueKind::Bool => format!("bool:{}", v),
        ValueKind::Number => if v.is_integer() { format!("num:{}", v) } else { format!("numf:{}", f64::try_from(v.clone()).unwrap().to_bits()) },
        ValueKind::Seq | ValueKind::Iterable => {
            // iterate first (one-shot iterators!), ask for the length afterwards
            let items = match v.try_iter() {
                Ok(it) => it.map(|x| elem_str(&x)).collect::<Vec<_>>().join(","),
                Err(e) => return format!("err:{}|iter", error_kind_name(&e)),
            };
            let class = if v.is_tuple() { "tuple".to_string() } else if v.kind() == ValueKind::Seq { "seq".to_string() }
                else { format!("iter{}", if v.len().is_some() { "S" } else { "U" }) };
            format!("{}:{}", class, items)
        }
        other => format!("other:{:?}", other),
    }
}

fn canon_item(container: &str, v: &Value) -> String {
    if v.is_undefined() { return "undef".into(); }
    match v.kind() {
        ValueKind::String if container.starts_with('s') => format!("chr:{}{}", hex(v.as_str().unwrap().as_bytes()), if v.is_safe() { ":safe" } else { "" }),
        ValueKind::Number if container.starts_with('b') && v.is_integer() => format!("byte:{}", v),
        ValueKind::Number if v.is_integer() => format!("elem:{}", v),
        _ => format!("other:{}", canon_g(v)),
    }
}

fn err_str(e: &minijinja::Error) -> String {
    format!("err:{}|{}", error_kind_name(e), e.detail().unwrap_or(""))
}

fn mode_of(m: &str) -> UndefinedBehavior {
    match m { "L" => UndefinedBehavior::Lenient, "C" => UndefinedBehavior::Chainable, "S" => UndefinedBehavior::SemiStrict, "X" => UndefinedBehavior::Strict, _ => panic!("bad mode") }
}

thread_local! { static PROBE: std::cell::RefCell<Option<String>> = std::cell::RefCell::new(None); }

/// evaluate `expr_src` (an expression over the context `ctx`) through the entry point `entry`
/// and canonicalise its value with `canon` *inside* the evaluation (lazy results are forced there)
fn eval_entry(mode: &str, entry: &str, expr_src: &str, ctx: Value, canon: &(dyn Fn(&Value) -> String + Sync + Send)) -> String {
    let mut env = Environment::new();
    env.set_undefined_behavior(mode_of(mode));
    let r = guarded(|| -> Result<String, minijinja::Error> {
        if entry == "expr" || entry == "lit" || entry == "dot" {
            let e = env.compile_expression(expr_src)?;
            let out = e.eval(ctx)?;
            return Ok(canon(&out));
        }
        // template entries: a probe function receives the value and canonicalises it
        let canon_ptr: &'static (dyn Fn(&Value) -> String + Sync + Send) = unsafe { std::mem::transmute(canon) };
        env.add_function("probe", move |v: Value| -> String {
            let s = canon_ptr(&v);
            PROBE.with(|p| *p.borrow_mut() = Some(s));
            String::new()
        });
        PROBE.with(|p| *p.borrow_mut() = None);
        let src = match entry {
            "tmpl" | "write" => format!("{{{{ probe({}) }}}}", expr_src),
            "blk" => format!("x{{% if false %}}{{% block body %}}{{{{ probe({}) }}}}{{% endblock %}}{{% endif %}}y", expr_src),
            "mac" => format!("{{% macro m(v, a, b, c) %}}{{{{ probe({}) }}}}{{% endmacro %}}{{{{ m(v, a, b, c) }}}}", expr_src),
            "for" => format!("{{% for q in [1] %}}{{{{ probe({}) }}}}{{% endfor %}}", expr_src),
            "set" => format!("{{% set r = {} %}}{{{{ probe(r) }}}}", expr_src),
            "cap" => format!("{{{{ probe({}) }}}}", expr_src),
            _ => panic!("bad entry {}", entry),
        };
        match entry {
            "write" => {
                env.add_template_owned("t.txt".to_string(), src.clone())?;
                let t = env.get_template("t.txt")?;
                let mut buf = Vec::new();
                t.render_captured_to(ctx, &mut buf)?;
            }
            "blk" => {
                let t = env.template_from_str(&src)?;
                let mut cap = t.render_captured(ctx)?;
                PROBE.with(|p| *p.borrow_mut() = None);
                cap.with_state_mut(|st| st.render_block("body"))?;
            }
            "cap" => {
                let t = env.template_from_str(&src)?;
                t.render_captured(ctx)?;
            }
            _ => {
                let t = env.template_from_str(&src)?;
                t.render(ctx)?;
            }
        }
        Ok(PROBE.with(|p| p.borrow_mut().take()).unwrap_or_else(|| "no-probe".into()))
    });
    match r {
        Ok(Ok(s)) => s,
        Ok(Err(e)) => err_str(&e),
        Err(_) => "panic".into(),
    }
}

fn run_gs(mode: &str, entry: &str, vs: &str, a: &str, b: &str, c: &str) -> String {
    let part = |name: &str, spec: &str| -> Option<String> {
        if spec == "_" { Some(String::new()) } else if entry == "lit" { lit_src(spec) } else { Some(name.to_string()) }
    };
    let (Some(sa), Some(sb), Some(sc)) = (part("a", a), part("b", b), part("c", c)) else { return "no-literal".into() };
    let vsrc = if entry == "lit" && ["L:", "P:", "sn:", "sm:", "M:"].iter().any(|p| vs.starts_with(p)) { lit_src(vs).unwrap_or_else(|| "v".to_string()) } else { "v".to_string() };
    let src = if c == "_" && entry != "lit" { format!("{}[{}:{}]", vsrc, sa, sb) } else { format!("{}[{}:{}:{}]", vsrc, sa, sb, sc) };
    let ctx = context! { v => mk_spec(vs), a => mk_spec(a), b => mk_spec(b), c => mk_spec(c) };
    eval_entry(mode, entry, &src, ctx, &canon_g)
}

fn run_gi(mode: &str, entry: &str, vs: &str, key: &str) -> String {
    let vs_owned = vs.to_string();
    let canon = move |v: &Value| canon_item(&vs_owned, v);
    match entry {
        "api" => {
            let v = mk_spec(vs);
            let k = mk_spec(key);
            match guarded(|| v.get_item(&k).map(|x| canon_item(vs, &x))) {
                Ok(Ok(s)) => s, Ok(Err(e)) => err_str(&e), Err(_) => "panic".into(),
            }
        }
        "apiidx" => {
            let v = mk_spec(vs);
            let idx: usize = key.split_once(':').unwrap().1.parse::<u64>().unwrap() as usize;
            match guarded(|| v.get_item_by_index(idx).map(|x| canon_item(vs, &x))) {
                Ok(Ok(s)) => s, Ok(Err(e)) => err_str(&e), Err(_) => "panic".into(),
            }
        }
        "lit" | "dot" => {
            let Some(k) = lit_src(key) else { return "no-literal".into() };
            let vsrc = if ["L:", "P:", "sn:", "sm:", "M:"].iter().any(|p| vs.starts_with(p)) { lit_src(vs).unwrap_or_else(|| "v".to_string()) } else { "v".to_string() };
            let src = if entry == "dot" { format!("{}.{}", vsrc, k) } else { format!("{}[{}]", vsrc, k) };
            eval_entry(mode, entry, &src, context! { v => mk_spec(vs) }, &canon)
        }
        _ => eval_entry(mode, entry, "v[a]", context! { v => mk_spec(vs), a => mk_spec(key), b => (), c => () }, &canon),
    }
}

fn run_ga(mode: &str, entry: &str, vs: &str, hexname: &str) -> String {
    let name = String::from_utf8(unhex(hexname)).unwrap();
    let vs_owned = vs.to_string();
    let canon = move |v: &Value| canon_item(&vs_owned, v);
    if entry == "api" {
        let v = mk_spec(vs);
        return match guarded(|| v.get_attr(&name).map(|x| canon_item(vs, &x))) {
            Ok(Ok(s)) => s, Ok(Err(e)) => err_str(&e), Err(_) => "panic".into(),
        };
    }
    eval_entry(mode, entry, &format!("v.{}", name), context! { v => mk_spec(vs), a => (), b => (), c => () }, &canon)
}

// ---- long sequences -----------------------------------------------------------------------
fn long_chr(i: usize) -> char {
    let q = (i / 4) as u32;
    match i % 4 {
        0 => char::from_u32(0x61 + q % 26).unwrap(),
        1 => char::from_u32(0xe0 + q % 32).unwrap(),
        2 => char::from_u32(0x4e00 + q % 1000).unwrap(),
        _ => char::from_u32(0x1f600 + q % 64).unwrap(),
    }
}
fn long_byte(i: usize) -> u8 { ((i * 7 + 3) % 256) as u8 }

fn mk_long(kind: &str, len: usize) -> Value {
    match kind {
        "strn" => Value::from(Arc::<str>::from((0..len).map(long_chr).collect::<String>().as_str())),
        "strm" => Value::from((0..len).map(long_chr).collect::<String>()),
        "stra" => Value::from_safe_string((0..len).map(long_chr).collect::<String>()),
        "bytes" => Value::from_bytes((0..len).map(long_byte).collect()),
        "list" => Value::from((0..len as i64).collect::<Vec<_>>()),
        "tuple" => Value::from(Tuple::from((0..len as i64).map(Value::from).collect::<Vec<_>>())),
        "deque" => Value::from_object((0..len as i64).map(Value::from).collect::<std::collections::VecDeque<_>>()),
        "itersized" => Value::make_iterable(move || 0..len as i64),
        "iterunsized" => { let n = len as i64; Value::make_iterable(move || { let mut i = 0i64; std::iter::from_fn(move || if i < n { i += 1; Some(i - 1) } else { None }) }) }
        "oneshot" => Value::make_one_shot_iterator(0..len as i64),
        "range" => mk_value("range", len),
        _ => panic!("bad long kind"),
    }
}

fn digest(class: &str, xs: impl Iterator<Item = u64>) -> String {
    let mut h: u64 = 0xcbf29ce484222325;
    let mut n = 0usize;
    let mut head = Vec::new();
    for x in xs {
        h = (h ^ x).wrapping_mul(0x100000001b3);
        if n < 6 { head.push(x.to_string()); }
        n += 1;
    }
    format!("{}#{}#{}#{}", class, n, h, head.join(","))
}

fn canon_long(v: &Value) -> String {
    if v.is_undefined() { return "undef".into(); }
    match v.kind() {
        ValueKind::String => digest(if v.is_safe() { "safestr" } else { "str" }, v.as_str().unwrap().chars().map(|c| c as u64)),
        ValueKind::Bytes => digest("bytes", v.as_bytes().unwrap().iter().map(|b| *b as u64)),
        ValueKind::Seq | ValueKind::Iterable => {
            let class = if v.is_tuple() { "tuple" } else { "list" };
            match v.try_iter() {
                Ok(it) => digest(class, it.map(|x| u64::try_from(x).unwrap_or(u64::MAX))),
                Err(e) => err_str(&e),
            }
        }
        ValueKind::Number => format!("elem:{}", v),
        other => format!("other:{:?}", other),
    }
}

fn bound_lit(b: &str) -> String {
    if b == "_" { String::new() } else if b.starts_with('-') { format!("({})", b) } else { b.to_string() }
}

/// `long <kind> <len> <a> <b> <c>`: bounds are decimal integers of any size (context values of
/// the narrowest of I64/U64/I128/U128 holding them) or `_`; `c` = `i<k>` means the subscript `[k]`
fn run_long(kind: &str, len: usize, a: &str, b: &str, c: &str) -> String {
    let v = mk_long(kind, len);
    let val = |s: &str| -> Value {
        if s == "_" { return Value::from(()); }
        if let Ok(x) = s.parse::<i64>() { Value::from(x) }
        else if let Ok(x) = s.parse::<u64>() { Value::from(x) }
        else if let Ok(x) = s.parse::<i128>() { Value::from(x) }
        else { Value::from(s.parse::<u128>().unwrap()) }
    };
    let env = Environment::new();
    let r = guarded(|| -> Result<String, minijinja::Error> {
        if let Some(k) = c.strip_prefix('i') {
            let out = env.compile_expression("v[k]")?.eval(context! { v => v, k => val(k) })?;
            return Ok(if out.is_undefined() { "undef".into() } else { match out.kind() {
                ValueKind::String => format!("chr:{}", out.as_str().unwrap().chars().next().map(|c| c as u32).unwrap_or(0)),
                _ => format!("elem:{}", out),
            } });
        }
        let src = if c == "_" { "v[a:b]" } else { "v[a:b:c]" };
        let out = env.compile_expression(src)?.eval(context! { v => v, a => val(a), b => val(b), c => val(c) })?;
        Ok(canon_long(&out))
    });
    match r { Ok(Ok(s)) => s, Ok(Err(e)) => err_str(&e), Err(_) => "panic".into() }
}

// ---- metamorphic relations ----------------------------------------------------------------
/// `meta <rel> <kind> <len> <a> <b> <c>` prints `lhs|rhs` (both canonical)
fn run_meta(rel: &str, kind: &str, len: usize, a: &str, b: &str, c: &str) -> String {
    let env = Environment::new();
    let sl = if c == "_" { format!("[{}:{}]", bound_lit(a), bound_lit(b)) } else { format!("[{}:{}:{}]", bound_lit(a), bound_lit(b), bound_lit(c)) };
    let ev = |src: &str| -> String {
        let v = mk_long(kind, len);
        match guarded(|| env.compile_expression(src).and_then(|e| e.eval(context! { v => v })).map(|o| canon_long(&o))) {
            Ok(Ok(s)) => s, Ok(Err(e)) => err_str(&e), Err(_) => "panic".into(),
        }
    };
    let rd = |src: &str| -> String {
        let v = mk_long(kind, len);
        match guarded(|| env.render_str(src, context! { v => v })) {
            Ok(Ok(s)) => s, Ok(Err(e)) => err_str(&e), Err(_) => "panic".into(),
        }
    };
    match rel {
        // `xs|reverse` selects what `xs[::-1]` selects
        "rev" => format!("{}~~{}", ev("v|reverse"), ev("v[::-1]")),
        "first" => format!("{}~~{}", ev("v|first"), ev("v[0]")),
        "last" => format!("{}~~{}", ev("v|last"), ev("v[-1]")),
        // length of a slice
        "len" => rd(&format!("{{{{ v{}|length }}}}", sl)),
        // a slice driven by a for loop: loop.length and the items
        "loop" => rd(&format!("{{% for x in v{} %}}{{{{ loop.length }}}}:{{{{ loop.index0 }}}}:{{{{ x }}}},{{% endfor %}}", sl)),
        // a slice of a slice of a slice (b and c reused as the inner slices' bounds)
        "sss" => ev(&format!("v{}[{}:{}][::{}]", sl, bound_lit(b), bound_lit(a), if c == "_" || c == "0" { "1".to_string() } else { bound_lit(c) })),
        // literal container vs run-time container (lists and short strings only)
        "litv" => {
            let lit = match kind {
                "list" => format!("[{}]", (0..len).map(|i| i.to_string()).collect::<Vec<_>>().join(", ")),
                "tuple" => if len == 1 { "(0,)".to_string() } else { format!("({})", (0..len).map(|i| i.to_string()).collect::<Vec<_>>().join(", ")) },
                _ => format!("\"{}\"", (0..len).map(long_chr).collect::<String>()),
            };
            format!("{}~~{}", ev(&format!("{}{}", lit, sl)), ev(&format!("v{}", sl)))
        }
        "liti" => {
            let lit = match kind {
                "list" => format!("[{}]", (0..len).map(|i| i.to_string()).collect::<Vec<_>>().join(", ")),
                "tuple" => if len == 1 { "(0,)".to_string() } else { format!("({})", (0..len).map(|i| i.to_string()).collect::<Vec<_>>().join(", ")) },
                _ => format!("\"{}\"", (0..len).map(long_chr).collect::<String>()),
            };
            let evi = |src: &str| -> String {
                let v = mk_long(kind, len);
                match guarded(|| env.compile_expression(src).and_then(|e| e.eval(context! { v => v })).map(|o| {
                    if o.is_undefined() { "undef".to_string() } else if o.kind() == ValueKind::String { format!("chr:{}", o.as_str().unwrap().chars().next().map(|c| c as u32).unwrap_or(0)) } else { format!("elem:{}", o) }
                })) { Ok(Ok(s)) => s, Ok(Err(e)) => err_str(&e), Err(_) => "panic".into() }
            };
            format!("{}~~{}", evi(&format!("{}[{}]", lit, bound_lit(a))), evi(&format!("v[{}]", bound_lit(a))))
        }
        _ => "bad-rel".into(),
    }
}

fn fb(x: f64) -> String { format!("f:{}", x.to_bits()) }

fn value_specs() -> Vec<String> {
    let s5 = hex("aé€𝄞b".as_bytes());
    let long: String = (0..30).map(long_chr).collect();
    let mut v: Vec<String> = ["U", "Z", "T", "i:5", "sn:", "sm:61", "b:000102fe", "b:", "L:0", "L:1", "L:4", "D:4", "A:4", "P:0", "P:1", "P:2",
        "P:4", "E:4", "E:0", "X:4", "X:0", "O:4", "R:4", "CS:4", "CI:4", "M:i=1,i=-1,i=0,sm=6b,sm=31,T", "M:", "MS:6b,31", "Q"]
        .iter().map(|s| s.to_string()).collect();
    v.push(fb(1.0));
    for r in ["sn", "sm", "sa"] { v.push(format!("{}:{}", r, s5)); }
    v.push(format!("sm:{}", hex(long.as_bytes())));
    v.push(format!("sa:{}", hex(long.as_bytes())));
    v
}

fn key_specs() -> Vec<String> {
    let mut k: Vec<String> = ["Z", "U", "T", "F"].iter().map(|s| s.to_string()).collect();
    for i in -6..=6i64 { k.push(format!("i:{}", i)); }
    for s in ["i:-9223372036854775808", "i:9223372036854775807", "i:-9223372036854775807", "u:0", "u:3", "u:9223372036854775807",
              "u:9223372036854775808", "u:18446744073709551615", "I:-1", "I:2", "I:0", "I:-9223372036854775808", "I:-9223372036854775809",
              "I:9223372036854775807", "I:9223372036854775808", "I:-170141183460469231731687303715884105728",
              "I:170141183460469231731687303715884105727", "W:1", "W:0", "W:9223372036854775808",
              "W:340282366920938463463374607431768211455", "sn:31", "sm:31", "sm:6b", "sa:30", "sm:", "b:01", "L:2", "P:1", "M:i=1", "Q", "E:2"] {
        k.push(s.to_string());
    }
    for f in [1.0, -1.0, 0.0, -0.0, 2.0, 3.0, -4.0, -5.0, 1.5, -0.5, f64::NAN, f64::INFINITY, f64::NEG_INFINITY, 9223372036854775808.0,
              -9223372036854775808.0, 9223372036854774784.0, -9223372036854777856.0, 9007199254740992.0, 1e300, -1e300, 5e-324, 4294967296.0] {
        k.push(fb(f));
    }
    k
}

const MODES: [&str; 4] = ["L", "C", "S", "X"];
const TMPL_ENTRIES: [&str; 7] = ["tmpl", "write", "blk", "mac", "for", "set", "cap"];

fn gen_glue(out: &mut impl Write, thorough: bool) {
    let mut rng = Rng::new(seed_from_env() ^ 0x9109);
    let values = value_specs();
    let keys = key_specs();
    let others: [(&str, &str); 9] = [("_", "_"), ("i:1", "i:3"), ("i:-2", "_"), ("_", "i:-1"), ("i:0", "i:2"), ("i:-1", "i:-1"),
                                     ("i:2", "i:0"), ("U", "_"), ("sn:31", "sm:31")];
    let den = if thorough { 2 } else { 16 };
    // ---- slices
    for vs in &values {
        let mut ks: Vec<String> = keys.clone();
        ks.push("_".to_string());
        for k in &ks {
            for pos in 0..3 {
                for (o1, o2) in others {
                    let (a, b, c) = match pos { 0 => (k.as_str(), o1, o2), 1 => (o1, k.as_str(), o2), _ => (o1, o2, k.as_str()) };
                    for mode in MODES {
                        let entries: Vec<&str> = std::iter::once("expr").chain(std::iter::once("lit")).chain(TMPL_ENTRIES.iter().copied()).collect();
                        for entry in entries {
                            let always = (mode == "L" && entry == "expr") || ((vs == "U" || vs == "Z") && (entry == "expr" || entry == "tmpl") && pos == 0);
                            if !always && !rng.chance(1, den) { continue; }
                            let r = run_gs(mode, entry, vs, a, b, c);
                            if r == "no-literal" { continue; }
                            writeln!(out, "gs {} {} {} {} {} {}\t{}", mode, entry, vs, a, b, c, r).unwrap();
                        }
                    }
                }
            }
        }
    }
    // ---- subscripts
    for vs in &values {
        for k in &keys {
            for mode in MODES {
                for entry in ["expr", "api", "tmpl", "lit", "dot", "apiidx", "write", "blk", "mac", "for", "set", "cap"] {
                    if entry == "apiidx" && !(k.starts_with("u:")) { continue; }
                    if entry == "dot" && !(["i:", "u:", "I:", "W:"].iter().any(|p| k.starts_with(p)) && !k.contains('-')) { continue; }
                    let always = matches!(entry, "expr" | "api" | "apiidx" | "dot") || vs == "U" || vs == "Z";
                    if !always && !rng.chance(1, if thorough { 1 } else { 4 }) { continue; }
                    let r = run_gi(mode, entry, vs, k);
                    if r == "no-literal" { continue; }
                    writeln!(out, "gi {} {} {} {}\t{}", mode, entry, vs, k, r).unwrap();
                }
            }
        }
    }
    // ---- attributes
    for vs in &values {
        for name in ["x", "k", "length", "x1"] {
            for mode in MODES {
                for entry in ["expr", "api", "tmpl", "mac"] {
                    let r = run_ga(mode, entry, vs, &hex(name.as_bytes()));
                    writeln!(out, "ga {} {} {} {}\t{}", mode, entry, vs, hex(name.as_bytes()), r).unwrap();
                }
            }
        }
        // numeric strings as attribute names reach `get_attr` only through the API
        for name in ["0", "1", "-1", "1.0", "31", "é", "k"] {
            let r = run_ga("L", "api", vs, &hex(name.as_bytes()));
            writeln!(out, "ga L api {} {}\t{}", vs, hex(name.as_bytes()), r).unwrap();
        }
    }
}

fn rnd_big_bound(rng: &mut Rng, len: usize, step: bool) -> String {
    let l = len as i128;
    let around = |rng: &mut Rng, c: i128, w: i128| -> String { (c + rng.below((2 * w + 1) as u64) as i128 - w).to_string() };
    match rng.below(if step { 12 } else { 14 }) {
        0 | 1 => "_".to_string(),
        2 => around(rng, 0, if step { 7 } else { 5 }),
        3 => around(rng, l, 3),
        4 => around(rng, -l, 3),
        5 => around(rng, 1i128 << 31, 2),
        6 => around(rng, -(1i128 << 31), 2),
        7 => around(rng, 1i128 << 63, 2),
        8 => around(rng, -(1i128 << 63), 2),
        9 => match rng.below(6) {
            0 => around(rng, 1i128 << 64, 1),
            1 => around(rng, -(1i128 << 64), 1),
            2 => i128::MAX.to_string(),
            3 => i128::MIN.to_string(),
            4 => u128::MAX.to_string(),
            _ => around(rng, 1i128 << 32, 2),
        },
        10 => around(rng, l / 2, l / 2 + 2),
        11 => around(rng, -l / 2, l / 2 + 2),
        _ => around(rng, 0, l + 10),
    }
}

fn gen_long(out: &mut impl Write, thorough: bool) {
    let mut rng = Rng::new(seed_from_env() ^ 0x10c9);
    let kinds = ["strn", "strm", "stra", "bytes", "list", "tuple", "deque", "itersized", "iterunsized", "oneshot", "range"];
    let n = if thorough { 300_000 } else { 30_000 };
    for _ in 0..n {
        let kind = *rng.pick(&kinds);
        let len = match rng.below(3) { 0 => rng.below(50), 1 => rng.below(300), _ => rng.below(2001) } as usize;
        let a = rnd_big_bound(&mut rng, len, false);
        let (b, c) = if rng.chance(1, 6) {
            // subscript
            let k = if a == "_" { "0".to_string() } else { a.clone() };
            let k = if kind == "oneshot" && k.starts_with('-') { k[1..].to_string() } else { k };
            ("_".to_string(), format!("i{}", k))
        } else {
            let b = rnd_big_bound(&mut rng, len, false);
            let mut c = rnd_big_bound(&mut rng, len, true);
            if c == "0" && !rng.chance(1, 4) { c = "_".to_string(); }
            (b, c)
        };
        let a = if c.starts_with('i') { "_".to_string() } else { a };
        let r = run_long(kind, len, &a, &b, &c);
        writeln!(out, "long {} {} {} {} {}\t{}", kind, len, a, b, c, r).unwrap();
    }
}

fn gen_meta(out: &mut impl Write, thorough: bool) {
    let mut rng = Rng::new(seed_from_env() ^ 0x3e7a);
    let kinds = ["strn", "strm", "stra", "bytes", "list", "tuple", "deque", "itersized", "iterunsized", "range"];
    let n = if thorough { 120_000 } else { 16_000 };
    let small = |rng: &mut Rng, len: usize| -> String {
        match rng.below(8) { 0 | 1 => "_".to_string(), 2 => i64::MAX.to_string(), 3 => i64::MIN.to_string(),
            _ => (rng.below(2 * len as u64 + 7) as i64 - len as i64 - 3).to_string() }
    };
    for _ in 0..n {
        let rel = *rng.pick(&["rev", "first", "last", "len", "len", "loop", "loop", "sss", "sss", "litv", "liti"]);
        let kind = if rel.starts_with("lit") { *rng.pick(&["list", "tuple", "strm", "strn"]) } else { *rng.pick(&kinds) };
        // the reverse/first/last filters and for loops do not treat bytes as a sequence (not this property's business)
        let kind = if matches!(rel, "rev" | "first" | "last" | "loop") && kind == "bytes" { "list" } else { kind };
        let len = if rel.starts_with("lit") { rng.below(12) as usize + if kind == "tuple" { 1 } else { 0 } } else if rng.chance(1, 3) { rng.below(7) as usize } else { rng.below(120) as usize };
        let (a, b, c) = if matches!(rel, "rev" | "first" | "last") { ("_".to_string(), "_".to_string(), "_".to_string()) } else {
            let a = small(&mut rng, len);
            let b = small(&mut rng, len);
            let c = match rng.below(6) { 0 | 1 => "_".to_string(), 2 => "-1".to_string(), _ => { let k = rng.below(5) as i64 + 1; if rng.chance(1, 2) { (-k).to_string() } else { k.to_string() } } };
            (a, b, c)
        };
        let a = if rel == "liti" && a == "_" { "-1".to_string() } else { a };
        let r = run_meta(rel, kind, len, &a, &b, &c);
        writeln!(out, "meta {} {} {} {} {} {}\t{}", rel, kind, len, a, b, c, r).unwrap();
    }
}

// =====================================================================================
// Derived values: every built-in value with its own `get_value` / indexing
//
//   mg <lens> <types> <entry> <i>     `a|chain(b, c, d)` over operands of the given lengths
//                                     (types: L list / P tuple per operand), subscript i
//   dv <mode> <entry> <id> <key>      DERIVED[id] subscripted: `lhs~~rhs~~kind~~mat`
//                                     lhs = x[key], rhs = (x|list)[key], mat = items of x|list
//   ds <mode> <id> <a> <b> <c>        sliced: lhs = items of x[a:b:c], rhs = items of (x|list)[a:b:c]
// =====================================================================================
const DERIVED: &[(&str, &str)] = &[
    ("chain_e_xs", "e|chain(xs)"),
    ("chain_xs_e", "xs|chain(e)"),
    ("chain_e_e_xs_e", "e|chain(e, xs, e)"),
    ("chain_xs_e_t", "xs|chain(e, t)"),
    ("chain_t0_xs", "t0|chain(xs, xs)"),
    ("chain_nested", "(e|chain(xs))|chain(e|chain(e), t)"),
    ("chain_nested_head", "(e|chain(e))|chain(xs)"),
    ("chain_one", "xs|chain"),
    ("chain_mixed_str", "s|chain(xs)"),
    ("chain_mixed_iter", "e|chain(it, xs)"),
    ("chain_maps", "m|chain(m2)"),
    ("add_e_xs", "e + xs"),
    ("add_xs_xs", "xs + xs"),
    ("add_t_t", "t + t"),
    ("add_t0_t", "t0 + t"),
    ("add_xs_it", "xs + it"),
    ("add_add", "(e + e) + (xs + e)"),
    ("batch", "xs|batch(2)"),
    ("batch_row", "(xs|batch(2))[0]"),
    ("batch_fill", "xs|batch(2, 'x')"),
    ("batch_last", "(xs|batch(2, 'x'))[-1]"),
    ("slicef", "xs|slice(2)"),
    ("slicef_row", "(xs|slice(2))[1]"),
    ("items", "m|items"),
    ("items_pair", "(m|items)[0]"),
    ("dictsort", "m|dictsort"),
    ("dictsort_pair", "(m|dictsort(reverse=true))[0]"),
    ("zip", "xs|zip(t)"),
    ("zip_pair", "(xs|zip(t))[1]"),
    ("groupby", "recs|groupby('k')"),
    ("group", "(recs|groupby('k'))[0]"),
    ("group_list", "(recs|groupby('k'))[0].list"),
    ("group_1", "(recs|groupby('k'))[1][1]"),
    ("range5", "range(5)"),
    ("range_step", "range(0, 10, 3)"),
    ("range_down", "range(5, 0, -2)"),
    ("range_empty", "range(0)"),
    ("rev_xs", "xs|reverse"),
    ("rev_t", "t|reverse"),
    ("rev_s", "s|reverse"),
    ("rev_it", "it|reverse"),
    ("rev_ux", "ux|reverse"),
    ("rev_range", "range(4)|reverse"),
    ("rev_chain", "(e|chain(xs))|reverse"),
    ("list_xs", "xs|list"),
    ("list_s", "s|list"),
    ("list_m", "m|list"),
    ("list_ux", "ux|list"),
    ("map_str", "xs|map('string')"),
    ("map_attr", "recs|map(attribute='k')"),
    ("select", "xs|select('odd')"),
    ("reject", "range(6)|reject('odd')"),
    ("selectattr", "recs|selectattr('k')"),
    ("sort", "[3, 1, 2]|sort"),
    ("unique", "[1, 1, 2]|unique"),
    ("split", "'a,b,c'|split(',')"),
    ("lines", "'a\nb'|lines"),
    ("py_items", "m.items()"),
    ("py_keys", "m.keys()"),
    ("py_values", "m.values()"),
    ("py_split", "'a b c'.split()"),
    ("ser_tuple", "ser_tuple"),
    ("ser_struct_list", "ser_vec"),
    ("kwargs_items", "m|items|list"),
    ("slice_of_chain", "(e|chain(xs, t))[1:]"),
    ("slice_of_add", "(e + xs)[::-1]"),
    ("str", "s"),
    ("safe", "s|safe"),
    ("upper", "s|upper"),
    ("ns", "namespace(a=1)"),
    ("cycler", "cycler([1, 2])"),
    ("joiner", "joiner(',')"),
    ("dict", "dict(a=1)"),
    ("merge_ctx", "merged"),
];

fn derived_env(mode: &str) -> Environment<'static> {
    let mut env = Environment::new();
    env.set_undefined_behavior(mode_of(mode));
    minijinja_contrib::add_to_environment(&mut env);
    env.set_unknown_method_callback(minijinja_contrib::pycompat::unknown_method_callback);
    env
}

fn derived_ctx() -> Value {
    let mut m: BTreeMap<String, Value> = BTreeMap::new();
    m.insert("a".into(), Value::from(1));
    m.insert("b".into(), Value::from(2));
    let mut m2: BTreeMap<String, Value> = BTreeMap::new();
    m2.insert("c".into(), Value::from(3));
    let rec = |k: i64, v: i64| { let mut r: BTreeMap<String, Value> = BTreeMap::new(); r.insert("k".into(), Value::from(k)); r.insert("v".into(), Value::from(v)); Value::from(r) };
    context! {
        xs => vec![10, 20, 30],
        e => Vec::<i64>::new(),
        t => Value::from(Tuple::from(vec![Value::from(7), Value::from(8)])),
        t0 => Value::from(Tuple::from(Vec::<Value>::new())),
        s => "héy",
        m => Value::from(m),
        m2 => Value::from(m2),
        it => Value::make_iterable(|| 100..103i64),
        ux => Value::make_iterable(|| { let mut i = 0i64; std::iter::from_fn(move || if i < 3 { i += 1; Some(200 + i) } else { None }) }),
        recs => vec![rec(0, 1), rec(1, 2), rec(1, 3)],
        ser_tuple => Value::from(minijinja::value::Serde((1, "two", 3.5))),
        ser_vec => Value::from(minijinja::value::Serde(vec![(1, 2), (3, 4)])),
        merged => minijinja::value::merge_maps([Value::from(vec![1, 2, 3]), Value::from(vec![4, 5])]),
    }
}

fn dbg_val(v: &Value) -> String {
    if v.is_undefined() { "undef".into() } else { format!("{:?}", v).replace('\t', " ").replace('\n', " ") }
}

fn items_of(v: &Value) -> String {
    match v.try_iter() {
        Ok(it) => it.map(|x| dbg_val(&x)).collect::<Vec<_>>().join(" ¦ "),
        Err(e) => err_str(&e),
    }
}

fn derived_expr(id: &str) -> &'static str {
    DERIVED.iter().find(|(i, _)| *i == id).map(|(_, e)| *e).unwrap_or("undefined_name")
}

fn res_str(r: Result<Result<String, minijinja::Error>, String>) -> String {
    match r { Ok(Ok(s)) => s, Ok(Err(e)) => err_str(&e), Err(_) => "panic".into() }
}

fn run_dv(mode: &str, entry: &str, id: &str, key: &str) -> String {
    let x = derived_expr(id);
    let env = derived_env(mode);
    let ctxk = || { let c = derived_ctx(); context! { k => mk_spec(key), ..c } };
    let ev = |src: &str| res_str(guarded(|| env.compile_expression(src).and_then(|e| e.eval(ctxk())).map(|o| dbg_val(&o))));
    let lhs = match entry {
        "expr" => ev(&format!("({})[k]", x)),
        "attr" => ev(&format!("({})|attr(k)", x)),
        "tmpl" => {
            let mut env2 = derived_env(mode);
            env2.add_function("probe", |v: Value| -> String { PROBE.with(|p| *p.borrow_mut() = Some(dbg_val(&v))); String::new() });
            PROBE.with(|p| *p.borrow_mut() = None);
            match guarded(|| env2.render_str(&format!("{{% for q in [1] %}}{{{{ probe(({})[k]) }}}}{{% endfor %}}", x), ctxk())) {
                Ok(Ok(_)) => PROBE.with(|p| p.borrow_mut().take()).unwrap_or_else(|| "no-probe".into()),
                Ok(Err(e)) => err_str(&e),
                Err(_) => "panic".into(),
            }
        }
        "api" => res_str(guarded(|| env.compile_expression(x).and_then(|e| e.eval(ctxk())).and_then(|o| o.get_item(&mk_spec(key))).map(|o| dbg_val(&o)))),
        "apiidx" => {
            let idx = key.split_once(':').unwrap().1.parse::<u64>().unwrap() as usize;
            res_str(guarded(|| env.compile_expression(x).and_then(|e| e.eval(ctxk())).and_then(|o| o.get_item_by_index(idx)).map(|o| dbg_val(&o))))
        }
        _ => "bad-entry".into(),
    };
    let rhs = ev(&format!("(({})|list)[k]", x));
    let kind = res_str(guarded(|| env.compile_expression(x).and_then(|e| e.eval(ctxk())).map(|o| o.kind().to_string())));
    let mat = res_str(guarded(|| env.compile_expression(&format!("({})|list", x)).and_then(|e| e.eval(ctxk())).map(|o| items_of(&o))));
    format!("{}~~{}~~{}~~{}", lhs, rhs, kind, mat)
}

fn run_ds(mode: &str, id: &str, a: &str, b: &str, c: &str) -> String {
    let x = derived_expr(id);
    let env = derived_env(mode);
    let ctxk = || { let cx = derived_ctx(); context! { a => mk_spec(a), b => mk_spec(b), c => mk_spec(c), ..cx } };
    let ev = |src: &str| res_str(guarded(|| env.compile_expression(src).and_then(|e| e.eval(ctxk())).map(|o| {
        if o.kind() == ValueKind::String { o.as_str().unwrap().chars().map(|c| dbg_val(&Value::from(c))).collect::<Vec<_>>().join(" ¦ ") } else { items_of(&o) }
    })));
    let lhs = ev(&format!("({})[a:b:c]", x));
    let rhs = ev(&format!("(({})|list)[a:b:c]", x));
    let kind = res_str(guarded(|| env.compile_expression(x).and_then(|e| e.eval(ctxk())).map(|o| o.kind().to_string())));
    let mat = res_str(guarded(|| env.compile_expression(&format!("({})|list", x)).and_then(|e| e.eval(ctxk())).map(|o| items_of(&o))));
    format!("{}~~{}~~{}~~{}", lhs, rhs, kind, mat)
}

/// `mg <lens> <types> <entry> <i>`: operands hold consecutive numbers 0,1,2,…
fn run_mg(lens: &str, types: &str, entry: &str, i: &str) -> String {
    let lens: Vec<usize> = lens.split(',').filter(|x| !x.is_empty()).map(|x| x.parse().unwrap()).collect();
    let mut next = 0i64;
    let mut ops = Vec::new();
    for (n, ty) in lens.iter().zip(types.chars()) {
        let items: Vec<Value> = (0..*n).map(|_| { next += 1; Value::from(next - 1) }).collect();
        ops.push(if ty == 'P' { Value::from(Tuple::from(items)) } else { Value::from(items) });
    }
    let names = ["a", "b", "c", "d"];
    let src = format!("{}|chain({})", names[0], names[1..ops.len()].join(", "));
    let mut it = ops.into_iter();
    let ctx = context! { a => it.next().unwrap_or_default(), b => it.next().unwrap_or_default(), c => it.next().unwrap_or_default(), d => it.next().unwrap_or_default(), k => mk_spec(i) };
    let env = Environment::new();
    let show = |o: Value| if o.is_undefined() { "undef".to_string() } else { format!("elem:{}", o) };
    res_str(guarded(|| {
        let x = env.compile_expression(&src)?.eval(ctx.clone())?;
        if x.kind() != ValueKind::Seq { return Ok(format!("not-seq:{}", x.kind())); }
        match entry {
            "expr" => Ok(show(env.compile_expression(&format!("({})[k]", src))?.eval(ctx.clone())?)),
            "attr" => Ok(show(env.compile_expression(&format!("({})|attr(k)", src))?.eval(ctx.clone())?)),
            "api" => Ok(show(x.get_item(&mk_spec(i))?)),
            _ => Ok("bad-entry".into()),
        }
    }))
}

fn gen_derived(out: &mut impl Write, thorough: bool) {
    // ---- MergeSeq: all operand-length vectors (1..=4 operands, lengths 0..=3) x every index
    for nops in 1..=4usize {
        let total = 4usize.pow(nops as u32);
        for code in 0..total {
            let lens: Vec<usize> = (0..nops).map(|p| (code / 4usize.pow(p as u32)) % 4).collect();
            let sum: i64 = lens.iter().sum::<usize>() as i64;
            let ls = lens.iter().map(|x| x.to_string()).collect::<Vec<_>>().join(",");
            for types in [&"LLLL"[..nops], &"PLPL"[..nops]] {
                for i in (-sum - 2)..=(sum + 1) {
                    for entry in ["expr", "attr", "api"] {
                        if !thorough && nops == 4 && entry != "expr" { continue; }
                        let k = format!("i:{}", i);
                        writeln!(out, "mg {} {} {} {}\t{}", ls, types, entry, k, run_mg(&ls, types, entry, &k)).unwrap();
                    }
                }
                for k in ["T", "F", "u:0", "I:-1", "u:9223372036854775808", "I:-9223372036854775809"].into_iter().chain(std::iter::once(fb(0.0).as_str())).chain(std::iter::once(fb(-1.0).as_str())) {
                    writeln!(out, "mg {} {} expr {}\t{}", ls, types, k, run_mg(&ls, types, "expr", k)).unwrap();
                }
            }
        }
    }
    // ---- derived values x keys x entries
    let mut keys: Vec<String> = (-7..=7i64).map(|i| format!("i:{}", i)).collect();
    for k in ["T", "F", "u:0", "u:2", "I:-1", "I:1", "W:0", "u:9223372036854775808", "I:-9223372036854775809", "U", "Z", "sm:30", "sm:6b"] { keys.push(k.to_string()); }
    for f in [0.0, 1.0, -1.0, 2.0, 0.5] { keys.push(fb(f)); }
    for (id, _) in DERIVED {
        for k in &keys {
            for (mode, entry) in [("L", "expr"), ("X", "expr"), ("L", "attr"), ("L", "api"), ("C", "tmpl"), ("L", "apiidx")] {
                if entry == "apiidx" && !k.starts_with("u:") { continue; }
                writeln!(out, "dv {} {} {} {}\t{}", mode, entry, id, k, run_dv(mode, entry, id, k)).unwrap();
            }
        }
        let bs = ["_", "i:0", "i:1", "i:2", "i:-1", "i:-2", "i:5", "i:-9", "T", "u:9223372036854775808"];
        let cs = ["_", "i:1", "i:2", "i:-1", "i:-2", "i:0"];
        for a in bs { for b in bs { for c in cs {
            writeln!(out, "ds L {} {} {} {}\t{}", id, a, b, c, run_ds("L", id, a, b, c)).unwrap();
        } } }
    }
}

fn main() {
    quiet_panics();
    let args: Vec<String> = std::env::args().collect();
    let env = Environment::new();
    let out = std::io::stdout();
    let mut out = std::io::BufWriter::new(out.lock());
    match args.get(1).map(|s| s.as_str()) {
        Some("gen") => {
            let thorough = args.get(2).map(|s| s == "thorough").unwrap_or(false);
            let ss = bounds(-9..=9);
            let steps = bounds(-4..=4);
            let forms: &[&str] = if thorough { &["var", "lit"] } else { &["var"] };
            for kind in KINDS {
                for len in 0..=6usize {
                    if (kind == "undef" || kind == "none") && len > 0 {
                        continue;
                    }
                    for form in forms {
                        for a in &ss {
                            for b in &ss {
                                for c in &steps {
                                    // the quick tier enumerates literal forms only on a sub-box
                                    let r = run_slice(&env, kind, len, a, b, c, form);
                                    writeln!(out, "slice {} {} {} {} {} {}\t{}", kind, len, a, b, c, form, r).unwrap();
                                }
                            }
                        }
                        for i in &ss {
                            if i == "_" {
                                continue;
                            }
                            let r = run_index(&env, kind, len, i, form);
                            writeln!(out, "index {} {} {} {}\t{}", kind, len, i, form, r).unwrap();
                        }
                    }
                }
            }
            // ---- chain stream: longer sequences, more kinds, slices of slices, subscripts of slices
            {
                let mut rng = Rng::new(seed_from_env() ^ 0x0c09);
                let n = if thorough { 400_000 } else { 60_000 };
                let kinds = ["strplain", "strsmall", "strsafe", "bytes", "list", "tuple", "itersized",
                             "iterunsized", "range", "oneshot", "deque"];
                for _ in 0..n {
                    let kind = *rng.pick(&kinds);
                    let len = if rng.chance(1, 3) { rng.below(7) as usize } else { 7 + rng.below(34) as usize };
                    // a quarter of the cases is a bare subscript (every kind, incl. one-shot
                    // iterators: a non-negative subscript must not drain the iterator first)
                    if rng.chance(1, 4) {
                        let i = if kind == "oneshot" {
                            rng.below(len as u64 + 3) as i64
                        } else {
                            rng.below(2 * len as u64 + 5) as i64 - len as i64 - 2
                        };
                        let suffix = format!("[{}]", i);
                        let r = run_chain(&env, kind, len, &suffix);
                        writeln!(out, "chain {} {} {}\t{}", kind, len, suffix, r).unwrap();
                        continue;
                    }
                    let mut suffix = rnd_slice(&mut rng, len);
                    // one-shot iterators can be iterated once: a single op only
                    if kind != "oneshot" {
                        if rng.chance(1, 2) { suffix.push_str(&rnd_slice(&mut rng, len)); }
                        if rng.chance(1, 3) {
                            suffix.push_str(&format!("[{}]", rng.below(2 * len as u64 + 5) as i64 - len as i64 - 2));
                        }
                    }
                    let r = run_chain(&env, kind, len, &suffix);
                    writeln!(out, "chain {} {} {}\t{}", kind, len, suffix, r).unwrap();
                }
            }
            gen_glue(&mut out, thorough);
            gen_long(&mut out, thorough);
            gen_meta(&mut out, thorough);
            gen_derived(&mut out, thorough);
            if !thorough {
                // literal forms on a sub-box (the parser's negative-literal path)
                for kind in ["strsmall", "list", "tuple"] {
                    for len in [0usize, 3, 5] {
                        for a in ["_", "-7", "-2", "0", "1", "4", "9", "-9223372036854775808", "9223372036854775807"] {
                            for b in ["_", "-7", "-1", "0", "2", "5", "-9223372036854775808", "9223372036854775807"] {
                                for c in ["_", "-3", "-1", "1", "2", "0", "-9223372036854775808", "9223372036854775807"] {
                                    let r = run_slice(&env, kind, len, a, b, c, "lit");
                                    writeln!(out, "slice {} {} {} {} {} lit\t{}", kind, len, a, b, c, r).unwrap();
                                }
                            }
                        }
                    }
                }
            }
        }
        Some("one") => {
            let f: Vec<&str> = args[2..].iter().map(|s| s.as_str()).collect();
            let r = match f[0] {
                "slice" => run_slice(&env, f[1], f[2].parse().unwrap(), f[3], f[4], f[5], f[6]),
                "index" => run_index(&env, f[1], f[2].parse().unwrap(), f[3], f[4]),
                "chain" => run_chain(&env, f[1], f[2].parse().unwrap(), f[3]),
                "gs" => run_gs(f[1], f[2], f[3], f[4], f[5], f[6]),
                "gi" => run_gi(f[1], f[2], f[3], f[4]),
                "ga" => run_ga(f[1], f[2], f[3], f[4]),
                "long" => run_long(f[1], f[2].parse().unwrap(), f[3], f[4], f[5]),
                "mg" => run_mg(f[1], f[2], f[3], f[4]),
                "dv" => run_dv(f[1], f[2], f[3], f[4]),
                "ds" => run_ds(f[1], f[2], f[3], f[4], f[5]),
                "meta" => run_meta(f[1], f[2], f[3].parse().unwrap(), f[4], f[5], f[6]),
                _ => "bad-case".into(),
            };
            writeln!(out, "{}\t{}", f.join(" "), r).unwrap();
        }
        _ => {
            eprintln!("usage: c09 gen <quick|thorough> | c09 one <case>");
            std::process::exit(2);
        }
    }
}
