use minijinja::{context, Environment, Value};
fn main() {
    let args: Vec<String> = std::env::args().collect();
    let mut env = Environment::new();
    minijinja_contrib::add_to_environment(&mut env);
    let src = args[2].clone();
    env.add_template_owned("t.html".to_string(), src).unwrap();
    env.add_template_owned("i.html".to_string(), "[{{ d }}]".to_string()).unwrap();
    let t = env.get_template("t.html").unwrap();
    let r = t.render(context! { d => "<α>\"β'&", s => Value::from_safe_string("<b>".into()), xs => vec!["<a>", "b&"], n => 60 });
    println!("{:?}", r);
}
