//! C02 correspondence harness: HTML auto-escaping / safe-bit provenance.
//!
//! usage: c02 gen <quick|thorough>   — one line per case: `<case json>\t<engine result>`
//!        c02 one '<case json>'       — replay one case verbosely
//!
//! Streams (field "s" of the case json):
//!   F  one filter/operator call with an exact Lean model  (result value compared with the model)
//!   C  one filter/function call checked against its safety class only
//!   G  table-driven: EVERY registered callable (filters, tests, functions, pycompat methods; names read
//!      from stdin = the table regenerated from the sources) on Safe/Normal x metacharacter / escaped-entity
//!      bearing subjects and argument shapes; only successful calls are printed, errors are summarised
//!      per callable in a `G#` line
//!   P  generated program: templates + context + the program AST as S-expression for the Lean
//!      interpreter `execProg` (outputs compared)
//!      (import-as-module / from-import with aliases, library variables, libraries and parents whose names
//!      select other modes, child statements outside blocks, all autoescape values, custom callback / formatter)
//!   W  the body of a P program wrapped in a capture construct must render identically
//!   T  every way a value, a macro or output crosses between two templates x the modes their names select
//!   B  `render_captured` + `State::render_block`
//!   E  `Environment::compile_expression` + `Expression::eval`: the value with its Safe bits
//!   R  `Environment::set_formatter` (documented wrapper) on every printing path; `AutoEscape::Custom`
//!   M  mode probes: capture inside an `autoescape` region, printed under Html
//!   N  template-name → initial auto-escape
//!   K  values of every kind (bytes valid/invalid UTF-8, floats, 128-bit integers, objects, containers
//!      of them) through every printing path, as AST programs
//!   X  upper/lower/capitalize over all Unicode scalar values create no metacharacter
//!
//! Strings are written as decimal code points joined by `.` (`-` = empty); values as
//! `S1:<cps>` (safe string) `S0:<cps>` `I:<n>` `B:<0|1>` `N` `U` `L(v;v;…)` `M(<cps>=v;…)` `F:<cps>` `O:<cps>`.
use minijinja::value::{Value, ValueKind};
use minijinja::Environment;
use mjh::*;
use serde_json::json;
use std::collections::BTreeMap;
use std::io::Write;
use std::sync::Mutex;

static PROBE: Mutex<Option<Value>> = Mutex::new(None);

/// an object that is neither a sequence nor a map; `render` writes the given text
#[derive(Debug)]
struct TextObj(String);
impl minijinja::value::Object for TextObj {
    fn repr(self: &std::sync::Arc<Self>) -> minijinja::value::ObjectRepr {
        minijinja::value::ObjectRepr::Plain
    }
    fn render(self: &std::sync::Arc<Self>, f: &mut std::fmt::Formatter<'_>) -> std::fmt::Result {
        f.write_str(&self.0)
    }
}

fn enc_bytes(b: &[u8]) -> String {
    if b.is_empty() { "-".into() } else { b.iter().map(|x| x.to_string()).collect::<Vec<_>>().join(",") }
}

fn mk_env() -> Environment<'static> {
    let mut env = Environment::new();
    minijinja_contrib::add_to_environment(&mut env);
    env.set_unknown_method_callback(minijinja_contrib::pycompat::unknown_method_callback);
    env.add_function("probe", |v: Value| -> String {
        *PROBE.lock().unwrap() = Some(v);
        String::new()
    });
    env
}

// ------------------------------------------------------------------------------- encoding
fn enc_str(s: &str) -> String {
    if s.is_empty() {
        "-".into()
    } else {
        s.chars().map(|c| (c as u32).to_string()).collect::<Vec<_>>().join(".")
    }
}

fn dec_str(s: &str) -> String {
    if s == "-" || s.is_empty() {
        String::new()
    } else {
        s.split('.').map(|t| char::from_u32(t.parse().unwrap()).unwrap()).collect()
    }
}

fn enc_value(v: &Value) -> String {
    if v.is_undefined() {
        return "U".into();
    }
    if v.is_none() {
        return "N".into();
    }
    match v.kind() {
        ValueKind::String => format!("S{}:{}", if v.is_safe() { 1 } else { 0 }, enc_str(v.as_str().unwrap())),
        ValueKind::Bool => format!("B:{}", if v.is_true() { 1 } else { 0 }),
        ValueKind::Number => {
            if v.is_integer() {
                format!("I:{}", v)
            } else {
                format!("F:{}", enc_str(&v.to_string()))
            }
        }
        ValueKind::Seq | ValueKind::Iterable => match v.try_iter() {
            Ok(it) => format!("L({})", it.map(|x| enc_value(&x)).collect::<Vec<_>>().join(";")),
            Err(_) => "O:-".into(),
        },
        ValueKind::Map => match v.try_iter() {
            Ok(it) => {
                let mut items: Vec<String> = it
                    .map(|k| {
                        let val = v.get_item(&k).unwrap_or(Value::UNDEFINED);
                        format!("{}={}", enc_value(&k), enc_value(&val))
                    })
                    .collect();
                items.sort();
                format!("M({})", items.join(";"))
            }
            Err(_) => "O:-".into(),
        },
        ValueKind::Bytes => format!("Y:{}", enc_bytes(v.as_bytes().unwrap())),
        _ => format!("O:{}", enc_str(&v.to_string())),
    }
}

struct P<'a> {
    s: &'a [u8],
    i: usize,
}

impl<'a> P<'a> {
    fn peek(&self) -> u8 {
        if self.i < self.s.len() { self.s[self.i] } else { 0 }
    }
    fn token(&mut self) -> String {
        let st = self.i;
        while self.i < self.s.len() && !matches!(self.s[self.i], b';' | b')' | b'=' | b'(') {
            self.i += 1;
        }
        String::from_utf8(self.s[st..self.i].to_vec()).unwrap()
    }
    fn value(&mut self) -> Value {
        let t = self.token();
        if t == "L" && self.peek() == b'(' {
            self.i += 1;
            let mut xs = vec![];
            while self.peek() != b')' {
                xs.push(self.value());
                if self.peek() == b';' {
                    self.i += 1;
                }
            }
            self.i += 1;
            return Value::from(xs);
        }
        if t == "M" && self.peek() == b'(' {
            self.i += 1;
            let mut m: BTreeMap<String, Value> = BTreeMap::new();
            while self.peek() != b')' {
                let k = self.token();
                assert_eq!(self.peek(), b'=');
                self.i += 1;
                let v = self.value();
                m.insert(dec_str(&k), v);
                if self.peek() == b';' {
                    self.i += 1;
                }
            }
            self.i += 1;
            return Value::from(m);
        }
        if let Some(r) = t.strip_prefix("S1:") {
            return Value::from_safe_string(dec_str(r));
        }
        if let Some(r) = t.strip_prefix("S0:") {
            return Value::from(dec_str(r));
        }
        if let Some(r) = t.strip_prefix("I:") {
            return match r.parse::<i64>() {
                Ok(n) => Value::from(n),
                Err(_) => match r.parse::<i128>() {
                    Ok(n) => Value::from(n),
                    Err(_) => Value::from(r.parse::<u128>().unwrap()),
                },
            };
        }
        if let Some(r) = t.strip_prefix("F:") {
            return Value::from(dec_str(r).parse::<f64>().unwrap());
        }
        if let Some(r) = t.strip_prefix("Y:") {
            let b: Vec<u8> = if r == "-" { vec![] } else { r.split(',').map(|x| x.parse().unwrap()).collect() };
            return Value::from_bytes(b);
        }
        if let Some(r) = t.strip_prefix("O:") {
            return Value::from_object(TextObj(dec_str(r)));
        }
        if let Some(r) = t.strip_prefix("B:") {
            return Value::from(r == "1");
        }
        match t.as_str() {
            "N" => Value::from(()),
            "U" => Value::UNDEFINED,
            _ => panic!("bad value encoding {t}"),
        }
    }
}

fn dec_value(s: &str) -> Value {
    P { s: s.as_bytes(), i: 0 }.value()
}

// ------------------------------------------------------------------------------- running
fn err_kind(e: &minijinja::Error) -> String {
    if std::env::var("C02_VERBOSE").is_ok() {
        eprintln!("{:#}", e);
    }
    let mut k = error_kind_name(e);
    let mut src: Option<&dyn std::error::Error> = std::error::Error::source(e);
    while let Some(s) = src {
        if let Some(me) = s.downcast_ref::<minijinja::Error>() {
            k = error_kind_name(me);
        }
        src = s.source();
    }
    format!("ERR:{}", k)
}

/// what to do with the environment: `Template::render`, `render_captured` + `State::render_block`,
/// `Expression::eval` (the value is put into PROBE)
enum Entry {
    /// how: `render` | `captured` (render_captured + into_output) | `captured_to` (render_captured_to an io::Write) |
    /// `named_str` (Environment::render_named_str: the main template compiled as an OWNED template)
    Render(String),
    Block(String),
    Expr(String),
    /// `Template::new_state` (no render; the context values are globals) + `State::render_block` /
    /// `render_block_to_write`
    NewStateBlock(String, bool),
    /// `render_captured` + `State::call_macro(name, [d])`
    Macro(String),
}

/// templates + context → rendered main template or error kind
fn render(templates: &BTreeMap<String, String>, main: &str, ctx: &BTreeMap<String, String>, modes: &BTreeMap<String, String>, fmt: &str, join: Option<&BTreeMap<String, String>>, loader: &str, entry: &Entry) -> Result<String, String> {
    let mut env = mk_env();
    if let Some(join) = join {
        // `Environment::set_path_join_callback`: references are aliases that resolve to registered names
        let join = join.clone();
        env.set_path_join_callback(move |name, _parent| match join.get(name) {
            Some(n) => std::borrow::Cow::Owned(n.clone()),
            None => std::borrow::Cow::Borrowed(name),
        });
    }
    if !modes.is_empty() {
        // `Environment::set_auto_escape_callback`: the custom callback decides some names, the default the rest
        let modes = modes.clone();
        env.set_auto_escape_callback(move |name| match modes.get(name).map(|s| s.as_str()) {
            Some("h") => minijinja::AutoEscape::Html,
            Some("n") => minijinja::AutoEscape::None,
            Some("j") => minijinja::AutoEscape::Json,
            _ => minijinja::default_auto_escape_callback(name),
        });
    }
    if fmt == "noneundef" {
        // the wrapper documented at `Environment::set_formatter`
        env.set_formatter(|out, state, value| {
            minijinja::escape_formatter(out, state, if value.is_none() { &Value::UNDEFINED } else { value })
        });
    }
    if loader == "loader" {
        // `Environment::set_loader`: the templates are compiled on demand (the name still selects the mode)
        let map = templates.clone();
        env.set_loader(move |name| Ok(map.get(name).cloned()));
    } else if loader == "borrowed" {
        // `Environment::add_template` with borrowed sources (the harness leaks them: a few kB per case)
        for (n, s) in templates {
            let n: &'static str = Box::leak(n.clone().into_boxed_str());
            let s: &'static str = Box::leak(s.clone().into_boxed_str());
            env.add_template(n, s).map_err(|e| format!("ERR:{}", error_kind_name(&e)))?;
        }
    } else {
        for (n, s) in templates {
            env.add_template_owned(n.clone(), s.clone()).map_err(|e| format!("ERR:{}", error_kind_name(&e)))?;
        }
    }
    let c: BTreeMap<String, Value> = ctx.iter().map(|(k, v)| (k.clone(), dec_value(v))).collect();
    if let Entry::NewStateBlock(..) = entry {
        for (k, v) in &c {
            env.add_global(k.clone(), v.clone());
        }
    }
    match entry {
        Entry::Render(how) => {
            if how == "named_str" {
                let src = templates.get(main).ok_or_else(|| "ERR:TemplateNotFound".to_string())?;
                return env.render_named_str(main, src, Value::from(c)).map_err(|e| err_kind(&e));
            }
            let t = env.get_template(main).map_err(|e| format!("ERR:{}", error_kind_name(&e)))?;
            match how.as_str() {
                "captured" => t.render_captured(Value::from(c)).map(|cap| cap.into_output()).map_err(|e| err_kind(&e)),
                "captured_to" => {
                    let mut buf: Vec<u8> = Vec::new();
                    t.render_captured_to(Value::from(c), &mut buf).map_err(|e| err_kind(&e))?;
                    Ok(String::from_utf8_lossy(&buf).into_owned())
                }
                _ => t.render(Value::from(c)).map_err(|e| err_kind(&e)),
            }
        }
        Entry::NewStateBlock(b, to_write) => {
            let t = env.get_template(main).map_err(|e| format!("ERR:{}", error_kind_name(&e)))?;
            let mut st = t.new_state();
            if *to_write {
                let mut buf: Vec<u8> = Vec::new();
                st.render_block_to_write(b, &mut buf).map_err(|e| err_kind(&e))?;
                Ok(String::from_utf8_lossy(&buf).into_owned())
            } else {
                st.render_block(b).map_err(|e| err_kind(&e))
            }
        }
        Entry::Macro(name) => {
            let t = env.get_template(main).map_err(|e| format!("ERR:{}", error_kind_name(&e)))?;
            let arg = c.get("d").cloned().unwrap_or(Value::UNDEFINED);
            let mut cap = t.render_captured(Value::from(c)).map_err(|e| err_kind(&e))?;
            let full = cap.output().to_string();
            let m = cap.with_state_mut(|st| st.call_macro(name, &[arg])).map_err(|e| err_kind(&e))?;
            Ok(full + &m)
        }
        Entry::Block(b) => {
            let t = env.get_template(main).map_err(|e| format!("ERR:{}", error_kind_name(&e)))?;
            let mut cap = t.render_captured(Value::from(c)).map_err(|e| err_kind(&e))?;
            let full = cap.output().to_string();
            let blk = cap.with_state_mut(|st| st.render_block(b)).map_err(|e| err_kind(&e))?;
            Ok(full + &blk)
        }
        Entry::Expr(src) => {
            let ex = env.compile_expression(src).map_err(|e| format!("ERR:{}", error_kind_name(&e)))?;
            let v = ex.eval(Value::from(c)).map_err(|e| err_kind(&e))?;
            *PROBE.lock().unwrap() = Some(v);
            Ok(String::new())
        }
    }
}

fn run_case(case: &serde_json::Value) -> String {
    let s = case["s"].as_str().unwrap();
    let templates: BTreeMap<String, String> = case["t"]
        .as_object()
        .map(|o| o.iter().map(|(k, v)| (k.clone(), v.as_str().unwrap().to_string())).collect())
        .unwrap_or_default();
    let ctx: BTreeMap<String, String> = case["ctx"]
        .as_object()
        .map(|o| o.iter().map(|(k, v)| (k.clone(), v.as_str().unwrap().to_string())).collect())
        .unwrap_or_default();
    let main = case["main"].as_str().unwrap_or("main.html").to_string();
    let modes: BTreeMap<String, String> = case["modes"]
        .as_object()
        .map(|o| o.iter().map(|(k, v)| (k.clone(), v.as_str().unwrap().to_string())).collect())
        .unwrap_or_default();
    let fmt = case["fmt"].as_str().unwrap_or("default").to_string();
    let join: Option<BTreeMap<String, String>> = case["join"]
        .as_object()
        .map(|o| o.iter().map(|(k, v)| (k.clone(), v.as_str().unwrap().to_string())).collect());
    let loader = case["source"].as_str().unwrap_or("owned").to_string();
    let entry = if let Some(b) = case["block"].as_str() {
        Entry::Block(b.to_string())
    } else if let Some(b) = case["nsblock"].as_str() {
        Entry::NewStateBlock(b.to_string(), case["towrite"].as_bool().unwrap_or(false))
    } else if let Some(m) = case["callmacro"].as_str() {
        Entry::Macro(m.to_string())
    } else if let Some(e) = case["exprsrc"].as_str() {
        Entry::Expr(e.to_string())
    } else {
        Entry::Render(case["entry"].as_str().unwrap_or("render").to_string())
    };
    *PROBE.lock().unwrap() = None;
    let r = guarded(|| render(&templates, &main, &ctx, &modes, &fmt, join.as_ref(), &loader, &entry));
    match r {
        Err(p) => format!("PANIC:{}", enc_str(&p)),
        Ok(Err(e)) => e,
        Ok(Ok(out)) => {
            if s == "F" || s == "C" || s == "G" || s == "E" {
                match PROBE.lock().unwrap().take() {
                    Some(v) => format!("OK\t{}\t-", enc_value(&v)),
                    None => "ERR:NoProbe".into(),
                }
            } else {
                format!("OK\t-\t{}", enc_str(&out))
            }
        }
    }
}

// ------------------------------------------------------------------------------- stream F / C
/// metacharacters per pass: pass 0 data = `" '`, markup = `< >`; pass 1 swapped
fn metas(pass: usize) -> ((char, char), (char, char)) {
    if pass == 0 { (('"', '\''), ('<', '>')) } else { (('<', '>'), ('"', '\'')) }
}

fn subst(t: &str, pass: usize) -> String {
    let ((q1, q2), (k1, k2)) = metas(pass);
    t.chars()
        .map(|c| match c {
            'Q' => q1,
            'q' => q2,
            'K' => k1,
            'k' => k2,
            '‹' => '{',
            '›' => '}',
            'ǫ' => 'q', // a literal `q` (as in `&quot;`) that is not the data-metacharacter placeholder
            c => c,
        })
        .collect()
}

/// generic string slots: (data content, markup content); Q q = data metacharacters, K k = markup ones
const GD: [&str; 5] = ["QαqβQ α&", "α", "qβ&Q", " Qα\nβq \n", ""];
const GM: [&str; 5] = ["KbkαK/bk", "α", "Kik β", " KαK\n\nβk ", ""];

#[derive(Clone)]
enum Arg {
    Slot(usize),
    SlotC(usize, String, String), // custom content (data form, markup form)
    Fixed(String, bool),          // fixed string, safe?
    Int(i64),
    /// already encoded value with Q q K k placeholders resolved per pass: bytes / float / object / big integer
    Kind(String, String),
    Bool(bool),
    None,
    Undef,
    List(Vec<Arg>),
    Map(Vec<(String, Arg)>),
}

/// arg DSL: s<i> | c<i>{data|markup} | n{text} | k{text} | I:<n> | B:<b> | N | U | L(..;..) | M(key=..;..)
struct AP<'a> {
    s: &'a [u8],
    i: usize,
}
impl<'a> AP<'a> {
    fn peek(&self) -> u8 {
        if self.i < self.s.len() { self.s[self.i] } else { 0 }
    }
    fn braces(&mut self) -> String {
        assert_eq!(self.peek(), b'{');
        self.i += 1;
        let st = self.i;
        while self.s[self.i] != b'}' {
            self.i += 1;
        }
        let r = String::from_utf8(self.s[st..self.i].to_vec()).unwrap();
        self.i += 1;
        r
    }
    fn ident(&mut self) -> String {
        let st = self.i;
        while self.i < self.s.len() && !matches!(self.s[self.i], b';' | b')' | b'=' | b'(' | b'{') {
            self.i += 1;
        }
        String::from_utf8(self.s[st..self.i].to_vec()).unwrap()
    }
    fn arg(&mut self) -> Arg {
        let t = self.ident();
        if t == "L" {
            self.i += 1;
            let mut xs = vec![];
            while self.peek() != b')' {
                xs.push(self.arg());
                if self.peek() == b';' {
                    self.i += 1;
                }
            }
            self.i += 1;
            return Arg::List(xs);
        }
        if t == "M" {
            self.i += 1;
            let mut xs = vec![];
            while self.peek() != b')' {
                let k = self.ident();
                self.i += 1;
                xs.push((k, self.arg()));
                if self.peek() == b';' {
                    self.i += 1;
                }
            }
            self.i += 1;
            return Arg::Map(xs);
        }
        if t == "YV" || t == "YI" || t == "OB" || t == "FL" || t == "BIG" {
            return Arg::Kind(t, self.braces());
        }
        if t == "n" {
            return Arg::Fixed(self.braces(), false);
        }
        if t == "k" {
            return Arg::Fixed(self.braces(), true);
        }
        if let Some(r) = t.strip_prefix('c') {
            let b = self.braces();
            let (d, m) = b.split_once('|').unwrap();
            return Arg::SlotC(r.parse().unwrap(), d.to_string(), m.to_string());
        }
        if let Some(r) = t.strip_prefix('s') {
            return Arg::Slot(r.parse().unwrap());
        }
        if let Some(r) = t.strip_prefix("I:") {
            return Arg::Int(r.parse().unwrap());
        }
        if let Some(r) = t.strip_prefix("B:") {
            return Arg::Bool(r == "1");
        }
        match t.as_str() {
            "N" => Arg::None,
            "U" => Arg::Undef,
            _ => panic!("bad arg dsl {t}"),
        }
    }
}
fn parse_arg(s: &str) -> Arg {
    AP { s: s.as_bytes(), i: 0 }.arg()
}

fn slots_of(a: &Arg, out: &mut Vec<usize>) {
    match a {
        Arg::Slot(i) | Arg::SlotC(i, _, _) => {
            if !out.contains(i) {
                out.push(*i)
            }
        }
        Arg::List(xs) => xs.iter().for_each(|x| slots_of(x, out)),
        Arg::Map(xs) => xs.iter().for_each(|(_, x)| slots_of(x, out)),
        _ => {}
    }
}

/// encoded value of an arg under a safety assignment (bit i of `mask` = slot i is Safe markup)
fn arg_enc(a: &Arg, mask: u32, pass: usize, variant: usize) -> String {
    match a {
        Arg::Slot(i) => {
            let safe = mask >> i & 1 == 1;
            let idx = (i + variant) % 5;
            let t = subst(if safe { GM[idx] } else { GD[idx] }, pass);
            format!("S{}:{}", safe as u8, enc_str(&t))
        }
        Arg::SlotC(i, d, m) => {
            let safe = mask >> i & 1 == 1;
            format!("S{}:{}", safe as u8, enc_str(&subst(if safe { m } else { d }, pass)))
        }
        Arg::Fixed(t, safe) => format!("S{}:{}", *safe as u8, enc_str(&subst(t, pass))),
        Arg::Int(n) => format!("I:{n}"),
        Arg::Kind(k, text) => {
            let t = subst(text, pass);
            match k.as_str() {
                "YV" => format!("Y:{}", enc_bytes(t.as_bytes())),
                "YI" => {
                    // not valid UTF-8: a stray 0xFF in front, a lone lead byte and a stray continuation byte behind
                    let mut b = vec![0xFFu8];
                    b.extend_from_slice(t.as_bytes());
                    b.extend_from_slice(&[0xC3, 0x28, 0x80]);
                    format!("Y:{}", enc_bytes(&b))
                }
                "OB" => format!("O:{}", enc_str(&t)),
                "FL" => format!("F:{}", enc_str(&t)),
                _ => format!("I:{t}"),
            }
        }
        Arg::Bool(b) => format!("B:{}", *b as u8),
        Arg::None => "N".into(),
        Arg::Undef => "U".into(),
        Arg::List(xs) => format!("L({})", xs.iter().map(|x| arg_enc(x, mask, pass, variant)).collect::<Vec<_>>().join(";")),
        Arg::Map(xs) => format!(
            "M({})",
            xs.iter().map(|(k, x)| format!("{}={}", enc_str(k), arg_enc(x, mask, pass, variant))).collect::<Vec<_>>().join(";")
        ),
    }
}

/// model steps that build an encoded value; returns the register
fn model_build(enc: &str, steps: &mut Vec<String>, nreg: &mut usize) -> Option<usize> {
    fn go(p: &mut P, steps: &mut Vec<String>, nreg: &mut usize) -> Option<usize> {
        let t = p.token();
        if t == "L" && p.peek() == b'(' {
            p.i += 1;
            let mut rs = vec![];
            while p.peek() != b')' {
                rs.push(go(p, steps, nreg)?);
                if p.peek() == b';' {
                    p.i += 1;
                }
            }
            p.i += 1;
            steps.push(format!("L {}", if rs.is_empty() { "-".into() } else { rs.iter().map(|r| r.to_string()).collect::<Vec<_>>().join(",") }));
            *nreg += 1;
            return Some(*nreg - 1);
        }
        if t == "M" && p.peek() == b'(' {
            p.i += 1;
            let mut kis = vec![];
            while p.peek() != b')' {
                let k = p.token();
                p.i += 1;
                let r = go(p, steps, nreg)?;
                kis.push(format!("{}={}", if k.is_empty() { "-".to_string() } else { k }, r));
                if p.peek() == b';' {
                    p.i += 1;
                }
            }
            p.i += 1;
            steps.push(format!("K {}", if kis.is_empty() { "-".into() } else { kis.join(",") }));
            *nreg += 1;
            return Some(*nreg - 1);
        }
        if let Some(r) = t.strip_prefix("S1:") {
            steps.push(format!("D {r}"));
            steps.push(format!("A safe h {} -", *nreg));
            *nreg += 2;
            return Some(*nreg - 1);
        }
        let st = if let Some(r) = t.strip_prefix("S0:") {
            format!("D {r}")
        } else if let Some(r) = t.strip_prefix("I:") {
            format!("I {r}")
        } else if let Some(r) = t.strip_prefix("B:") {
            format!("B {r}")
        } else if let Some(r) = t.strip_prefix("Y:") {
            format!("Y {r}")
        } else if let Some(r) = t.strip_prefix("F:") {
            format!("F {r}")
        } else if let Some(r) = t.strip_prefix("O:") {
            format!("O {r}")
        } else if t == "N" {
            "N".into()
        } else if t == "U" {
            "U".into()
        } else {
            return None;
        };
        steps.push(st);
        *nreg += 1;
        Some(*nreg - 1)
    }
    go(&mut P { s: enc.as_bytes(), i: 0 }, steps, nreg)
}

struct FDef {
    name: &'static str,
    expr: &'static str,
    args: &'static [&'static str],
    model: Option<(&'static str, &'static [u64])>,
    tmpl: Option<&'static str>,
}

const fn f(name: &'static str, expr: &'static str, args: &'static [&'static str], model: &'static str, ps: &'static [u64]) -> FDef {
    FDef { name, expr, args, model: Some((model, ps)), tmpl: None }
}
const fn c(name: &'static str, expr: &'static str, args: &'static [&'static str]) -> FDef {
    FDef { name, expr, args, model: None, tmpl: None }
}
const fn ct(name: &'static str, tmpl: &'static str, args: &'static [&'static str]) -> FDef {
    FDef { name, expr: "", args, model: None, tmpl: Some(tmpl) }
}

const REC: &str = "L(M(k=s0;v=s1);M(k=s2;v=s3))";

static FDEFS: &[FDef] = &[
    f("escape", "a0|escape", &["s0"], "escape", &[]),
    f("e", "a0|e", &["L(s0;s1)"], "escape", &[]),
    f("e", "a0|e", &["I:5"], "escape", &[]),
    f("e", "a0|e|e", &["s0"], "escape", &[]),
    f("upper", "a0|upper", &["s0"], "upper", &[]),
    f("lower", "a0|lower", &["c0{QΑΒq Γ|KBkΑΒ}"], "lower", &[]),
    f("capitalize", "a0|capitalize", &["c0{αΒq Γ|αKBkΑΒ}"], "capitalize", &[]),
    f("capitalize", "a0|capitalize", &["s0"], "capitalize", &[]),
    f("title", "a0|title", &["c0{αβ γΔq-εQζ|αβ KbΒk}"], "title", &[]),
    f("trim", "a0|trim", &["s3"], "trim", &[]),
    f("trim", "a0|trim(a1)", &["s0", "c1{Qα|Kb}"], "trim", &[]),
    f("reverse", "a0|reverse", &["s0"], "reverse", &[]),
    f("reverse", "a0|reverse", &["L(s0;s1;s2)"], "reverse", &[]),
    f("indent", "a0|indent(2)", &["s3"], "indent", &[2, 0, 0]),
    f("indent", "a0|indent(3, true, true)", &["s3"], "indent", &[3, 1, 1]),
    f("indent", "a0|indent(1, false, true)", &["c0{Qα\n\nβq\n|Kb\n\nβk\n}"], "indent", &[1, 0, 1]),
    f("indent", "a0|indent", &["c0{α\nQβ|α\nKβ}"], "indent", &[4, 0, 0]),
    f("replace", "a0|replace(a1, a2)", &["s0", "s1", "s2"], "replace", &[]),
    f("replace", "a0|replace(a1, a2)", &["s0", "c1{Q|K}", "s2"], "replace", &[]),
    f("replace", "a0|replace(a1, a2)", &["s0", "c1{&|&}", "c2{Qx|Ky}"], "replace", &[]),
    f("replace", "a0|replace(a1, a2)", &["c0{QαQ|&lt;α}", "c1{&lt;|&lt;}", "c2{Q|K}"], "replace", &[]),
    f("replace", "a0|replace(a1, a2)", &["c0{αQ|αK}", "n{}", "c2{q|k}"], "replace", &[]),
    f("join", "a0|join(a1)", &["L(s0;s1;s2)", "c3{Q-q|K-k}"], "join", &[]),
    f("join", "a0|join", &["L(s0;s1)"], "join", &[]),
    f("join", "a0|join(a1)", &["L(s0;I:7;L(s1;s2))", "s1"], "join", &[]),
    f("join", "a0|join(a1)", &["s0", "c1{q|k}"], "join", &[]),
    f("join", "a0|join(a1)", &["L()", "s1"], "join", &[]),
    f("format", "a0|format(a1, a2)", &["c0{%sQ|%5sq|%sK|%5sk}", "s1", "s2"], "format", &[]),
    f("format", "a0|format(a1, a2)", &["c0{[%-9s]Q%.2s|[%-9s]K%.2s}", "s0", "s2"], "format", &[]),
    f("format", "a0|format(a1, a2)", &["c0{%d%%q%s|%d%%k%s}", "I:42", "s0"], "format", &[]),
    f("format", "a0|format(a1)", &["c0{Q%s|K%s}", "L(s1;s2)"], "format", &[]),
    f("format", "a0|format(a1)", &["c0{Q%c|K%c}", "I:60"], "format", &[]),
    f("truncate", "a0|truncate(length=7, killwords=true, end=a1, leeway=0)", &["s0", "c1{Q…|K…}"], "truncate", &[7, 0, 1]),
    f("truncate", "a0|truncate(length=6, killwords=false, end=a1, leeway=0)", &["s0", "c1{..q|..k}"], "truncate", &[6, 0, 0]),
    f("truncate", "a0|truncate(length=6, end=a1)", &["s0", "n{...}"], "truncate", &[6, 5, 0]),
    f("truncate", "a0|truncate(length=4, killwords=true, end=a1, leeway=1)", &["s0", "n{...}"], "truncate", &[4, 1, 1]),
    f("split", "a0|split(a1)", &["s0", "n{α}"], "split", &[]),
    f("split", "a0|split(a1)", &["s0", "c1{Q|K}"], "split", &[]),
    f("split", "a0|split", &["s3"], "split", &[]),
    f("split", "a0|split(a1, 1)", &["c0{QαqαQα|KαkαKα}", "n{α}"], "split", &[1]),
    f("lines", "a0|lines", &["s3"], "lines", &[]),
    f("lines", "a0|lines", &["c0{Qa\n\nqb\n|Ka\n\nkb\n}"], "lines", &[]),
    f("first", "a0|first", &["s0"], "first", &[]),
    f("first", "a0|first", &["L(s0;s1)"], "first", &[]),
    f("last", "a0|last", &["c0{αQ|αK}"], "last", &[]),
    f("last", "a0|last", &["L(s0;s1)"], "last", &[]),
    f("default", "a0|default(a1)", &["s0", "s1"], "default", &[0]),
    f("default", "a0|default(a1)", &["U", "s1"], "default", &[0]),
    f("d", "a0|d(a1, true)", &["n{}", "s1"], "default", &[1]),
    f("string", "a0|string", &["s0"], "string", &[]),
    f("string", "a0|string", &["L(s0;s1)"], "string", &[]),
    f("string", "a0|string", &["I:5"], "string", &[]),
    f("length", "a0|length", &["s0"], "length", &[]),
    f("count", "a0|count", &["L(s0;s1)"], "length", &[]),
    f("list", "a0|list", &["s1"], "list", &[]),
    f("list", "a0|list", &["L(s0;s1)"], "list", &[]),
    f("map", "a0|map('upper')", &["L(s0;s1)"], "map.upper", &[]),
    f("map", "a0|map('replace', a1, a2)", &["L(s0;s1)", "n{α}", "s2"], "map.replace", &[]),
    f("map", "a0|map('e')", &["L(s0;s1;I:3)"], "map.escape", &[]),
    f("map", "a0|map('trim')", &["L(s3;s0)"], "map.trim", &[]),
    f("op~", "a0 ~ a1", &["s0", "s1"], "concat", &[]),
    f("op+", "a0 + a1", &["s0", "s1"], "add", &[]),
    f("op*", "a0 * 3", &["s1"], "repeat", &[3]),
    f("op[:]", "a0[1:3]", &["s0"], "slice", &[1, 3]),
    f("op[:]", "a0[1:3]", &["L(s0;s1;s2)"], "slice", &[1, 3]),
    f("op[]", "a0[1]", &["s0"], "elem", &[1]),
    f("op[]", "a0[1]", &["L(s0;s1;s2)"], "elem", &[1]),
    f("safe", "a0|safe", &["s0"], "safe", &[]),
    f("tojson", "a0|tojson", &["s0"], "tojson", &[]),
    // ---- class only
    f("attr", "a0|attr(a1)", &["M(k=s0;v=s1)", "n{k}"], "attr", &[]),
    f("attr", "a0|attr(a1)", &["M(k=s0;v=s1)", "n{zz}"], "attr", &[]),
    f("batch", "a0|batch(2, a1)", &["L(s0;s1;s2)", "s3"], "batch", &[2]),
    f("batch", "a0|batch(2)", &["L(s0;s1;s2)"], "batch", &[2]),
    c("slice", "a0|slice(2, a1)", &["L(s0;s1;s2)", "s3"]),
    f("sort", "a0|sort", &["L(s0;s1;s2)"], "sort", &[0, 0]),
    f("sort", "a0|sort(reverse=true, case_sensitive=true)", &["L(s0;s1;s2;s3)"], "sort", &[1, 1]),
    f("sort", "a0|sort", &["L(c0{Qb|Kb};c1{QB|KB};c2{qa|ka};c3{QA|KA})"], "sort", &[0, 0]),
    c("sort#select", "a0|sort(attribute='k')", &[REC]),
    f("unique", "a0|unique(case_sensitive=true)", &["L(s0;s1;s0;s2;s1)"], "unique", &[]),
    c("unique#select", "a0|unique", &["L(s0;s1;s0;s2)"]),
    c("unique#select", "a0|unique(attribute='k')", &[REC]),
    f("min", "a0|min", &["L(s0;s1;s2)"], "min", &[]),
    f("max", "a0|max", &["L(s0;s1;s2)"], "max", &[]),
    f("min", "a0|min", &["L()"], "min", &[]),
    f("select", "a0|select", &["L(s0;s4;s1)"], "select", &[]),
    f("reject", "a0|reject", &["L(s0;s4;s1)"], "reject", &[]),
    c("select#select", "a0|select('string')", &["L(s0;I:1;s1)"]),
    c("reject#select", "a0|reject('undefined')", &["L(s0;U;s1)"]),
    c("selectattr", "a0|selectattr('k')", &[REC]),
    c("rejectattr", "a0|rejectattr('k', 'none')", &[REC]),
    c("groupby", "a0|groupby('k')", &[REC]),
    c("groupby", "a0|groupby('z', default=a1)", &[REC, "s4"]),
    f("dictsort", "a0|dictsort", &["M(x=s0;y=s1)"], "dictsort", &[]),
    c("dictsort#select", "a0|dictsort(by='value', reverse=true)", &["M(x=s0;y=s1)"]),
    f("items", "a0|items", &["M(x=s0;y=s1)"], "items", &[]),
    c("chain", "a0|chain(a1)", &["L(s0;s1)", "L(s2)"]),
    c("chain", "a0|chain(a1)", &["M(x=s0)", "M(y=s1)"]),
    c("zip", "a0|zip(a1)", &["L(s0;s1)", "L(s2;s3)"]),
    c("pluralize", "a0|pluralize(a1, a2)", &["I:1", "s0", "s1"]),
    c("pluralize", "a0|pluralize(a1, a2)", &["I:2", "s0", "s1"]),
    c("map#select", "a0|map(attribute='k')", &[REC]),
    c("map#select", "a0|map(attribute='z', default=a1)", &[REC, "s4"]),
    c("cycler", "cycler([a0, a1]).next()", &["s0", "s1"]),
    ct("joiner", "{% set j = joiner(a0) %}{{ probe([j(), j(), j()]) }}", &["s0"]),
    c("dict", "dict(x=a0, y=a1)", &["s0", "s1"]),
    c("namespace", "namespace(x=a0).x", &["s0"]),
    c("range", "range(3)", &[]),
    ct("loop.cycle", "{% for i in [1, 2] %}{{ probe(loop.cycle(a0, a1)) }}{% endfor %}", &["s0", "s1"]),
    c("abs", "a0|abs", &["I:-3"]),
    c("bool", "a0|bool", &["s0"]),
    c("float", "a0|float", &["c0{1.5|2.5}"]),
    c("int", "a0|int", &["c0{42|43}"]),
    c("round", "a0|round", &["I:3"]),
    c("sum", "a0|sum", &["L(I:1;I:2)"]),
    c("pprint", "a0|pprint", &["s0"]),
    c("pprint", "a0|pprint", &["L(s0;s1)"]),
    c("urlencode", "a0|urlencode", &["s0"]),
    c("urlencode", "a0|urlencode", &["M(x=s0;y=s1)"]),
    c("striptags", "a0|striptags", &["c0{Kbk&lt;αK/bk|<b>&lt;α</b>}"]),
    c("striptags", "a0|striptags", &["s0"]),
    c("filesizeformat", "a0|filesizeformat", &["I:1000000"]),
    c("debug", "debug()", &["s0"]),
    // ---- the value KIND as an axis of everything that prints or stringifies: bytes (valid / invalid
    //      UTF-8), floats, big integers, objects with their own render, containers of those
    f("e", "a0|e", &["YI{Qαq&}"], "escape", &[]),
    f("e", "a0|e", &["YV{Qαq&}"], "escape", &[]),
    f("e", "a0|e", &["OB{Qαq&}"], "escape", &[]),
    f("e", "a0|e", &["FL{1.5}"], "escape", &[]),
    f("e", "a0|e", &["BIG{-170141183460469231731687303715884105728}"], "escape", &[]),
    f("e", "a0|e", &["BIG{340282366920938463463374607431768211455}"], "escape", &[]),
    f("e", "a0|e", &["L(YI{Qq};OB{Qα};s0;FL{2.5})"], "escape", &[]),
    f("e", "a0|e", &["M(k=YI{Qq};v=OB{qα})"], "escape", &[]),
    f("e", "a0|e|e", &["YI{Qαq}"], "escape", &[]),
    f("string", "a0|string", &["YI{Qαq&}"], "string", &[]),
    f("string", "a0|string", &["YV{Qαq&}"], "string", &[]),
    f("string", "a0|string", &["OB{Qαq&}"], "string", &[]),
    f("string", "a0|string", &["L(YV{Q};YI{q};OB{Q})"], "string", &[]),
    f("op~", "a0 ~ a1", &["YI{Qαq}", "s0"], "concat", &[]),
    f("op~", "a0 ~ a1", &["s0", "OB{Qαq}"], "concat", &[]),
    f("op~", "a0 ~ a1", &["FL{0.25}", "YV{Qq}"], "concat", &[]),
    f("op[:]", "a0[1:6]", &["YI{Qαq&}"], "slice", &[1, 6]),
    f("op[:]", "a0[0:3]", &["YV{Qαq&}"], "slice", &[0, 3]),
    f("reverse", "a0|reverse", &["YI{Qq}"], "reverse", &[]),
    f("length", "a0|length", &["YI{Qαq}"], "length", &[]),
    f("join", "a0|join(a1)", &["L(YI{Qq};OB{Qα};s0;FL{2.5})", "s1"], "join", &[]),
    f("join", "a0|join(a1)", &["L(s0;s1)", "YV{Qq}"], "join", &[]),
    f("join", "a0|join(a1)", &["L(s0;s1)", "OB{Qq}"], "join", &[]),
    f("replace", "a0|replace(a1, a2)", &["YI{QαQ}", "n{α}", "s2"], "replace", &[]),
    f("replace", "a0|replace(a1, a2)", &["s0", "n{α}", "OB{Qq}"], "replace", &[]),
    f("upper", "a0|upper", &["YV{Qαq}"], "upper", &[]),
    f("trim", "a0|trim", &["OB{ Qαq }"], "trim", &[]),
    f("default", "a0|default(a1)", &["U", "YI{Qq}"], "default", &[0]),
    f("format", "a0|format(a1, a2)", &["c0{%sQ|%sq|%sK|%sk}", "YI{Qαq}", "OB{qQ}"], "format", &[]),
    f("truncate", "a0|truncate(length=4, killwords=true, end=a1, leeway=0)", &["s0", "n{..}"], "truncate", &[4, 0, 1]),
    c("first#select", "a0|first", &["L(YI{Qq};s0)"]),
    c("last#select", "a0|last", &["L(s0;OB{Qq})"]),
    c("sort#select", "a0|sort", &["L(YV{Qb};YV{Qa})"]),
    c("list#select", "a0|list", &["L(YI{Q};OB{q})"]),
    c("items#select", "a0|items", &["M(k=YI{Qq};v=OB{qα})"]),
    c("pprint", "a0|pprint", &["L(YI{Qq};OB{Qα})"]),
    c("urlencode", "a0|urlencode", &["YI{Qq}"]),
    c("striptags", "a0|striptags", &["YV{KbkQq}"]),
    // ---- contrib filters / functions behind cargo features (skipped by the checker if not registered)
    // `random`: the model is told which index the generator picked; `lipsum`: which text it assembled
    f("random", "a0|random", &["L(s0;s1;s2)"], "random", &[]),
    f("random", "a0|random", &["s0"], "random", &[]),
    f("random", "a0|random", &["c0{QαqQ|Kik&lt;K}"], "random", &[]),
    f("lipsum", "lipsum(1, html=true)", &[], "lipsum", &[1]),
    f("lipsum", "lipsum(2, min=3, max=5)", &[], "lipsum", &[0]),
    c("wordcount", "a0|wordcount", &["s0"]),
    c("wordwrap", "a0|wordwrap(width=4)", &["s0"]),
    c("wordwrap", "a0|wordwrap(width=3, wrapstring=a1)", &["s3", "c1{Q|K}"]),
    c("datetimeformat", "a0|datetimeformat", &["I:1700000000"]),
    c("dateformat", "a0|dateformat", &["I:1700000000"]),
    c("timeformat", "a0|timeformat", &["I:1700000000"]),
    c("datetimeformat", "a0|datetimeformat(format=a1)", &["I:1700000000", "c1{Q%Y|K%Y}"]),
    c("now", "now()", &[]),
    c("randrange", "randrange(5)", &[]),
    // ---- pycompat methods (unknown_method_callback)
    f("str.upper", "a0.upper()", &["s0"], "str.upper", &[]),
    f("str.lower", "a0.lower()", &["c0{QΑΒq Γ|KBkΑΒ}"], "str.lower", &[]),
    f("str.title", "a0.title()", &["c0{αβ γΔq-εQζ|αβ KbΒk}"], "str.title", &[]),
    f("str.strip", "a0.strip()", &["s3"], "str.strip", &[]),
    f("str.strip", "a0.strip(a1)", &["s0", "c1{Qα|Kb}"], "str.strip", &[]),
    f("str.lstrip", "a0.lstrip()", &["s3"], "str.lstrip", &[]),
    f("str.lstrip", "a0.lstrip(a1)", &["s0", "c1{Qα|Kb}"], "str.lstrip", &[]),
    f("str.rstrip", "a0.rstrip()", &["s3"], "str.rstrip", &[]),
    f("str.rstrip", "a0.rstrip(a1)", &["s0", "c1{Q&α|k}"], "str.rstrip", &[]),
    f("str.replace", "a0.replace(a1, a2)", &["s0", "s1", "s2"], "str.replace", &[]),
    f("str.replace", "a0.replace(a1, a2)", &["s0", "c1{Q|K}", "s2"], "str.replace", &[]),
    f("str.replace", "a0.replace(a1, a2)", &["c0{KliknameK/lik|KliknameK/lik}", "n{name}", "s2"], "str.replace", &[]),
    c("str.replace#count", "a0.replace(a1, a2, 1)", &["s0", "s1", "s2"]),
    f("str.join", "a0.join(a1)", &["c0{Q-q|K-k}", "L(s0;s1;s2)"], "str.join", &[]),
    f("str.join", "a0.join(a1)", &["s1", "L(s0;I:7)"], "str.join", &[]),
    f("str.splitlines", "a0.splitlines()", &["s3"], "str.splitlines", &[]),
    c("str.splitlines#keepends", "a0.splitlines(true)", &["s3"]),
    f("str.capitalize", "a0.capitalize()", &["s0"], "str.capitalize", &[]),
    f("str.capitalize", "a0.capitalize()", &["c0{αΒq Γ|αKBkΑΒ}"], "str.capitalize", &[]),
    f("str.split", "a0.split(a1)", &["s0", "n{α}"], "str.split", &[]),
    f("str.split", "a0.split()", &["s3"], "str.split", &[]),
    f("str.split", "a0.split(a1, 1)", &["c0{QαqαQα|KαkαKα}", "n{α}"], "str.split", &[1]),
    c("str.islower", "a0.islower()", &["s1"]),
    c("str.isupper", "a0.isupper()", &["s1"]),
    c("str.isspace", "a0.isspace()", &["s3"]),
    c("str.isdigit", "a0.isdigit()", &["c0{12|34}"]),
    c("str.isnumeric", "a0.isnumeric()", &["c0{12|34}"]),
    c("str.isalnum", "a0.isalnum()", &["s1"]),
    c("str.isalpha", "a0.isalpha()", &["s1"]),
    c("str.isascii", "a0.isascii()", &["s0"]),
    c("str.count", "a0.count(a1)", &["s0", "c1{α|α}"]),
    c("str.find", "a0.find(a1)", &["s0", "s1"]),
    c("str.rfind", "a0.rfind(a1)", &["s0", "s1"]),
    c("str.format", "a0.format(a1, x=a2)", &["c0{Q‹›q‹x›|K‹›k‹x›}", "s1", "s2"]),
    c("str.format", "a0.format(a1)", &["c0{Q‹:>9›|K‹:>9›}", "s0"]),
    c("str.startswith", "a0.startswith(a1)", &["s0", "s1"]),
    c("str.endswith", "a0.endswith(a1)", &["s0", "L(s1;s2)"]),
    f("dict.items", "a0.items()", &["M(x=s0;y=s1)"], "dict.items", &[]),
    f("dict.keys", "a0.keys()", &["M(x=s0;y=s1)"], "dict.keys", &[]),
    f("dict.values", "a0.values()", &["M(x=s0;y=s1)"], "dict.values", &[]),
    f("dict.get", "a0.get(a1)", &["M(x=s0;y=s1)", "n{y}"], "dict.get", &[]),
    f("dict.get", "a0.get(a1, a2)", &["M(x=s0)", "n{z}", "s1"], "dict.get", &[]),
    c("list.count", "a0.count(a1)", &["L(s0;s1;s0)", "s0"]),
];

fn gen_fc(out: &mut impl Write, tier: &str) {
    let variants = if tier == "thorough" { 5 } else { 3 };
    for def in FDEFS {
        let args: Vec<Arg> = def.args.iter().map(|a| parse_arg(a)).collect();
        let mut slots = vec![];
        args.iter().for_each(|a| slots_of(a, &mut slots));
        let nslots = slots.iter().max().map(|m| m + 1).unwrap_or(0);
        fn has_generic(a: &Arg) -> bool { match a { Arg::Slot(_) => true, Arg::List(xs) => xs.iter().any(has_generic), Arg::Map(xs) => xs.iter().any(|(_, x)| has_generic(x)), _ => false } }
        let uses_generic = args.iter().any(has_generic);
        let nvar = if uses_generic { variants } else { 1 };
        for pass in 0..2 {
            for variant in 0..nvar {
                for mask in 0..(1u32 << nslots) {
                    // skip masks touching unused slot numbers
                    if (0..nslots).any(|i| mask >> i & 1 == 1 && !slots.contains(&i)) {
                        continue;
                    }
                    let encs: Vec<String> = args.iter().map(|a| arg_enc(a, mask, pass, variant)).collect();
                    let mut ctx = serde_json::Map::new();
                    for (i, e) in encs.iter().enumerate() {
                        ctx.insert(format!("a{i}"), json!(e));
                    }
                    ctx.insert("RAND_SEED".into(), json!("I:42"));
                    let src = match def.tmpl {
                        Some(t) => t.to_string(),
                        None => format!("{{{{ probe({}) }}}}", def.expr),
                    };
                    // the engine first: `random` / `lipsum` models are parameterised by what the generator drew
                    let res = run_case(&json!({"s": "F", "t": {"main.html": src.clone()}, "ctx": ctx.clone()}));
                    let drawn: Option<Vec<u64>> = match def.name {
                        "random" => res.split('\t').nth(1).and_then(|enc| {
                            let items: Vec<String> = if let Some(inner) = encs[0].strip_prefix("L(") {
                                inner.trim_end_matches(')').split(';').map(|x| x.to_string()).collect()
                            } else {
                                let body = &encs[0][3..];
                                if body == "-" { vec![] } else { body.split('.').map(|cp| format!("S0:{cp}")).collect() }
                            };
                            let norm = |x: &str| if encs[0].starts_with('L') { x.to_string() } else { x.replacen("S1:", "S0:", 1) };
                            items.iter().position(|it| norm(it) == norm(enc)).map(|k| vec![k as u64])
                        }),
                        "lipsum" => res.split('\t').nth(1).and_then(|enc| enc.get(3..)).map(|cps| {
                            let mut v = vec![def.model.unwrap().1[0]];
                            if cps != "-" { v.extend(cps.split('.').map(|c| c.parse::<u64>().unwrap())); }
                            v
                        }),
                        _ => None,
                    };
                    let model = def.model.and_then(|(name, ps)| {
                        let ps: Vec<u64> = match (&drawn, def.name) {
                            (Some(d), _) => d.clone(),
                            (None, "random") | (None, "lipsum") => return None,
                            _ => ps.to_vec(),
                        };
                        let mut steps = vec![];
                        let mut nreg = 0;
                        let mut regs = vec![];
                        for e in &encs {
                            regs.push(model_build(e, &mut steps, &mut nreg)?);
                        }
                        let mut name = name.to_string();
                        if def.expr.ends_with("|e|e") {
                            steps.push(format!("A escape h {} -", regs[0]));
                            regs[0] = nreg;
                            name = "escape".into();
                        }
                        steps.push(format!(
                            "A {} h {} {}",
                            name,
                            if regs.is_empty() { "-".to_string() } else { regs.iter().map(|r| r.to_string()).collect::<Vec<_>>().join(",") },
                            if ps.is_empty() { "-".into() } else { ps.iter().map(|p| p.to_string()).collect::<Vec<_>>().join(",") }
                        ));
                        Some(steps.join("|"))
                    });
                    let ((q1, q2), _) = metas(pass);
                    let pattern: String = (0..nslots).map(|i| if !slots.contains(&i) { '-' } else if mask >> i & 1 == 1 { 'S' } else { 'N' }).collect();
                    let case = json!({
                        "s": if def.model.is_some() { "F" } else { "C" },
                        "name": def.name, "expr": if def.tmpl.is_some() { def.tmpl.unwrap() } else { def.expr },
                        "pattern": pattern, "dm": format!("{q1}{q2}"),
                        "t": {"main.html": src}, "ctx": ctx, "args": encs, "model": model,
                    });
                    writeln!(out, "{}\t{}", case, res).unwrap();
                }
            }
        }
    }
}


// ------------------------------------------------------------------------------- stream G
/// subjects (`a0`): a Safe string that holds markup AND escaped data (`&lt; &#x27; &amp;quot; …` — a
/// decoding filter turns them back into metacharacters), unmarked data, containers of both, a number
const G_SUBJECTS: [(&str, &str); 9] = [
    ("safe-entities", "k{KbkαK/bk &lt;β&gt;&ǫuot;γ&#x27;&#39;&#34;&#60;&#x3e; &amp;lt;δ&amp;ǫuot;&LT;&GT;&apos;}"),
    ("normal", "n{QαqβQ α& &lt;}"),
    ("normal-short", "n{Qq}"),
    ("safe-plain", "k{Kbk β}"),
    ("list-mixed", "L(k{Kik&lt;&#39;&ǫuot;&gt;};n{Qαq};k{KβK})"),
    ("map-mixed", "M(k=k{Kik&lt;&#39;&ǫuot;&gt;};v=n{Qαq})"),
    ("int", "I:3"),
    ("normal-entities", "n{&lt;Q&#39;&ǫuot;q&gt;}"),
    ("list-int", "L(I:1;I:2)"),
];
const G_EXTRAS: [&[&str]; 9] = [
    &[], &["n{Qα}"], &["k{Kβk&ǫuot;&#x27;}"], &["I:1"], &["n{Qα}", "k{Kβk&ǫuot;&#x27;}"], &["k{Kβk&ǫuot;&#x27;}", "n{Qα}"],
    &["I:2", "n{Qα}"], &["n{Qα}", "n{qβ}"], &["n{ }", "I:1"],
];

fn gen_generic(out: &mut impl Write, callables: &[(String, String)]) {
    for (kind, name) in callables {
        let mut ok = 0u64;
        let mut errors: BTreeMap<String, u64> = BTreeMap::new();
        for pass in 0..2 {
            for (slabel, sdsl) in G_SUBJECTS.iter() {
                for extras in G_EXTRAS.iter() {
                    let mut dsl: Vec<&str> = vec![sdsl];
                    dsl.extend_from_slice(extras);
                    let encs: Vec<String> = dsl.iter().map(|a| arg_enc(&parse_arg(a), 0, pass, 0)).collect();
                    let rest: Vec<String> = (1..encs.len()).map(|i| format!("a{i}")).collect();
                    let (expr, owner) = match kind.as_str() {
                        "filter" => (if rest.is_empty() { format!("a0|{name}") } else { format!("a0|{name}({})", rest.join(", ")) }, name.clone()),
                        // tests registered under operator symbols are reachable through `select("==", …)` only
                        "test" if !name.chars().all(|c| c.is_alphanumeric() || c == '_') => (format!("[a0]|select(\"{name}\"{}{})|list", if rest.is_empty() { "" } else { ", " }, rest.join(", ")), format!("test:{name}")),
                        "test" => (if rest.is_empty() { format!("(a0 is {name})") } else { format!("(a0 is {name}({}))", rest.join(", ")) }, format!("test:{name}")),
                        "function" => (format!("{name}(a0{}{})", if rest.is_empty() { "" } else { ", " }, rest.join(", ")), name.clone()),
                        _ => {
                            let m = name.split('.').nth(1).unwrap_or(name);
                            (format!("a0.{m}({})", rest.join(", ")), name.clone())
                        }
                    };
                    let mut ctx = serde_json::Map::new();
                    for (i, e) in encs.iter().enumerate() {
                        ctx.insert(format!("a{i}"), json!(e));
                    }
                    ctx.insert("RAND_SEED".into(), json!("I:42"));
                    let ((q1, q2), _) = metas(pass);
                    let case = json!({
                        "s": "G", "kind": kind, "name": owner, "expr": expr, "pattern": format!("{slabel}/{}", extras.len()), "dm": format!("{q1}{q2}"),
                        "t": {"main.html": format!("{{{{ probe({expr}) }}}}")}, "ctx": ctx, "args": encs,
                    });
                    let res = run_case(&case);
                    if res.starts_with("OK") || res.starts_with("PANIC") {
                        ok += 1;
                        writeln!(out, "{}\t{}", case, res).unwrap();
                    } else {
                        *errors.entry(res).or_insert(0) += 1;
                    }
                }
            }
        }
        // every filter also through `map`: applied to the items of a list of Safe and unmarked strings
        if kind == "filter" {
            for pass in 0..2 {
                for extras in [&[][..], &["n{Qα}"][..], &["k{Kβk&ǫuot;&#x27;}"][..], &["n{Qα}", "k{Kβ}"][..]] {
                    let mut dsl: Vec<&str> = vec!["L(k{Kik&lt;&#39;&ǫuot;&gt;&amp;lt;};n{Qαq};k{KβK})"];
                    dsl.extend_from_slice(extras);
                    let encs: Vec<String> = dsl.iter().map(|a| arg_enc(&parse_arg(a), 0, pass, 0)).collect();
                    let rest: String = (1..encs.len()).map(|i| format!(", a{i}")).collect();
                    let expr = format!("a0|map(\"{name}\"{rest})|list");
                    let mut ctx = serde_json::Map::new();
                    for (i, e) in encs.iter().enumerate() {
                        ctx.insert(format!("a{i}"), json!(e));
                    }
                    ctx.insert("RAND_SEED".into(), json!("I:42"));
                    let ((q1, q2), _) = metas(pass);
                    let case = json!({
                        "s": "G", "kind": "filter", "name": "map", "via": name, "expr": expr, "pattern": format!("map/{}", extras.len()), "dm": format!("{q1}{q2}"),
                        "t": {"main.html": format!("{{{{ probe({expr}) }}}}")}, "ctx": ctx, "args": encs,
                    });
                    let res = run_case(&case);
                    if res.starts_with("OK") || res.starts_with("PANIC") {
                        writeln!(out, "{}\t{}", case, res).unwrap();
                    }
                }
            }
        }
        // a function is also called without any argument
        if kind == "function" {
            let case = json!({"s": "G", "kind": kind, "name": name, "expr": format!("{name}()"), "pattern": "noargs/0", "dm": "\"'",
                "t": {"main.html": format!("{{{{ probe({name}()) }}}}")}, "ctx": {"RAND_SEED": "I:42"}, "args": []});
            let res = run_case(&case);
            if res.starts_with("OK") || res.starts_with("PANIC") {
                ok += 1;
                writeln!(out, "{}\t{}", case, res).unwrap();
            } else {
                *errors.entry(res).or_insert(0) += 1;
            }
        }
        let summary = json!({"s": "G#", "kind": kind, "name": if kind == "test" { format!("test:{name}") } else { name.clone() }, "ok": ok, "errors": errors});
        writeln!(out, "{}\tOK\t-\t-", summary).unwrap();
    }
}

// ------------------------------------------------------------------------------- stream X
/// the number formatter never produces a metacharacter: floats (random bit patterns + specials),
/// 128-bit integers — `Display` text and what `{{ v }}` prints under Html
fn gen_numbers(out: &mut impl Write) {
    let mut rng = Rng::new(seed_from_env() ^ 0x5eed);
    let mut env = mk_env();
    env.add_template_owned("n.html".to_string(), "{{ v }}|{{ v|e }}|{{ [v] }}".to_string()).unwrap();
    let t = env.get_template("n.html").unwrap();
    let mut vals: Vec<Value> = vec![
        Value::from(f64::NAN), Value::from(f64::INFINITY), Value::from(f64::NEG_INFINITY), Value::from(0.0), Value::from(-0.0),
        Value::from(f64::MAX), Value::from(f64::MIN_POSITIVE), Value::from(5e-324), Value::from(i128::MIN), Value::from(i128::MAX),
        Value::from(u128::MAX), Value::from(u64::MAX), Value::from(i64::MIN),
    ];
    for _ in 0..20000 {
        vals.push(Value::from(f64::from_bits(rng.next())));
    }
    let allowed = "0123456789.-+einfNa";
    let mut bad = vec![];
    for v in &vals {
        let text = v.to_string();
        let mut ctx = BTreeMap::new();
        ctx.insert("v", v.clone());
        let printed = t.render(Value::from(ctx)).unwrap();
        // `{{ v }}` and `{{ v|e }}` are the Display text; inside a list the Debug text is used — same alphabet
        let ok = text.chars().all(|c| allowed.contains(c))
            && printed.starts_with(&format!("{text}|{text}|["))
            && printed.chars().all(|c| allowed.contains(c) || "|[]".contains(c));
        if !ok {
            bad.push(format!("{text:?}->{printed:?}"));
        }
    }
    let case = json!({"s": "X", "name": "number-display", "prefix": "", "chars": vals.len()});
    let res = if bad.is_empty() { "OK\t-\t-".to_string() } else { format!("FAIL\t{}\t0", enc_str(&bad[..bad.len().min(5)].join(" "))) };
    writeln!(out, "{}\t{}", case, res).unwrap();
}

fn gen_x(out: &mut impl Write) {
    let env = mk_env();
    let metas = ['<', '>', '"', '\''];
    for (name, prefix) in [("upper", ""), ("lower", ""), ("capitalize", ""), ("capitalize", "a")] {
        let src = format!("{{{{ probe(a0|{name}) }}}}");
        let mut bad: Vec<u32> = vec![];
        let mut n = 0u64;
        let mut unsafe_out = 0u64;
        let eval = |s: String| -> (String, bool) {
            *PROBE.lock().unwrap() = None;
            let mut e = env.clone();
            e.add_template_owned("x.html".to_string(), src.clone()).unwrap();
            let mut ctx = BTreeMap::new();
            ctx.insert("a0", Value::from_safe_string(s));
            e.get_template("x.html").unwrap().render(Value::from(ctx)).unwrap();
            let v = PROBE.lock().unwrap().take().unwrap();
            (v.as_str().unwrap().to_string(), v.is_safe())
        };
        let all: Vec<char> = (0u32..0x110000).filter_map(char::from_u32).filter(|c| !metas.contains(c)).collect();
        for chunk in all.chunks(4096) {
            n += chunk.len() as u64;
            let mut s = String::from(prefix);
            for c in chunk {
                s.push(*c);
                s.push(' ');
            }
            let (o, safe) = eval(s);
            if !safe {
                unsafe_out += 1;
            }
            if o.chars().any(|c| metas.contains(&c)) {
                for c in chunk {
                    let (o1, _) = eval(format!("{prefix}{c}"));
                    if o1.chars().any(|c| metas.contains(&c)) {
                        bad.push(*c as u32);
                    }
                }
            }
        }
        let case = json!({"s": "X", "name": name, "prefix": prefix, "chars": n});
        let res = if bad.is_empty() && unsafe_out == 0 {
            "OK\t-\t-".to_string()
        } else {
            format!("FAIL\t{}\t{}", bad.iter().take(20).map(|b| b.to_string()).collect::<Vec<_>>().join(","), unsafe_out)
        };
        writeln!(out, "{}\t{}", case, res).unwrap();
    }
}

// ------------------------------------------------------------------------------- stream M / N
static ENTRY_ROT: std::sync::atomic::AtomicUsize = std::sync::atomic::AtomicUsize::new(0);

/// the probe streams (K, T, M, N) go through the ways a host can render a template in turn
fn emit_case(out: &mut impl Write, mut case: serde_json::Value) {
    let s = case["s"].as_str().unwrap_or("").to_string();
    if matches!(s.as_str(), "K" | "T" | "M" | "N") && case["t"].is_object() && case["entry"].is_null() {
        let k = ENTRY_ROT.fetch_add(1, std::sync::atomic::Ordering::Relaxed);
        case["entry"] = json!(["render", "captured", "captured_to", "named_str"][k % 4]);
        case["source"] = json!(["owned", "borrowed", "loader"][(k / 4) % 3]);
    }
    let res = run_case(&case);
    writeln!(out, "{}\t{}", case, res).unwrap();
}

fn gen_modes(out: &mut impl Write) {
    let datas = ["<α>\"β'&", "'", "a<b"];
    let d = || E::Var("d".into());
    for dv in datas {
        let mut ctx = serde_json::Map::new();
        ctx.insert("d".into(), json!(format!("S0:{}", enc_str(dv))));
        for (region, m) in [("false", "n"), ("\"none\"", "n"), ("\"json\"", "j"), ("true", "h"), ("\"html\"", "h"), ("\"xml\"", "e"), ("none", "n"), ("\"\"", "e")] {
            let x = || E::Var("x".into());
            let mk = |name: &str, macros: Vec<MacroDef>, body: Vec<S>, extends: Option<&str>| Tmpl {
                name: name.into(), extends: extends.map(|s| s.to_string()), imports: vec![], pre: vec![], macros, body,
            };
            let mac = |name: &str, params: Vec<&str>, body: Vec<S>, uc: bool| MacroDef {
                name: name.into(), params: params.into_iter().map(|s| s.to_string()).collect(), body, uses_caller: uc,
            };
            let kinds: Vec<(&str, &str, Vec<Tmpl>)> = vec![
                ("setblock", "end_capture", vec![mk("main.html", vec![], vec![
                    S::Auto(region, vec![S::SetBlock("x".into(), vec![S::Emit(d())], None)]), S::Emit(x())], None)]),
                ("macro", "macro_call", vec![mk("main.html", vec![mac("mm", vec!["a"], vec![S::Emit(E::Var("a".into()))], false)], vec![
                    S::Auto(region, vec![S::Set("x".into(), E::Call("mm".into(), vec![d()]))]), S::Emit(x())], None)]),
                ("callblock", "macro_call", vec![mk("main.html", vec![mac("mm", vec![], vec![S::Emit(E::Caller)], true)], vec![
                    S::Auto(region, vec![S::SetBlock("x".into(), vec![S::CallBlock("mm".into(), vec![], vec![S::Emit(d())])], None)]), S::Emit(x())], None)]),
                ("filterblock", "end_capture", vec![mk("main.html", vec![], vec![
                    S::Auto(region, vec![S::SetBlock("x".into(), vec![S::FilterBlock("upper".into(), "upper".into(), vec![], vec![S::Emit(d())])], None)]), S::Emit(x())], None)]),
                ("super", "end_capture", vec![
                    mk("base.html", vec![], vec![S::Block("b".into(), vec![S::Emit(d())])], None),
                    mk("main.html", vec![], vec![S::Block("b".into(), vec![S::Auto(region, vec![S::Set("x".into(), E::Super)]), S::Emit(x())])], Some("base.html")),
                ]),
                ("include", "end_capture", vec![
                    mk("inc.html", vec![], vec![S::Emit(d())], None),
                    mk("main.html", vec![], vec![S::Auto(region, vec![S::SetBlock("x".into(), vec![S::Include("inc.html".into())], None)]), S::Emit(x())], None),
                ]),
            ];
            for (kind, site, ts) in kinds {
                let case = prog_case("M", &ts, "main.html", &ctx, false, json!({"kind": kind, "site": site, "region": region, "mode": m}));
                emit_case(out, case);
            }
            // the recursive loop call needs `namespace` to carry the captured value out of the loop:
            // sent as a hand-written step program
            if m == "e" {
                continue;
            }
            let mut t = BTreeMap::new();
            t.insert("main.html".to_string(), format!("{{% set ns = namespace(v=\"\") %}}{{% autoescape {region} %}}{{% for n in [[d]] recursive %}}{{% if n is string %}}{{{{ n }}}}{{% else %}}{{% set ns.v = loop(n) %}}{{% endif %}}{{% endfor %}}{{% endautoescape %}}{{{{ ns.v }}}}"));
            let case = json!({"s": "M", "kind": "looprec", "site": "end_capture", "region": region, "mode": m, "t": t, "ctx": ctx,
                "model": format!("D {}|BC|E {m} 0|EC {m}|E h 1", enc_str(dv))});
            emit_case(out, case);
        }
    }
}

/// stream K: values of every kind through every printing path (as AST programs for `execProg`)
fn gen_kinds(out: &mut impl Write) {
    let texts = ["<α>\"β'&", "'><script x=\"1\">"];
    for text in texts {
        let mut invalid = vec![0xFFu8];
        invalid.extend_from_slice(text.as_bytes());
        invalid.extend_from_slice(&[0xC3, 0x28, 0x80]);
        let yi = format!("Y:{}", enc_bytes(&invalid));
        let yv = format!("Y:{}", enc_bytes(text.as_bytes()));
        let ob = format!("O:{}", enc_str(text));
        let d = format!("S0:{}", enc_str(text));
        let kinds: Vec<(&str, String, bool)> = vec![
            ("bytes-invalid-utf8", yi.clone(), true),
            ("bytes-valid-utf8", yv.clone(), true),
            ("object-render", ob.clone(), false),
            ("float", format!("F:{}", enc_str("1.5")), false),
            ("float-nan", format!("F:{}", enc_str("NaN")), false),
            ("float-inf", format!("F:{}", enc_str("-inf")), false),
            ("i128", "I:-170141183460469231731687303715884105728".into(), false),
            ("u128", "I:340282366920938463463374607431768211455".into(), false),
            ("list-of-kinds", format!("L({yi};{ob};{d};F:{};{yv})", enc_str("2.5")), false),
            ("map-of-kinds", format!("M({}={yi};{}={ob})", enc_str("k"), enc_str("v")), false),
            ("nested", format!("L(L({yi});M({}=L({ob})))", enc_str("k")), false),
        ];
        for (kind, enc, is_bytes) in kinds {
            let mut ctx = serde_json::Map::new();
            ctx.insert("k".into(), json!(enc));
            ctx.insert("d".into(), json!(d));
            let k = || E::Var("k".into());
            let dv = || E::Var("d".into());
            let filt = |m: &str, syn: &str, args: Vec<E>, ps: Vec<u64>| E::Filt(m.into(), syn.into(), args, ps);
            let mac = |name: &str, params: Vec<&str>, body: Vec<S>, uc: bool| MacroDef {
                name: name.into(), params: params.into_iter().map(|s| s.to_string()).collect(), body, uses_caller: uc,
            };
            let macros = vec![
                mac("show", vec!["a"], vec![S::Text("(".into()), S::Emit(E::Var("a".into())), S::Text(")".into())], false),
                mac("wrap", vec![], vec![S::Text("[".into()), S::Emit(E::Caller), S::Text("]".into())], true),
            ];
            let mut probes: Vec<(&str, Vec<S>)> = vec![
                ("print", vec![S::Emit(k())]),
                ("set-block", vec![S::SetBlock("x".into(), vec![S::Emit(k())], None), S::Emit(E::Var("x".into()))]),
                ("set-block-filter", vec![S::SetBlock("x".into(), vec![S::Emit(k())], Some(("trim".into(), "trim".into(), vec![]))), S::Emit(E::Var("x".into()))]),
                ("macro-arg", vec![S::Emit(E::Call("show".into(), vec![k()]))]),
                ("macro-arg-concat", vec![S::Emit(E::Bin("~", Box::new(E::Call("show".into(), vec![k()])), Box::new(k())))]),
                ("call-block", vec![S::CallBlock("wrap".into(), vec![], vec![S::Emit(k())])]),
                ("filter-block", vec![S::FilterBlock("upper".into(), "upper".into(), vec![], vec![S::Emit(k())])]),
                ("escape", vec![S::Emit(filt("escape", "e", vec![k()], vec![]))]),
                ("escape-string-concat", vec![S::Emit(E::Bin("~", Box::new(filt("escape", "escape", vec![k()], vec![])), Box::new(k())))]),
                ("string", vec![S::Emit(filt("string", "string", vec![k()], vec![]))]),
                ("concat", vec![S::Emit(E::Bin("~", Box::new(k()), Box::new(dv())))]),
                ("join", vec![S::Emit(filt("join", "join({1})", vec![E::List(vec![k(), dv()]), dv()], vec![]))]),
                ("join-safe-joiner", vec![S::SetBlock("j".into(), vec![S::Text("-".into())], None),
                    S::Emit(filt("join", "join({1})", vec![E::List(vec![k(), dv(), k()]), E::Var("j".into())], vec![]))]),
                ("join-as-joiner", vec![S::SetBlock("j".into(), vec![S::Text("-".into())], None),
                    S::Emit(filt("join", "join({1})", vec![E::List(vec![E::Var("j".into()), dv()]), k()], vec![]))]),
                ("for-item", vec![S::For("x".into(), E::List(vec![k(), dv()]), false, vec![S::Emit(E::Var("x".into()))], vec![])]),
                ("default", vec![S::Emit(filt("default", "default({1})", vec![E::Var("nope".into()), k()], vec![0]))]),
                ("format-safe", vec![S::SetBlock("f".into(), vec![S::Text("%s|%s".into())], None),
                    S::Emit(filt("format", "format({1}, {2})", vec![E::Var("f".into()), k(), dv()], vec![]))]),
                ("replace-safe-arg", vec![S::SetBlock("r".into(), vec![S::Text("R".into())], None),
                    S::Emit(filt("replace", "replace({1}, {2})", vec![k(), E::Lit("α".into()), E::Var("r".into())], vec![]))]),
                ("replace-into-safe", vec![S::SetBlock("r".into(), vec![S::Text("aRb".into())], None),
                    S::Emit(filt("replace", "replace({1}, {2})", vec![E::Var("r".into()), E::Lit("R".into()), k()], vec![]))]),
                ("include", vec![S::Include("inc.html".into())]),
                ("block-super", vec![]),
                ("cond", vec![S::Emit(E::Cond(Box::new(k()), Box::new(k()), Box::new(dv())))]),
                ("autoescape-true", vec![S::Auto("true", vec![S::Emit(k()), S::SetBlock("x".into(), vec![S::Emit(k())], None)]), S::Emit(E::Var("x".into()))]),
            ];
            if is_bytes {
                probes.push(("slice", vec![S::Emit(E::Slice(Box::new(k()), 1, 7))]));
                probes.push(("slice-escape", vec![S::Emit(filt("escape", "e", vec![E::Slice(Box::new(k()), 0, 6)], vec![]))]));
                probes.push(("reverse", vec![S::Emit(filt("reverse", "reverse", vec![k()], vec![]))]));
                probes.push(("method-on-text", vec![S::Emit(E::Meth("upper".into(), vec![filt("string", "string", vec![k()], vec![])], vec![]))]));
            }
            for (probe, body) in probes {
                if probe == "format-safe" && kind.starts_with("float") {
                    continue; // `%s` of a float goes through the float formatter, which is not modelled
                }
                let inc = Tmpl { name: "inc.html".into(), body: vec![S::Text("i:".into()), S::Emit(k())], ..Default::default() };
                let mut ts = vec![inc];
                let main = if probe == "block-super" {
                    ts.push(Tmpl { name: "base.xml".into(), body: vec![S::Block("b".into(), vec![S::Emit(k())])], ..Default::default() });
                    Tmpl { name: "main.html".into(), extends: Some("base.xml".into()), imports: vec![], pre: vec![], macros: macros.clone(),
                        body: vec![S::Block("b".into(), vec![S::Emit(E::Super), S::Text("+".into()), S::Emit(E::Bin("~", Box::new(E::Super), Box::new(k())))])] }
                } else {
                    Tmpl { name: "main.html".into(), extends: None, imports: vec![], pre: vec![], macros: macros.clone(), body }
                };
                ts.push(main);
                let case = prog_case("K", &ts, "main.html", &ctx, true, json!({"kind": kind, "probe": probe, "feats": [kind, probe]}));
                emit_case(out, case);
            }
        }
    }
}

fn gen_names(out: &mut impl Write) {
    let d = "<α>\"β'&";
    let mut ctx = serde_json::Map::new();
    ctx.insert("d".into(), json!(format!("S0:{}", enc_str(d))));
    for (name, m) in [
        ("a.html", "h"), ("a.htm", "h"), ("a.xml", "h"), ("a.html.j2", "h"), ("dir/a.xml.jinja", "h"),
        ("a.htm.jinja2", "h"), ("a.b.html", "h"), ("v1.2/mail.en.xml.j2", "h"), ("a.txt", "n"), ("a.html.txt", "n"), ("html", "h"),
        ("a.json", "j"), ("a.yaml.j2", "j"), ("a.HTML", "n"), ("a.xhtml", "n"), ("a.j2.html.j2", "h"), ("a.html.j2.jinja", "n"),
    ] {
        let dv = || E::Var("d".into());
        let t = Tmpl { name: name.into(), extends: None, imports: vec![], pre: vec![], macros: vec![], body: vec![
            S::SetBlock("x".into(), vec![S::Emit(dv())], None), S::Emit(E::Var("x".into())),
            S::Emit(E::Filt("escape".into(), "e".into(), vec![dv()], vec![])),
        ] };
        let case = prog_case("N", &[t], name, &ctx, false, json!({"name": name, "mode": m}));
        emit_case(out, case);
        // whatever the name selects, an explicit `autoescape true` / `"html"` region puts Html in effect
        // (`true` keeps the template's own format when that is not None)
        for region in ["true", "\"html\""] {
            let rm = if region == "true" && m == "j" { "j" } else { "h" };
            let t = Tmpl { name: name.into(), body: vec![S::Auto(region, vec![
                S::Emit(dv()), S::SetBlock("x".into(), vec![S::Emit(dv())], None), S::Emit(E::Var("x".into())),
                S::Emit(E::Filt("escape".into(), "e".into(), vec![dv()], vec![])),
                S::Emit(E::Bin("~", Box::new(E::Var("x".into())), Box::new(dv()))),
            ])], ..Default::default() };
            let case = prog_case("N", &[t], name, &ctx, false, json!({"name": format!("{name}+autoescape {region}"), "mode": rm, "region": region}));
            emit_case(out, case);
        }
    }
}


// ------------------------------------------------------------------------------- stream T / B / E / R
fn mode_char(name: &str, cfg: &Cfg) -> char {
    if let Some((_, m)) = cfg.modes.iter().find(|(n, _)| n == name) {
        return *m;
    }
    match minijinja::default_auto_escape_callback(name) {
        minijinja::AutoEscape::Html => 'h',
        minijinja::AutoEscape::None => 'n',
        minijinja::AutoEscape::Json => 'j',
        _ => '?',
    }
}

/// stream T: every way a value, a macro or output crosses from one template into another, for every
/// combination of the modes the two template names select (default callback and a custom one)
fn gen_cross(out: &mut impl Write) {
    let datas = ["<α>\"β'&", "a'b"];
    let dv = || E::Var("d".into());
    let mac = |name: &str, params: Vec<&str>, body: Vec<S>, uc: bool| MacroDef {
        name: name.into(), params: params.into_iter().map(|s| s.to_string()).collect(), body, uses_caller: uc,
    };
    let cfgs: Vec<(&str, Cfg)> = vec![
        ("default-callback", Cfg::default()),
        ("custom-callback", Cfg { modes: vec![("l.txt".into(), 'h'), ("l.html".into(), 'n'), ("m.txt".into(), 'h'), ("m.html".into(), 'h')], fmt_none_undef: false, join: "" }),
    ];
    for (di, data) in datas.into_iter().enumerate() {
        let mut ctx = serde_json::Map::new();
        ctx.insert("d".into(), json!(format!("S0:{}", enc_str(data))));
        for (cfgname, cfg0) in &cfgs {
          // environment configuration axis: a path-join callback (references written as aliases)
          for join in ["", "noext", "otherext", "dir"] {
            if di == 1 && !join.is_empty() {
                continue;
            }
            let cfg = &Cfg { join, ..cfg0.clone() };
            for lib in ["l.html", "l.txt", "l.json", "sub/l.xml.j2"] {
                for main in ["m.html", "m.txt", "m.xml"] {
                    let lm = mode_char(lib, cfg);
                    let mm = mode_char(main, cfg);
                    let libt = |pre: Vec<S>, macros: Vec<MacroDef>, body: Vec<S>| Tmpl { name: lib.into(), pre, macros, body, ..Default::default() };
                    let maint = |imports: Vec<Imp>, extends: Option<&str>, body: Vec<S>| Tmpl {
                        name: main.into(), extends: extends.map(|s| s.to_string()), imports, body, ..Default::default() };
                    let from = |ns: Vec<(&str, &str)>| Imp::From(lib.into(), ns.into_iter().map(|(a, b)| (a.to_string(), b.to_string())).collect());
                    let module = || Imp::Mod(lib.into(), "L".into());
                    let x = || E::Var("x".into());
                    let capx = || S::SetBlock("x".into(), vec![S::Text("(".into()), S::Emit(dv()), S::Text(")".into())], None);
                    let show = |e: E| vec![S::Emit(e.clone()), S::Text("|".into()), S::Emit(E::Bin("~", Box::new(e.clone()), Box::new(E::Lit("".into())))), S::Text("|".into()),
                        S::Emit(E::Filt("upper".into(), "upper".into(), vec![e.clone()], vec![])), S::Text("|".into()), S::Emit(E::Filt("escape".into(), "e".into(), vec![e], vec![]))];
                    // (kind, site of the mark if the value crossing over is a capture, templates)
                    let kinds: Vec<(&str, &str, Vec<Tmpl>)> = vec![
                        ("from-import-variable", "end_capture", vec![libt(vec![capx()], vec![], vec![]), maint(vec![from(vec![("x", "x")])], None, show(x()))]),
                        ("from-import-variable-alias", "end_capture", vec![libt(vec![capx()], vec![], vec![]), maint(vec![from(vec![("x", "y")])], None, show(E::Var("y".into())))]),
                        ("module-variable", "end_capture", vec![libt(vec![capx()], vec![], vec![]), maint(vec![module()], None, show(E::ModVar("L".into(), "x".into())))]),
                        ("module-printed", "-", vec![libt(vec![], vec![], vec![S::Text("[".into()), S::Emit(dv()), S::Text("]".into())]), maint(vec![module()], None, show(E::Var("L".into())))]),
                        ("from-import-macro", "-", vec![libt(vec![], vec![mac("mm", vec!["a"], vec![S::Text("<".replace('<', "(")), S::Emit(E::Var("a".into())), S::Text(")".into())], false)], vec![]),
                            maint(vec![from(vec![("mm", "mk")])], None, show(E::Call("mk".into(), vec![dv()])))]),
                        ("module-macro", "-", vec![libt(vec![], vec![mac("mm", vec!["a"], vec![S::Emit(E::Var("a".into()))], false)], vec![]),
                            maint(vec![module()], None, show(E::ModCall("L".into(), "mm".into(), vec![dv()])))]),
                        ("macro-result-stored", "-", vec![libt(vec![], vec![mac("mm", vec!["a"], vec![S::Emit(E::Var("a".into()))], false)], vec![]),
                            maint(vec![from(vec![("mm", "mm")])], None, { let mut b = vec![S::Set("y".into(), E::Call("mm".into(), vec![dv()]))]; b.extend(show(E::Var("y".into()))); b })]),
                        ("macro-closure-variable", "end_capture", vec![libt(vec![capx()], vec![mac("mm", vec![], vec![S::Emit(x())], false)], vec![]),
                            maint(vec![from(vec![("mm", "mm")])], None, show(E::Call("mm".into(), vec![])))]),
                        ("call-block-imported-macro", "-", vec![libt(vec![], vec![mac("mc", vec![], vec![S::Text("[".into()), S::Emit(E::Caller), S::Text("]".into())], true)], vec![]),
                            maint(vec![from(vec![("mc", "mc")])], None, vec![S::CallBlock("mc".into(), vec![], vec![S::Emit(dv())]),
                                S::SetBlock("y".into(), vec![S::CallBlock("mc".into(), vec![], vec![S::Emit(dv())])], None), S::Emit(E::Var("y".into()))])]),
                        ("include", "-", vec![libt(vec![], vec![], vec![S::Emit(dv())]), maint(vec![], None, vec![S::Include(lib.into())])]),
                        ("include-captured", "-", vec![libt(vec![], vec![], vec![S::Emit(dv())]),
                            maint(vec![], None, { let mut b = vec![S::SetBlock("y".into(), vec![S::Include(lib.into())], None)]; b.extend(show(E::Var("y".into()))); b })]),
                        ("include-sees-capture", "-", vec![libt(vec![], vec![], vec![S::Emit(x()), S::Emit(E::Bin("~", Box::new(x()), Box::new(dv())))]),
                            maint(vec![], None, vec![capx(), S::Include(lib.into())])]),
                        ("extends-block-super", "-", vec![libt(vec![], vec![], vec![S::Text("A".into()), S::Block("b".into(), vec![S::Emit(dv())]), S::Text("Z".into())]),
                            maint(vec![], Some(lib), vec![S::Block("b".into(), vec![S::Emit(E::Super), S::Text("+".into()), S::Set("y".into(), E::Super), S::Emit(E::Var("y".into())), S::Emit(dv())])])]),
                        ("extends-child-variable", "-", vec![libt(vec![], vec![], vec![S::Block("b".into(), vec![S::Emit(x())])]),
                            Tmpl { name: main.into(), extends: Some(lib.into()), pre: vec![capx(), S::Emit(dv())], ..Default::default() }]),
                    ];
                    for (kind, site, mut ts) in kinds {
                        // whatever crossed over, what the main template prints AFTERWARDS is written in the main
                        // template's own mode (the mode is restored after an include / a macro / a module)
                        let tail = !kind.starts_with("extends");
                        if tail {
                            let mt = ts.last_mut().unwrap();
                            mt.body.push(S::Text("¦".into()));
                            mt.body.push(S::Emit(dv()));
                        }
                        let case = prog_case_cfg("T", &ts, main, &ctx, false, cfg, json!({"kind": kind, "site": site, "lib": lib, "libmode": lm.to_string(), "mainmode": mm.to_string(), "callback": cfgname, "tail": tail}));
                        emit_case(out, case);
                    }
                }
            }
          }
        }
    }
}

/// stream B: `render_captured` + `State::render_block` (a block of the template itself, an overridden
/// block with `super()`, a block that prints a variable set outside the blocks)
fn gen_blocks(out: &mut impl Write) {
    let datas = ["<α>\"β'&", "x'y"];
    let dv = || E::Var("d".into());
    for data in datas {
        let mut ctx = serde_json::Map::new();
        ctx.insert("d".into(), json!(format!("S0:{}", enc_str(data))));
        for main in ["m.html", "m.txt", "m.xml.j2"] {
            for base in ["b.html", "b.txt"] {
                let cap = S::SetBlock("x".into(), vec![S::Emit(dv())], None);
                let ts_plain = vec![Tmpl { name: main.into(), pre: vec![cap.clone()], body: vec![S::Text("T".into()),
                    S::Block("hi".into(), vec![S::Text("[".into()), S::Emit(dv()), S::Emit(E::Var("x".into())), S::Emit(E::Bin("~", Box::new(E::Var("x".into())), Box::new(dv()))), S::Text("]".into())])], ..Default::default() }];
                let ts_inh = vec![
                    Tmpl { name: base.into(), body: vec![S::Text("B".into()), S::Block("hi".into(), vec![S::Text("(".into()), S::Emit(dv()), S::Text(")".into())]), S::Block("other".into(), vec![S::Emit(dv())])], ..Default::default() },
                    Tmpl { name: main.into(), extends: Some(base.into()), pre: vec![cap.clone()], body: vec![S::Block("hi".into(), vec![S::Emit(E::Super), S::Emit(E::Var("x".into())), S::Set("y".into(), E::Super), S::Emit(E::Var("y".into()))])], ..Default::default() },
                ];
                for (kind, ts, block) in [("own-block", &ts_plain, "hi"), ("overridden-block-super", &ts_inh, "hi"), ("inherited-block", &ts_inh, "other"), ("missing-block", &ts_plain, "nope")] {
                    let case = prog_case("B", ts, main, &ctx, false, json!({"kind": kind, "block": block, "mainmode": mode_char(main, &Cfg::default()).to_string()}));
                    emit_case(out, case);
                }
            }
            // entry points that start from a State: `Template::new_state` + render_block / render_block_to_write
            // (nothing of the template has run: the model is the block's body as a template of that name, the
            // context values are globals), and `State::call_macro` on a captured state (model: the call printed)
            let mm = MacroDef { name: "mm".into(), params: vec!["a".into()], body: vec![S::Text("(".into()), S::Emit(E::Var("a".into())), S::Text(")".into())], uses_caller: false };
            let body = vec![S::Text("[".into()), S::Emit(dv()), S::Emit(E::Lit("<'lit\">".into())), S::SetBlock("y".into(), vec![S::Text("(".into()), S::Emit(dv()), S::Text(")".into())], None),
                S::Emit(E::Var("y".into())), S::Emit(E::Filt("upper".into(), "upper".into(), vec![E::Var("y".into())], vec![])), S::Emit(E::Bin("~", Box::new(E::Var("y".into())), Box::new(dv()))),
                S::Emit(E::Filt("escape".into(), "e".into(), vec![dv()], vec![])), S::Text("]".into())];
            let engine_t = Tmpl { name: main.into(), body: vec![S::Text("T".into()), S::Block("hi".into(), body.clone())], ..Default::default() };
            let model_t = Tmpl { name: main.into(), body: body.clone(), ..Default::default() };
            for to_write in [false, true] {
                let mut case = prog_case("B", &[model_t.clone()], main, &ctx, false, json!({"kind": if to_write { "new-state-block-to-write" } else { "new-state-block" }, "nsblock": "hi", "towrite": to_write,
                    "mainmode": mode_char(main, &Cfg::default()).to_string()}));
                case["t"] = json!({main: tmpl_src(&engine_t)});
                emit_case(out, case);
            }
            let engine_t = Tmpl { name: main.into(), macros: vec![mm.clone()], body: vec![S::Text("T".into())], ..Default::default() };
            let model_t = Tmpl { name: main.into(), macros: vec![mm.clone()], body: vec![S::Text("T".into()), S::Emit(E::Call("mm".into(), vec![dv()]))], ..Default::default() };
            let mut case = prog_case("B", &[model_t], main, &ctx, false, json!({"kind": "call-macro", "callmacro": "mm", "mainmode": mode_char(main, &Cfg::default()).to_string()}));
            case["t"] = json!({main: tmpl_src(&engine_t)});
            emit_case(out, case);
        }
    }
}

/// stream E: `Environment::compile_expression` + `Expression::eval` (mode None, no output): the value
/// handed back to the host, with its Safe bit
fn gen_exprs(out: &mut impl Write) {
    let mut g = Gen { rng: Rng::new(seed_from_env() ^ 0xe4), nvar: 0, feats: vec![] };
    let mut exprs: Vec<E> = vec![
        E::Var("d0".into()),
        E::Filt("escape".into(), "e".into(), vec![E::Var("d0".into())], vec![]),
        E::Filt("upper".into(), "upper".into(), vec![E::Filt("escape".into(), "e".into(), vec![E::Var("d0".into())], vec![])], vec![]),
        E::Bin("~", Box::new(E::Filt("escape".into(), "e".into(), vec![E::Var("d0".into())], vec![])), Box::new(E::Var("d1".into()))),
        E::Filt("replace".into(), "replace({1}, {2})".into(), vec![E::Filt("escape".into(), "e".into(), vec![E::Var("d0".into())], vec![]), E::Lit("α".into()), E::Var("d1".into())], vec![]),
        E::Filt("join".into(), "join({1})".into(), vec![E::List(vec![E::Filt("escape".into(), "e".into(), vec![E::Var("d0".into())], vec![]), E::Var("d1".into())]), E::Var("d2".into())], vec![]),
        E::Filt("format".into(), "format({1})".into(), vec![E::Filt("escape".into(), "e".into(), vec![E::Lit("<%s>".into())], vec![]), E::Var("d1".into())], vec![]),
        E::List(vec![E::Var("d0".into()), E::Filt("escape".into(), "e".into(), vec![E::Var("d1".into())], vec![])]),
    ];
    let sc = Scope { strs: vec!["d0".into(), "d1".into(), "d2".into()], lists: vec!["xs".into(), "ys".into()], flags: vec!["f0".into(), "f1".into()],
        in_loop: false, caller: false, sup: false, macros: vec![], modvars: vec![], modprint: vec![], includes: vec![], allow_include: false };
    for _ in 0..150 {
        exprs.push(if g.rng.chance(1, 4) { g.list_expr(3, &sc) } else { g.str_expr(4, &sc) });
    }
    for (i, e) in exprs.iter().enumerate() {
        let mut ctx = serde_json::Map::new();
        for k in 0..3 {
            ctx.insert(format!("d{k}"), json!(format!("S0:{}", enc_str(&g.data(6)))));
        }
        ctx.insert("xs".into(), json!(format!("L(S0:{};S0:{})", enc_str(&g.data(4)), enc_str(&g.data(3)))));
        ctx.insert("ys".into(), json!("L()"));
        ctx.insert("f0".into(), json!("B:1"));
        ctx.insert("f1".into(), json!("B:0"));
        for (k, v) in [("kb", format!("Y:{}", enc_bytes(&[0xFF, b'<', b'a']))), ("kv", format!("Y:{}", enc_bytes("<α'".as_bytes()))), ("ko", format!("O:{}", enc_str("<o>'"))),
            ("kf", format!("F:{}", enc_str("1.5"))), ("ki", "I:170141183460469231731687303715884105727".to_string())] {
            ctx.insert(k.into(), json!(v));
        }
        let case = json!({"s": "E", "idx": i, "exprsrc": expr_src(e), "exprsx": expr_sx(e), "ctxsx": ctx_sx(&ctx), "ctx": ctx, "strict": 1});
        emit_case(out, case);
    }
}

/// stream R: `Environment::set_formatter` (the documented wrapper that prints `none` as nothing) on every
/// printing path, and `AutoEscape::Custom` from a custom callback (the default formatter refuses to write)
fn gen_formatter(out: &mut impl Write) {
    let datas = ["<α>\"β'&", "'"];
    let dv = || E::Var("d".into());
    let nv = || E::Var("n".into());
    for data in datas {
        let mut ctx = serde_json::Map::new();
        ctx.insert("d".into(), json!(format!("S0:{}", enc_str(data))));
        ctx.insert("n".into(), json!("N"));
        ctx.insert("l".into(), json!(format!("L(N;S0:{})", enc_str(data))));
        let mac = MacroDef { name: "mm".into(), params: vec!["a".into()], body: vec![S::Text("(".into()), S::Emit(E::Var("a".into())), S::Text(")".into())], uses_caller: false };
        let bodies: Vec<(&str, Vec<S>)> = vec![
            ("print", vec![S::Emit(dv()), S::Text("|".into()), S::Emit(nv()), S::Text("|".into()), S::Emit(E::NoneLit), S::Text("|".into()), S::Emit(E::Var("undefined_name".into()))]),
            ("capture", vec![S::SetBlock("x".into(), vec![S::Emit(nv()), S::Emit(dv())], None), S::Emit(E::Var("x".into())), S::Emit(E::Bin("~", Box::new(E::Var("x".into())), Box::new(dv())))]),
            ("macro", vec![S::Emit(E::Call("mm".into(), vec![nv()])), S::Emit(E::Call("mm".into(), vec![dv()]))]),
            ("container", vec![S::Emit(E::Var("l".into())), S::Emit(E::List(vec![nv(), dv()]))]),
            ("filter-block", vec![S::FilterBlock("upper".into(), "upper".into(), vec![], vec![S::Emit(nv()), S::Emit(dv())])]),
            ("escape-filter", vec![S::Emit(E::Filt("escape".into(), "e".into(), vec![nv()], vec![])), S::Emit(E::Filt("escape".into(), "e".into(), vec![dv()], vec![]))]),
            ("autoescape-none-capture", vec![S::Auto("false", vec![S::SetBlock("x".into(), vec![S::Emit(nv()), S::Emit(dv())], None)]), S::Emit(E::Var("x".into()))]),
        ];
        for (kind, body) in bodies {
            for main in ["f.html", "f.txt"] {
                let t = Tmpl { name: main.into(), macros: vec![mac.clone()], body: body.clone(), ..Default::default() };
                let cfg = Cfg { modes: vec![], fmt_none_undef: true, join: "" };
                let case = prog_case_cfg("R", &[t], main, &ctx, false, &cfg, json!({"kind": kind, "mainmode": mode_char(main, &Cfg::default()).to_string()}));
                emit_case(out, case);
            }
        }
    }
    // AutoEscape::Custom: nothing can be written by the default formatter
    for src in ["{{ d }}", "{{ 'a' }}", "x{% set y %}{{ d }}{% endset %}", "{{ d|e }}", "{% autoescape 'html' %}{{ d }}{% endautoescape %}"] {
        let mut env = mk_env();
        env.set_auto_escape_callback(|_| minijinja::AutoEscape::Custom("latex"));
        env.add_template_owned("c.tex".to_string(), src.to_string()).unwrap();
        let mut c = BTreeMap::new();
        c.insert("d", Value::from("<α>\"β'&"));
        let r = guarded(|| env.get_template("c.tex").unwrap().render(Value::from(c.clone())).map_err(|e| error_kind_name(&e)));
        let res = match r {
            Err(p) => format!("PANIC:{}", enc_str(&p)),
            Ok(Ok(o)) => format!("OK\t-\t{}", enc_str(&o)),
            Ok(Err(e)) => format!("ERR:{e}"),
        };
        let case = json!({"s": "R", "kind": "custom-mode", "src": src});
        writeln!(out, "{}\t{}", case, res).unwrap();
    }
}

// ------------------------------------------------------------------------------- stream P / W
#[derive(Clone, Debug)]
enum E {
    Var(String),
    Lit(String),
    Bin(&'static str, Box<E>, Box<E>),
    Mul(Box<E>, u32),
    /// model name, template syntax after `|` with {1} {2} for extra args, args[0] = subject, numeric params
    Filt(String, String, Vec<E>, Vec<u64>),
    /// pycompat method call `recv.name(args)`: method name, receiver + arguments, numeric params
    Meth(String, Vec<E>, Vec<u64>),
    Index(Box<E>, usize),
    Slice(Box<E>, usize, usize),
    List(Vec<E>),
    Call(String, Vec<E>),
    /// `alias.m(args)` / `alias.x` on an imported module
    ModCall(String, String, Vec<E>),
    ModVar(String, String),
    NoneLit,
    Caller,
    Super,
    LoopIndex,
    LoopFirst,
    Not(Box<E>),
    Attr(Box<E>, String),
    Dict(Vec<(String, E)>),
    LoopRec(Box<E>),
    /// condition, then, else
    Cond(Box<E>, Box<E>, Box<E>),
}

#[derive(Clone, Debug)]
enum S {
    Text(String),
    Emit(E),
    Set(String, E),
    SetBlock(String, Vec<S>, Option<(String, String, Vec<u64>)>),
    FilterBlock(String, String, Vec<u64>, Vec<S>),
    /// variable, iterable, recursive, body, else
    For(String, E, bool, Vec<S>, Vec<S>),
    If(E, Vec<S>, Vec<S>),
    With(String, E, Vec<S>),
    CallBlock(String, Vec<E>, Vec<S>),
    Include(String),
    Block(String, Vec<S>),
    Auto(&'static str, Vec<S>),
}

#[derive(Clone, Debug)]
struct MacroDef {
    name: String,
    params: Vec<String>,
    body: Vec<S>,
    uses_caller: bool,
}

/// `{% import "t" as alias %}` / `{% from "t" import name as alias, … %}`
#[derive(Clone, Debug)]
enum Imp {
    Mod(String, String),
    From(String, Vec<(String, String)>),
}

/// source order: extends, imports, `pre` (top-level statements before the macros), macros, body
#[derive(Clone, Debug, Default)]
struct Tmpl {
    name: String,
    extends: Option<String>,
    imports: Vec<Imp>,
    pre: Vec<S>,
    macros: Vec<MacroDef>,
    body: Vec<S>,
}

/// environment configuration of a program: custom auto-escape callback (names it decides), custom formatter
#[derive(Clone, Debug, Default)]
struct Cfg {
    modes: Vec<(String, char)>,
    fmt_none_undef: bool,
    /// `Environment::set_path_join_callback`: how references to other templates are WRITTEN in the sources
    /// ("" = as registered; "noext" = without extension, the callback adds it; "otherext" = an alias whose
    /// extension selects another mode than the template it resolves to; "dir" = `./name`).  The model sees the
    /// resolved names only: the mode of a template is the one ITS name selects, however it was referred to.
    join: &'static str,
}

/// the name a reference to template `name` is written as under a path-join style
fn written_name(style: &str, name: &str, mode: char) -> String {
    match style {
        "noext" => {
            let (dir, file) = match name.rfind('/') { Some(i) => (&name[..=i], &name[i + 1..]), None => ("", name) };
            format!("{dir}{}", file.split('.').next().unwrap_or(file))
        }
        "otherext" => {
            let file = name.rsplit('/').next().unwrap_or(name);
            let stem = file.split('.').next().unwrap_or(file);
            format!("alias/{stem}{}", if mode == 'h' { ".txt" } else { ".html" })
        }
        "dir" => format!("./{name}"),
        _ => name.to_string(),
    }
}

fn map_refs_stmts(ss: &[S], f: &dyn Fn(&str) -> String) -> Vec<S> {
    ss.iter().map(|s| map_refs_stmt(s, f)).collect()
}

/// the statement with every template reference renamed (source rendering under a path-join callback)
fn map_refs_stmt(s: &S, f: &dyn Fn(&str) -> String) -> S {
    match s {
        S::Include(n) => S::Include(f(n)),
        S::SetBlock(n, b, fl) => S::SetBlock(n.clone(), map_refs_stmts(b, f), fl.clone()),
        S::FilterBlock(m, syn, ps, b) => S::FilterBlock(m.clone(), syn.clone(), ps.clone(), map_refs_stmts(b, f)),
        S::For(v, it, rec, b, el) => S::For(v.clone(), it.clone(), *rec, map_refs_stmts(b, f), map_refs_stmts(el, f)),
        S::If(c, a, b) => S::If(c.clone(), map_refs_stmts(a, f), map_refs_stmts(b, f)),
        S::With(n, e, b) => S::With(n.clone(), e.clone(), map_refs_stmts(b, f)),
        S::CallBlock(m, args, b) => S::CallBlock(m.clone(), args.clone(), map_refs_stmts(b, f)),
        S::Block(n, b) => S::Block(n.clone(), map_refs_stmts(b, f)),
        S::Auto(a, b) => S::Auto(a, map_refs_stmts(b, f)),
        S::Text(_) | S::Emit(_) | S::Set(_, _) => s.clone(),
    }
}

fn map_refs_tmpl(t: &Tmpl, f: &dyn Fn(&str) -> String) -> Tmpl {
    Tmpl {
        name: t.name.clone(),
        extends: t.extends.as_ref().map(|p| f(p)),
        imports: t.imports.iter().map(|i| match i {
            Imp::Mod(n, a) => Imp::Mod(f(n), a.clone()),
            Imp::From(n, ns) => Imp::From(f(n), ns.clone()),
        }).collect(),
        pre: map_refs_stmts(&t.pre, f),
        macros: t.macros.iter().map(|m| MacroDef { name: m.name.clone(), params: m.params.clone(), body: map_refs_stmts(&m.body, f), uses_caller: m.uses_caller }).collect(),
        body: map_refs_stmts(&t.body, f),
    }
}

fn lit_src(s: &str) -> String {
    let mut r = String::from("\"");
    for c in s.chars() {
        match c {
            '"' => r.push_str("\\\""),
            '\\' => r.push_str("\\\\"),
            '\n' => r.push_str("\\n"),
            c => r.push(c),
        }
    }
    r.push('"');
    r
}

fn expr_src(e: &E) -> String {
    match e {
        E::Var(n) => n.clone(),
        E::Lit(s) => lit_src(s),
        E::Bin(op, a, b) => format!("({} {} {})", expr_src(a), op, expr_src(b)),
        E::Mul(a, n) => format!("({} * {})", expr_src(a), n),
        E::Filt(_, syn, args, _) => {
            let mut s = syn.clone();
            for (i, a) in args.iter().enumerate().skip(1) {
                s = s.replace(&format!("{{{i}}}"), &expr_src(a));
            }
            format!("({})|{}", expr_src(&args[0]), s)
        }
        E::Meth(name, args, _) => format!("({}).{}({})", expr_src(&args[0]), name, args[1..].iter().map(expr_src).collect::<Vec<_>>().join(", ")),
        E::Index(a, k) => format!("({})[{}]", expr_src(a), k),
        E::Slice(a, x, y) => format!("({})[{}:{}]", expr_src(a), x, y),
        E::List(xs) => format!("[{}]", xs.iter().map(expr_src).collect::<Vec<_>>().join(", ")),
        E::Call(m, args) => format!("{}({})", m, args.iter().map(expr_src).collect::<Vec<_>>().join(", ")),
        E::ModCall(a, m, args) => format!("{}.{}({})", a, m, args.iter().map(expr_src).collect::<Vec<_>>().join(", ")),
        E::ModVar(a, x) => format!("{}.{}", a, x),
        E::NoneLit => "none".into(),
        E::Caller => "caller()".into(),
        E::Super => "super()".into(),
        E::LoopIndex => "loop.index".into(),
        E::LoopFirst => "loop.first".into(),
        E::Not(a) => format!("(not {})", expr_src(a)),
        E::Attr(a, k) => format!("({}).{}", expr_src(a), k),
        E::Dict(kvs) => format!("{{{}}}", kvs.iter().map(|(k, v)| format!("\"{}\": {}", k, expr_src(v))).collect::<Vec<_>>().join(", ")),
        E::LoopRec(a) => format!("loop({})", expr_src(a)),
        E::Cond(c, a, b) => format!("({} if {} else {})", expr_src(a), expr_src(c), expr_src(b)),
    }
}

fn stmts_src(ss: &[S]) -> String {
    ss.iter().map(stmt_src).collect()
}

fn stmt_src(s: &S) -> String {
    match s {
        S::Text(t) => t.clone(),
        S::Emit(e) => format!("{{{{ {} }}}}", expr_src(e)),
        S::Set(n, e) => format!("{{% set {} = {} %}}", n, expr_src(e)),
        S::SetBlock(n, b, f) => match f {
            Some((_, syn, _)) => format!("{{% set {} | {} %}}{}{{% endset %}}", n, syn, stmts_src(b)),
            None => format!("{{% set {} %}}{}{{% endset %}}", n, stmts_src(b)),
        },
        S::FilterBlock(_, syn, _, b) => format!("{{% filter {} %}}{}{{% endfilter %}}", syn, stmts_src(b)),
        S::For(v, it, rec, b, el) => {
            let r = if *rec { " recursive" } else { "" };
            if el.is_empty() {
                format!("{{% for {} in {}{} %}}{}{{% endfor %}}", v, expr_src(it), r, stmts_src(b))
            } else {
                format!("{{% for {} in {}{} %}}{}{{% else %}}{}{{% endfor %}}", v, expr_src(it), r, stmts_src(b), stmts_src(el))
            }
        }
        S::If(c, a, b) => format!("{{% if {} %}}{}{{% else %}}{}{{% endif %}}", expr_src(c), stmts_src(a), stmts_src(b)),
        S::With(n, e, b) => format!("{{% with {} = {} %}}{}{{% endwith %}}", n, expr_src(e), stmts_src(b)),
        S::CallBlock(m, args, b) => format!(
            "{{% call {}({}) %}}{}{{% endcall %}}",
            m,
            args.iter().map(expr_src).collect::<Vec<_>>().join(", "),
            stmts_src(b)
        ),
        S::Include(n) => format!("{{% include \"{}\" %}}", n),
        S::Block(n, b) => format!("{{% block {} %}}{}{{% endblock %}}", n, stmts_src(b)),
        S::Auto(a, b) => format!("{{% autoescape {} %}}{}{{% endautoescape %}}", a, stmts_src(b)),
    }
}

// ---- S-expressions for the Lean interpreter (MJ/Drive/C02.lean)
fn sx_list(head: &str, items: Vec<String>) -> String {
    if items.is_empty() { format!("({head})") } else { format!("({head} {})", items.join(" ")) }
}
fn nums(ps: &[u64]) -> Vec<String> {
    ps.iter().map(|p| p.to_string()).collect()
}
fn expr_sx(e: &E) -> String {
    match e {
        E::Var(n) => format!("(var {})", enc_str(n)),
        E::Lit(s) => format!("(lit {})", enc_str(s)),
        E::Bin(op, a, b) => format!("({} {} {})", if *op == "+" { "add" } else { "cat" }, expr_sx(a), expr_sx(b)),
        E::Mul(a, n) => format!("(mul {} {})", expr_sx(a), n),
        E::Filt(model, _, args, ps) => {
            let mut items = vec![enc_str(model), sx_list("ps", nums(ps))];
            items.extend(args.iter().map(expr_sx));
            sx_list("filt", items)
        }
        E::Meth(name, args, ps) => {
            let mut items = vec![enc_str(name), sx_list("ps", nums(ps))];
            items.extend(args.iter().map(expr_sx));
            sx_list("meth", items)
        }
        E::Index(a, k) => format!("(index {} {})", expr_sx(a), k),
        E::Slice(a, x, y) => format!("(slice {} {} {})", expr_sx(a), x, y),
        E::List(xs) => sx_list("list", xs.iter().map(expr_sx).collect()),
        E::Call(m, args) => {
            let mut items = vec![enc_str(m)];
            items.extend(args.iter().map(expr_sx));
            sx_list("call", items)
        }
        E::ModCall(a, m, args) => {
            let mut items = vec![enc_str(a), enc_str(m)];
            items.extend(args.iter().map(expr_sx));
            sx_list("modcall", items)
        }
        E::ModVar(a, x) => format!("(modvar {} {})", enc_str(a), enc_str(x)),
        E::NoneLit => "(none)".into(),
        E::Caller => "(caller)".into(),
        E::Super => "(super)".into(),
        E::LoopIndex => "(loopindex)".into(),
        E::LoopFirst => "(loopfirst)".into(),
        E::Not(a) => format!("(not {})", expr_sx(a)),
        E::Attr(a, k) => format!("(attr {} {})", expr_sx(a), enc_str(k)),
        E::Dict(kvs) => sx_list("dict", kvs.iter().map(|(k, v)| format!("({} {})", enc_str(k), expr_sx(v))).collect()),
        E::LoopRec(a) => format!("(looprec {})", expr_sx(a)),
        E::Cond(c, a, b) => format!("(cond {} {} {})", expr_sx(c), expr_sx(a), expr_sx(b)),
    }
}
fn stmts_sx(ss: &[S]) -> Vec<String> {
    ss.iter().map(stmt_sx).collect()
}
fn stmt_sx(s: &S) -> String {
    match s {
        S::Text(t) => format!("(text {})", enc_str(t)),
        S::Emit(e) => format!("(emit {})", expr_sx(e)),
        S::Set(n, e) => format!("(set {} {})", enc_str(n), expr_sx(e)),
        S::SetBlock(n, b, f) => {
            let mut items = vec![enc_str(n)];
            items.push(match f {
                Some((m, _, ps)) => { let mut x = vec![enc_str(m)]; x.extend(nums(ps)); sx_list("filt", x) }
                None => "(nofilt)".into(),
            });
            items.extend(stmts_sx(b));
            sx_list("setblock", items)
        }
        S::FilterBlock(m, _, ps, b) => {
            let mut items = vec![enc_str(m), sx_list("ps", nums(ps))];
            items.extend(stmts_sx(b));
            sx_list("filterblock", items)
        }
        S::For(v, it, rec, b, el) => format!("(for {} {} {} {} {})", enc_str(v), expr_sx(it), *rec as u8, sx_list("body", stmts_sx(b)), sx_list("else", stmts_sx(el))),
        S::If(c, a, b) => format!("(if {} {} {})", expr_sx(c), sx_list("then", stmts_sx(a)), sx_list("else", stmts_sx(b))),
        S::With(n, e, b) => { let mut items = vec![enc_str(n), expr_sx(e)]; items.extend(stmts_sx(b)); sx_list("with", items) }
        S::CallBlock(m, args, b) => {
            let mut items = vec![enc_str(m), sx_list("args", args.iter().map(expr_sx).collect())];
            items.extend(stmts_sx(b));
            sx_list("callblock", items)
        }
        S::Include(n) => format!("(include {})", enc_str(n)),
        S::Block(n, b) => { let mut items = vec![enc_str(n)]; items.extend(stmts_sx(b)); sx_list("block", items) }
        S::Auto(a, b) => {
            let arg = match *a { "true" => "tru".to_string(), "false" => "fals".to_string(), q => enc_str(q.trim_matches('"')) };
            let mut items = vec![arg];
            items.extend(stmts_sx(b));
            sx_list("auto", items)
        }
    }
}
fn tmpl_sx(t: &Tmpl) -> String {
    let macros: Vec<String> = t.macros.iter().map(|m| {
        let mut items = vec![enc_str(&m.name), sx_list("params", m.params.iter().map(|p| enc_str(p)).collect())];
        items.extend(stmts_sx(&m.body));
        sx_list("macro", items)
    }).collect();
    let imports: Vec<String> = t.imports.iter().filter_map(|i| match i {
        Imp::Mod(tn, a) => Some(format!("(mod {} {})", enc_str(tn), enc_str(a))),
        Imp::From(_, ns) if ns.is_empty() => None,
        Imp::From(tn, ns) => {
            let mut items = vec![enc_str(tn)];
            items.extend(ns.iter().map(|(n, a)| format!("({} {})", enc_str(n), enc_str(a))));
            Some(sx_list("from", items))
        }
    }).collect();
    let mut items = vec![enc_str(&t.name), t.extends.as_ref().map(|p| enc_str(p)).unwrap_or("_".into()),
        sx_list("imports", imports), sx_list("pre", stmts_sx(&t.pre)), sx_list("macros", macros)];
    items.extend(stmts_sx(&t.body));
    sx_list("tmpl", items)
}
fn prog_sx(templates: &[Tmpl], main: &str, cfg: &Cfg) -> String {
    let modes: Vec<String> = cfg.modes.iter().map(|(n, m)| format!("({} {})", enc_str(n), m)).collect();
    let mut items = vec![enc_str(main), sx_list("modes", modes), format!("(fmt {})", if cfg.fmt_none_undef { "noneundef" } else { "default" })];
    items.extend(templates.iter().map(tmpl_sx));
    sx_list("prog", items)
}
/// encoded context value (`S0:` `I:` `B:` `N` `L(..)` `M(..)`) → S-expression
fn cv_sx(enc: &str) -> String {
    fn go(p: &mut P) -> String {
        let t = p.token();
        if (t == "L" || t == "M") && p.peek() == b'(' {
            let is_map = t == "M";
            p.i += 1;
            let mut xs = vec![];
            while p.peek() != b')' {
                if is_map {
                    let k = p.token();
                    p.i += 1;
                    let v = go(p);
                    xs.push(format!("({} {})", if k.is_empty() { "-".to_string() } else { k }, v));
                } else {
                    xs.push(go(p));
                }
                if p.peek() == b';' {
                    p.i += 1;
                }
            }
            p.i += 1;
            return sx_list(if is_map { "m" } else { "l" }, xs);
        }
        if let Some(r) = t.strip_prefix("S0:") {
            return format!("(s {})", if r.is_empty() { "-" } else { r });
        }
        if let Some(r) = t.strip_prefix("I:") {
            return format!("(i {r})");
        }
        if let Some(r) = t.strip_prefix("B:") {
            return format!("(b {r})");
        }
        if let Some(r) = t.strip_prefix("Y:") {
            return format!("(y {r})");
        }
        if let Some(r) = t.strip_prefix("F:") {
            return format!("(f {})", if r.is_empty() { "-" } else { r });
        }
        if let Some(r) = t.strip_prefix("O:") {
            return format!("(o {})", if r.is_empty() { "-" } else { r });
        }
        if t == "N" {
            return "(n)".into();
        }
        panic!("context value not expressible: {t}");
    }
    go(&mut P { s: enc.as_bytes(), i: 0 })
}
fn ctx_sx(ctx: &serde_json::Map<String, serde_json::Value>) -> String {
    sx_list("ctx", ctx.iter().map(|(k, v)| format!("({} {})", enc_str(k), cv_sx(v.as_str().unwrap()))).collect())
}

fn header_src(t: &Tmpl) -> String {
    let mut s = String::new();
    for imp in &t.imports {
        match imp {
            Imp::Mod(from, alias) => s.push_str(&format!("{{% import \"{}\" as {} %}}", from, alias)),
            Imp::From(from, names) => {
                if !names.is_empty() {
                    let ns: Vec<String> = names.iter().map(|(n, a)| if n == a { n.clone() } else { format!("{n} as {a}") }).collect();
                    s.push_str(&format!("{{% from \"{}\" import {} %}}", from, ns.join(", ")));
                }
            }
        }
    }
    s.push_str(&stmts_src(&t.pre));
    for m in &t.macros {
        s.push_str(&format!("{{% macro {}({}) %}}{}{{% endmacro %}}", m.name, m.params.join(", "), stmts_src(&m.body)));
    }
    s
}

fn tmpl_src(t: &Tmpl) -> String {
    let mut s = String::new();
    if let Some(p) = &t.extends {
        s.push_str(&format!("{{% extends \"{}\" %}}", p));
    }
    s.push_str(&header_src(t));
    s.push_str(&stmts_src(&t.body));
    s
}

#[derive(Clone, Debug)]
struct Tree {
    name: String,
    children: Vec<Tree>,
}

struct Program {
    templates: Vec<Tmpl>,
    main: String,
    strs: Vec<(String, String)>,
    lists: Vec<(String, Vec<String>)>,
    flags: Vec<(String, bool)>,
    tree: Vec<Tree>,
    /// context values that are not strings: name → encoded value (bytes, object, float, 128-bit integer)
    kinds: Vec<(String, String)>,
    cfg: Cfg,
}

// ---- generator
#[derive(Clone)]
struct Scope {
    strs: Vec<String>,
    lists: Vec<String>,
    flags: Vec<String>,
    in_loop: bool,
    caller: bool,
    sup: bool,
    /// callable macros: name to call it by, number of parameters, uses caller(), module alias (`L.name(…)`)
    macros: Vec<(String, usize, bool, Option<String>)>,
    /// variables of imported modules: (alias, name)
    modvars: Vec<(String, String)>,
    /// module aliases that may be printed as a whole (`{{ L }}`)
    modprint: Vec<String>,
    includes: Vec<String>,
    allow_include: bool,
}

struct Gen {
    rng: Rng,
    nvar: usize,
    feats: Vec<&'static str>,
}

const DATA_ALPHA: [&str; 12] = ["<", ">", "\"", "'", "&", "α", "β", "γ", " ", "\n", "/", "Δ"];
const TEXT_ALPHA: [&str; 14] = ["a", "b", "xy", " ", ":", "-", "(", ")", ".", "=", "7", "Z", ", ", "!"];

impl Gen {
    fn fresh(&mut self, p: &str) -> String {
        self.nvar += 1;
        format!("{p}{}", self.nvar)
    }
    fn data(&mut self, max: u64) -> String {
        let n = 1 + self.rng.below(max);
        (0..n).map(|_| *self.rng.pick(&DATA_ALPHA)).collect()
    }
    fn text(&mut self) -> String {
        let n = 1 + self.rng.below(4);
        (0..n).map(|_| *self.rng.pick(&TEXT_ALPHA)).collect()
    }
    fn feat(&mut self, f: &'static str) {
        if !self.feats.contains(&f) {
            self.feats.push(f);
        }
    }
    /// a context value that is not a string (bytes valid / invalid UTF-8, object, float, 128-bit integer)
    fn kind_var(&mut self) -> E {
        E::Var(self.rng.pick(&["kb", "kv", "ko", "kf", "ki"]).to_string())
    }
    /// an expression that prints / stringifies such a value
    fn kind_expr(&mut self, sc: &Scope) -> E {
        self.feat("value-kinds");
        let k = self.kind_var();
        match self.rng.below(8) {
            0 | 1 => k,
            2 => E::Filt("escape".into(), "e".into(), vec![k], vec![]),
            3 => E::Filt("string".into(), "string".into(), vec![k], vec![]),
            4 => E::Bin("~", Box::new(k), Box::new(self.str_expr(1, sc))),
            5 => E::Filt("join".into(), "join({1})".into(), vec![E::List(vec![k, self.str_expr(1, sc), self.kind_var()]), self.str_expr(1, sc)], vec![]),
            6 => { let x = self.rng.below(3) as usize; let y = x + self.rng.below(6) as usize; E::Slice(Box::new(E::Var(if self.rng.chance(1, 2) { "kb" } else { "kv" }.to_string())), x, y) }
            _ => E::Filt("default".into(), "default({1})".into(), vec![E::Var("nope".into()), k], vec![0]),
        }
    }
    fn str_expr(&mut self, depth: usize, sc: &Scope) -> E {
        if self.rng.chance(1, 16) {
            // the text of a non-string value as a string operand of whatever comes next
            self.feat("value-kinds");
            return E::Filt("string".into(), "string".into(), vec![self.kind_var()], vec![]);
        }
        if depth == 0 || self.rng.chance(1, 4) {
            if !sc.modvars.is_empty() && self.rng.chance(1, 5) {
                self.feat("module-variable");
                let (a, x) = self.rng.pick(&sc.modvars).clone();
                return E::ModVar(a, x);
            }
            return if !sc.strs.is_empty() && self.rng.chance(3, 4) { E::Var(self.rng.pick(&sc.strs).clone()) } else { E::Lit(self.data(5)) };
        }
        let d = depth - 1;
        match self.rng.below(27) {
            24 => {
                self.feat("method-str");
                let m = *self.rng.pick(&["upper", "lower", "title", "strip", "lstrip", "rstrip", "capitalize"]);
                E::Meth(m.into(), vec![self.sure_str(d, sc)], vec![])
            }
            25 => {
                self.feat("method-replace");
                E::Meth("replace".into(), vec![self.sure_str(d, sc), self.pattern_str(sc), self.sure_str(d, sc)], vec![])
            }
            26 => {
                if self.rng.chance(1, 2) {
                    self.feat("method-join");
                    E::Meth("join".into(), vec![self.sure_str(d, sc), self.list_expr(d, sc)], vec![])
                } else {
                    self.feat("method-dict");
                    let kvs = vec![("a".to_string(), self.str_expr(d, sc)), ("b".to_string(), self.str_expr(d, sc))];
                    let k = if self.rng.chance(1, 2) { "a" } else { "zz" };
                    E::Meth("get".into(), vec![E::Dict(kvs), E::Lit(k.into()), self.str_expr(d, sc)], vec![])
                }
            }
            0 => { self.feat("~"); E::Bin("~", Box::new(self.str_expr(d, sc)), Box::new(self.str_expr(d, sc))) }
            1 => { self.feat("+"); E::Bin("+", Box::new(self.sure_str(d, sc)), Box::new(self.sure_str(d, sc))) }
            2 => { self.feat("*"); let n = self.rng.below(3) as u32; E::Mul(Box::new(self.sure_str(d, sc)), n) }
            3 => {
                let (m, syn, ps): (&str, &str, Vec<u64>) = match self.rng.below(10) {
                    0 => ("escape", "e", vec![]),
                    1 => ("upper", "upper", vec![]),
                    2 => ("lower", "lower", vec![]),
                    3 => ("capitalize", "capitalize", vec![]),
                    4 => ("title", "title", vec![]),
                    5 => ("trim", "trim", vec![]),
                    6 => ("reverse", "reverse", vec![]),
                    7 => ("indent", "indent(2)", vec![2, 0, 0]),
                    8 => ("string", "string", vec![]),
                    _ => ("indent", "indent(1, true)", vec![1, 1, 0]),
                };
                self.feat("filter1");
                E::Filt(m.into(), syn.into(), vec![self.str_expr(d, sc)], ps)
            }
            4 | 5 => { self.feat("replace"); E::Filt("replace".into(), "replace({1}, {2})".into(), vec![self.str_expr(d, sc), self.pattern(sc), self.str_expr(d, sc)], vec![]) }
            6 | 7 => {
                self.feat("join");
                if self.rng.chance(1, 4) {
                    E::Filt("join".into(), "join".into(), vec![self.list_expr(d, sc)], vec![])
                } else {
                    E::Filt("join".into(), "join({1})".into(), vec![self.list_expr(d, sc), self.str_expr(d, sc)], vec![])
                }
            }
            8 => { self.feat("first/last"); let m = if self.rng.chance(1, 2) { "first" } else { "last" }; let a = if self.rng.chance(1, 2) { self.list_expr(d, sc) } else { self.sure_str(d, sc) }; E::Filt(m.into(), m.into(), vec![a], vec![]) }
            9 => { self.feat("default"); E::Filt("default".into(), "default({1})".into(), vec![self.str_expr(d, sc), self.str_expr(d, sc)], vec![0]) }
            10 => {
                self.feat("truncate");
                let len = 4 + self.rng.below(5);
                let kw = self.rng.below(2);
                E::Filt("truncate".into(), format!("truncate(length={len}, killwords={}, end={{1}}, leeway=0)", if kw == 1 { "true" } else { "false" }),
                    vec![self.str_expr(d, sc), self.short_str(sc)], vec![len, 0, kw])
            }
            11 => {
                self.feat("index");
                if self.rng.chance(1, 2) {
                    let s = self.data(4);
                    let k = self.rng.below(s.chars().count() as u64) as usize;
                    E::Index(Box::new(E::Lit(s)), k)
                } else {
                    let n = 1 + self.rng.below(3);
                    let k = self.rng.below(n) as usize;
                    let xs = (0..n).map(|_| self.str_expr(d, sc)).collect();
                    E::Index(Box::new(E::List(xs)), k)
                }
            }
            12 => { self.feat("slice"); let x = self.rng.below(2) as usize; let y = x + self.rng.below(4) as usize; E::Slice(Box::new(self.sure_str(d, sc)), x, y) }
            13 | 14 | 15 => {
                let ms: Vec<_> = sc.macros.iter().filter(|m| !m.2).cloned().collect();
                if ms.is_empty() { return self.str_expr(d, sc); }
                self.feat("macro-call");
                let (name, np, _, alias) = self.rng.pick(&ms).clone();
                let args = (0..np).map(|_| self.str_expr(d, sc)).collect();
                match alias {
                    Some(a) => { self.feat("module-macro-call"); E::ModCall(a, name, args) }
                    None => E::Call(name, args),
                }
            }
            16 => if sc.caller { self.feat("caller()"); E::Caller } else { self.str_expr(d, sc) },
            17 => if sc.sup { self.feat("super()"); E::Super } else { self.str_expr(d, sc) },
            18 => if sc.in_loop { self.feat("loop.index"); E::Bin("~", Box::new(E::LoopIndex), Box::new(self.str_expr(d, sc))) } else { self.str_expr(d, sc) },
            19 => { self.feat("cond-expr"); let c = self.cond_expr(sc); E::Cond(Box::new(c), Box::new(self.str_expr(d, sc)), Box::new(self.str_expr(d, sc))) }
            22 => {
                self.feat("dict-attr");
                let kvs = vec![("a".to_string(), self.str_expr(d, sc)), ("b".to_string(), self.str_expr(d, sc))];
                let k = if self.rng.chance(1, 2) { "a" } else { "b" };
                E::Attr(Box::new(E::Dict(kvs)), k.to_string())
            }
            20 | 21 => {
                self.feat("format");
                let (fmt, n): (&str, usize) = *self.rng.pick(&[("%s", 1), ("%s-%s", 2), ("[%5s]", 1), ("%-4s|%s", 2), ("%.2s", 1), ("%s%%", 1)]);
                let mut args = vec![E::Lit(fmt.to_string())];
                for _ in 0..n { args.push(self.str_expr(d, sc)); }
                let syn = format!("format({})", (1..=n).map(|i| format!("{{{i}}}")).collect::<Vec<_>>().join(", "));
                E::Filt("format".into(), syn, args, vec![])
            }
            _ => E::Filt("escape".into(), "escape".into(), vec![self.str_expr(d, sc)], vec![]),
        }
    }
    /// an expression that certainly evaluates to a string (never undefined / a sequence)
    fn sure_str(&mut self, depth: usize, sc: &Scope) -> E {
        let ctx: Vec<String> = sc.strs.iter().filter(|s| s.starts_with('d') || s.starts_with('c') || s.starts_with('k')).cloned().collect();
        match self.rng.below(5) {
            0 | 1 if !ctx.is_empty() => E::Var(self.rng.pick(&ctx).clone()),
            2 if depth > 0 => E::Bin("~", Box::new(self.str_expr(depth - 1, sc)), Box::new(self.str_expr(depth - 1, sc))),
            3 if depth > 0 => { let (m, s, p) = self.block_filter(); E::Filt(m, s, vec![self.sure_str(depth - 1, sc)], p) }
            _ => E::Lit(self.data(4)),
        }
    }
    /// a search pattern that certainly is a string
    fn pattern_str(&mut self, sc: &Scope) -> E {
        if self.rng.chance(1, 2) { E::Lit(self.rng.pick(&["α", "<", "&", "'", "&lt;", "β", " ", "amp;"]).to_string()) } else { self.sure_str(0, sc) }
    }
    /// a condition: flag, loop.first, truthiness of a string / list variable, negation
    fn cond_expr(&mut self, sc: &Scope) -> E {
        match self.rng.below(6) {
            0 if sc.in_loop => { self.feat("loop.first"); E::LoopFirst }
            1 if !sc.strs.is_empty() => E::Var(self.rng.pick(&sc.strs).clone()),
            2 if !sc.lists.is_empty() => E::Var(self.rng.pick(&sc.lists).clone()),
            3 => E::Not(Box::new(self.cond_expr(sc))),
            _ if !sc.flags.is_empty() => E::Var(self.rng.pick(&sc.flags).clone()),
            _ => E::Lit(self.data(1)),
        }
    }
    fn pattern(&mut self, sc: &Scope) -> E {
        match self.rng.below(4) {
            0 => E::Lit(self.rng.pick(&["α", "<", "&", "'", "&lt;", "β", " ", "amp;"]).to_string()),
            1 if !sc.strs.is_empty() => E::Var(self.rng.pick(&sc.strs).clone()),
            _ => E::Lit(self.data(2)),
        }
    }
    fn short_str(&mut self, sc: &Scope) -> E {
        if !sc.strs.is_empty() && self.rng.chance(1, 3) {
            // a variable may be longer than the length; that is an engine error the model reports too
            E::Slice(Box::new(self.sure_str(0, sc)), 0, 2)
        } else {
            E::Lit(self.data(2))
        }
    }
    /// list expression of known length (usable as loop iterable)
    fn iter_expr(&mut self, depth: usize, sc: &Scope) -> E {
        match self.rng.below(8) {
            0 | 1 if !sc.lists.is_empty() => E::Var(self.rng.pick(&sc.lists).clone()),
            2 => { let n = self.rng.below(4); E::List((0..n).map(|_| self.str_expr(depth.saturating_sub(1), sc)).collect()) }
            3 if !sc.lists.is_empty() => E::Filt("reverse".into(), "reverse".into(), vec![E::Var(self.rng.pick(&sc.lists).clone())], vec![]),
            4 if !sc.lists.is_empty() => { self.feat("map"); E::Filt("map.upper".into(), "map(\"upper\")".into(), vec![E::Var(self.rng.pick(&sc.lists).clone())], vec![]) }
            5 if !sc.lists.is_empty() => { let y = 1 + self.rng.below(2) as usize; E::Slice(Box::new(E::Var(self.rng.pick(&sc.lists).clone())), 0, y) }
            6 => { self.feat("iter-chars"); E::Lit(self.data(3)) }
            _ if !sc.lists.is_empty() => E::Var(self.rng.pick(&sc.lists).clone()),
            _ => E::List(vec![E::Lit(self.data(3))]),
        }
    }
    fn list_expr(&mut self, depth: usize, sc: &Scope) -> E {
        if depth == 0 {
            return self.iter_expr(0, sc);
        }
        let d = depth - 1;
        match self.rng.below(8) {
            0 => { self.feat("split"); let sep = E::Lit(self.rng.pick(&["α", " ", "<", "&", "'", "β"]).to_string()); E::Filt("split".into(), "split({1})".into(), vec![self.str_expr(d, sc), sep], vec![]) }
            1 => { self.feat("split"); E::Filt("split".into(), "split".into(), vec![self.str_expr(d, sc)], vec![]) }
            2 => { self.feat("lines"); E::Filt("lines".into(), "lines".into(), vec![self.str_expr(d, sc)], vec![]) }
            3 => { self.feat("list"); E::Filt("list".into(), "list".into(), vec![self.str_expr(d, sc)], vec![]) }
            4 => { self.feat("map"); E::Filt("map.escape".into(), "map(\"e\")".into(), vec![self.list_expr(d, sc)], vec![]) }
            6 => {
                self.feat("method-split");
                if self.rng.chance(1, 2) {
                    let sep = E::Lit(self.rng.pick(&["α", " ", "<", "&", "'", "β"]).to_string());
                    E::Meth("split".into(), vec![self.sure_str(d, sc), sep], vec![])
                } else {
                    E::Meth("splitlines".into(), vec![self.sure_str(d, sc)], vec![])
                }
            }
            5 => { self.feat("map"); E::Filt("map.replace".into(), "map(\"replace\", {1}, {2})".into(), vec![self.list_expr(d, sc), self.pattern(sc), self.str_expr(d, sc)], vec![]) }
            _ => self.iter_expr(depth, sc),
        }
    }
    fn block_filter(&mut self) -> (String, String, Vec<u64>) {
        let (m, s, p): (&str, &str, Vec<u64>) = match self.rng.below(9) {
            0 => ("upper", "upper", vec![]),
            1 => ("lower", "lower", vec![]),
            2 => ("trim", "trim", vec![]),
            3 => ("title", "title", vec![]),
            4 => ("capitalize", "capitalize", vec![]),
            5 => ("indent", "indent(2)", vec![2, 0, 0]),
            6 => ("escape", "e", vec![]),
            7 => ("string", "string", vec![]),
            _ => ("reverse", "reverse", vec![]),
        };
        (m.into(), s.into(), p)
    }
    fn block(&mut self, n: usize, depth: usize, sc: &mut Scope) -> Vec<S> {
        let mut out = vec![];
        for _ in 0..n {
            let s = self.stmt(depth, sc);
            out.extend(s);
        }
        out
    }
    fn stmt(&mut self, depth: usize, sc: &mut Scope) -> Vec<S> {
        let pick = if depth == 0 { self.rng.below(8) } else { self.rng.below(32) };
        let d = depth.saturating_sub(1);
        match pick {
            0 | 1 => vec![S::Text(self.text())],
            2 if !sc.modprint.is_empty() && self.rng.chance(1, 3) => vec![S::Emit(E::Var(sc.modprint[0].clone()))],
            2..=5 => vec![S::Emit(self.str_expr(3, sc))],
            6 => if self.rng.chance(1, 6) { self.feat("none-literal"); vec![S::Emit(E::NoneLit)] } else { vec![S::Emit(self.kind_expr(sc))] },
            7 => { let v = self.fresh("v"); let e = self.str_expr(3, sc); sc.strs.push(v.clone()); vec![S::Set(v, e)] }
            8 | 9 | 10 => {
                self.feat("set-block");
                let v = self.fresh("c");
                let mut inner = sc.clone();
                let n = 1 + self.rng.below(3) as usize;
                let b = self.block(n, d, &mut inner);
                let f = if self.rng.chance(1, 3) { self.feat("set-block-filter"); Some(self.block_filter()) } else { None };
                sc.strs.push(v.clone());
                vec![S::SetBlock(v, b, f)]
            }
            11 | 12 => {
                self.feat("filter-block");
                let (m, s, p) = self.block_filter();
                let mut inner = sc.clone();
                let n = 1 + self.rng.below(3) as usize;
                vec![S::FilterBlock(m, s, p, self.block(n, d, &mut inner))]
            }
            13 | 14 | 15 => {
                self.feat("for");
                let v = self.fresh("x");
                let it = if self.rng.chance(1, 2) { self.iter_expr(2, sc) } else { self.feat("for-computed-iterable"); self.list_expr(2, sc) };
                let mut inner = sc.clone();
                inner.strs.push(v.clone());
                inner.in_loop = true;
                let n = 1 + self.rng.below(3) as usize;
                let b = self.block(n, d, &mut inner);
                let mut e2 = sc.clone();
                let el = if self.rng.chance(1, 4) { self.feat("for-else"); self.block(1, 0, &mut e2) } else { vec![] };
                vec![S::For(v, it, false, b, el)]
            }
            16 => {
                self.feat("if");
                let c = self.cond_expr(sc);
                let (mut a, mut b) = (sc.clone(), sc.clone());
                vec![S::If(c, self.block(1, d, &mut a), self.block(1, d, &mut b))]
            }
            17 => {
                if !sc.in_loop { return vec![S::Emit(self.str_expr(3, sc))]; }
                self.feat("loop.first");
                let (mut a, mut b) = (sc.clone(), sc.clone());
                vec![S::If(E::LoopFirst, self.block(1, d, &mut a), self.block(1, d, &mut b))]
            }
            18 => {
                self.feat("with");
                let v = self.fresh("w");
                let e = self.str_expr(3, sc);
                let mut inner = sc.clone();
                inner.strs.push(v.clone());
                let n = 1 + self.rng.below(2) as usize;
                vec![S::With(v, e, self.block(n, d, &mut inner))]
            }
            19 | 20 | 21 => {
                let ms: Vec<_> = sc.macros.iter().filter(|m| m.2 && m.3.is_none()).cloned().collect();
                if ms.is_empty() { return vec![S::Emit(self.str_expr(3, sc))]; }
                self.feat("call-block");
                let (name, np, _, _) = self.rng.pick(&ms).clone();
                let args = (0..np).map(|_| self.str_expr(2, sc)).collect();
                let mut inner = sc.clone();
                inner.caller = false;
                inner.in_loop = false;
                inner.sup = false;
                let n = 1 + self.rng.below(2) as usize;
                vec![S::CallBlock(name, args, self.block(n, d, &mut inner))]
            }
            22 | 23 => {
                if !sc.allow_include || sc.includes.is_empty() { return vec![S::Emit(self.str_expr(3, sc))]; }
                self.feat("include");
                vec![S::Include(self.rng.pick(&sc.includes).clone())]
            }
            24 => {
                if self.rng.chance(1, 3) {
                    // `autoescape false` / `"none"` around statements that write nothing themselves: what they
                    // capture is unmarked and escaped when it is printed under Html afterwards
                    self.feat("autoescape-off-silent");
                    let a = if self.rng.chance(1, 2) { "false" } else { "\"none\"" };
                    let mut body = vec![];
                    let n = 1 + self.rng.below(2);
                    for _ in 0..n {
                        let v = self.fresh("o");
                        if self.rng.chance(1, 2) {
                            let mut inner = sc.clone();
                            let b = self.block(2, 0, &mut inner);
                            body.push(S::SetBlock(v.clone(), b, None));
                        } else {
                            body.push(S::Set(v.clone(), self.str_expr(2, sc)));
                        }
                        sc.strs.push(v);
                    }
                    if self.rng.chance(1, 25) {
                        // … and, rarely, one that does write: the program leaves the fragment
                        self.feat("autoescape-off-writes");
                        body.push(S::Emit(self.str_expr(1, sc)));
                    }
                    return vec![S::Auto(a, body)];
                }
                self.feat("autoescape-true");
                let a = if self.rng.chance(1, 2) { "true" } else { "\"html\"" };
                let mut inner = sc.clone();
                let n = 1 + self.rng.below(2) as usize;
                vec![S::Auto(a, self.block(n, d, &mut inner))]
            }
            25 => {
                // {% for n in tree recursive %}{{ n.name }}…{% if n.children %}[{{ loop(n.children) }}]{% endif %}{% endfor %}
                self.feat("recursive-loop");
                let v = self.fresh("n");
                let node = E::Var(v.clone());
                let mut inner = sc.clone();
                inner.in_loop = true;
                let mut body = vec![S::Emit(E::Attr(Box::new(node.clone()), "name".into()))];
                if self.rng.chance(1, 2) {
                    body.extend(self.block(1, 0, &mut inner));
                }
                let kids = E::Attr(Box::new(node), "children".into());
                body.push(S::If(kids.clone(), vec![S::Text("[".into()), S::Emit(E::LoopRec(Box::new(kids))), S::Text("]".into())], vec![]));
                vec![S::For(v, E::Var("tree".into()), true, body, vec![])]
            }
            26 | 27 => {
                // safe format string from a capture
                self.feat("format-safe");
                let v = self.fresh("g");
                let (fmt, n): (&str, usize) = *self.rng.pick(&[("%s", 1), ("%s and %s", 2), ("(%5s)", 1), ("%-4s=%s", 2), ("%.3s", 1)]);
                let mut args = vec![E::Var(v.clone())];
                for _ in 0..n { args.push(self.str_expr(2, sc)); }
                let syn = format!("format({})", (1..=n).map(|i| format!("{{{i}}}")).collect::<Vec<_>>().join(", "));
                let r = vec![S::SetBlock(v.clone(), vec![S::Text(fmt.to_string())], None), S::Emit(E::Filt("format".into(), syn, args, vec![]))];
                sc.strs.push(v);
                r
            }
            28 => {
                // capture, then print through operations that drop the mark
                self.feat("capture-concat");
                let v = self.fresh("k");
                let mut inner = sc.clone();
                let b = self.block(2, 0, &mut inner);
                sc.strs.push(v.clone());
                vec![S::SetBlock(v.clone(), b, None), S::Emit(E::Var(v.clone())), S::Emit(E::Bin("~", Box::new(E::Var(v)), Box::new(self.str_expr(1, sc))))]
            }
            _ => vec![S::Emit(self.str_expr(4, sc))],
        }
    }
    fn macro_def(&mut self, sc: &Scope, uses_caller: bool) -> MacroDef {
        let name = self.fresh(if uses_caller { "mc" } else { "m" });
        let np = self.rng.below(3) as usize;
        let params: Vec<String> = (0..np).map(|_| self.fresh("p")).collect();
        let mut inner = sc.clone();
        inner.strs = sc.strs.iter().filter(|s| s.starts_with('d') || s.starts_with('t')).cloned().collect();
        inner.modvars = vec![];
        inner.modprint = vec![];
        inner.strs.extend(params.iter().cloned());
        inner.in_loop = false;
        inner.sup = false;
        inner.caller = uses_caller;
        inner.allow_include = false;
        let n = 1 + self.rng.below(3) as usize;
        let mut body = self.block(n, 1, &mut inner);
        if uses_caller {
            body.push(S::Emit(E::Caller));
            if self.rng.chance(1, 2) {
                body.push(S::Text(self.text()));
            }
        }
        MacroDef { name, params, body, uses_caller }
    }
}

fn gen_program(seed: u64, idx: u64) -> (Program, Vec<&'static str>, Vec<S>, bool) {
    let _ = idx;
    let mut g = Gen { rng: Rng(seed), nvar: 0, feats: vec![] };
    let strs: Vec<(String, String)> = (0..3).map(|i| (format!("d{i}"), g.data(6))).collect();
    let lists: Vec<(String, Vec<String>)> = vec![
        ("xs".to_string(), { let n = 1 + g.rng.below(3); (0..n).map(|_| g.data(4)).collect() }),
        ("ys".to_string(), { let n = g.rng.below(3); (0..n).map(|_| g.data(3)).collect() }),
    ];
    let flags = vec![("f0".to_string(), g.rng.chance(1, 2)), ("f1".to_string(), g.rng.chance(1, 2))];
    let tree = vec![
        Tree { name: g.data(3), children: vec![Tree { name: g.data(3), children: vec![] }, Tree { name: g.data(2), children: vec![Tree { name: g.data(2), children: vec![] }] }] },
        Tree { name: g.data(3), children: vec![] },
    ];
    let kinds = {
        let t = g.data(5);
        let mut inv = vec![0xFFu8];
        inv.extend_from_slice(t.as_bytes());
        inv.extend_from_slice(&[0xC3, 0x28, 0x80]);
        let fl = *g.rng.pick(&["1.5", "-0.25", "1e100", "inf", "NaN", "3.0"]);
        let big = *g.rng.pick(&["170141183460469231731687303715884105727", "-170141183460469231731687303715884105728", "18446744073709551616"]);
        vec![
            ("kb".to_string(), format!("Y:{}", enc_bytes(&inv))),
            ("kv".to_string(), format!("Y:{}", enc_bytes(g.data(5).as_bytes()))),
            ("ko".to_string(), format!("O:{}", enc_str(&g.data(5)))),
            // the model is given the text the engine's number formatter produces for this float
            ("kf".to_string(), format!("F:{}", enc_str(&Value::from(fl.parse::<f64>().unwrap()).to_string()))),
            ("ki".to_string(), format!("I:{big}")),
        ]
    };
    let base_scope = Scope {
        strs: strs.iter().map(|s| s.0.clone()).collect(), lists: lists.iter().map(|s| s.0.clone()).collect(),
        flags: flags.iter().map(|s| s.0.clone()).collect(), in_loop: false, caller: false, sup: false,
        macros: vec![], modvars: vec![], modprint: vec![], includes: vec![], allow_include: false,
    };
    let mut templates = vec![];
    let mut cfg = Cfg::default();
    // ---- library of macros and top-level variables; its name selects ITS auto-escape mode, the macros run
    //      in the mode of whoever calls them, the variables are computed in the library's mode
    let lib_name = g.rng.pick(&["lib.html", "lib.html", "lib.html", "lib.txt", "macros/lib.xml", "lib.md", "lib.html.j2", "lib.txt.jinja"]).to_string();
    if !lib_name.contains("html") && !lib_name.contains("xml") { g.feat("library-with-other-mode"); }
    let mut lib = Tmpl { name: lib_name.clone(), ..Default::default() };
    let mut lsc = base_scope.clone();
    let npre = g.rng.below(3);
    for _ in 0..npre {
        g.feat("library-variable");
        let v = g.fresh("t");
        if g.rng.chance(1, 2) {
            let mut inner = lsc.clone();
            let nb = 1 + g.rng.below(2) as usize;
            let b = g.block(nb, 0, &mut inner);
            lib.pre.push(S::SetBlock(v.clone(), b, None));
        } else {
            lib.pre.push(S::Set(v.clone(), g.str_expr(2, &lsc)));
        }
        lsc.strs.push(v);
    }
    let lib_vars: Vec<String> = lsc.strs.iter().filter(|s| s.starts_with('t')).cloned().collect();
    let nlib = g.rng.below(3);
    for i in 0..nlib {
        let uc = i == 1 || g.rng.chance(1, 4);
        let m = g.macro_def(&lsc, uc);
        lsc.macros.push((m.name.clone(), m.params.len(), m.uses_caller, None));
        lib.macros.push(m);
    }
    if g.rng.chance(1, 4) {
        // whatever the library writes at its top level ends up in the module object (or is discarded)
        g.feat("library-top-level-output");
        lib.body = g.block(1, 0, &mut lsc.clone());
    }
    let lib_names: Vec<String> = lib.macros.iter().map(|m| m.name.clone()).collect();
    let lib_macros = lsc.macros.clone();
    templates.push(lib);
    // ---- how the other templates import it
    let mut sc = base_scope.clone();
    let imports: Vec<Imp> = if g.rng.chance(2, 5) && !(lib_names.is_empty() && lib_vars.is_empty()) {
        g.feat("import-as-module");
        // the module for plain macros and variables, `from … import` for the macros used by call blocks
        let from: Vec<(String, String)> = lib_macros.iter().filter(|m| m.2).map(|m| (m.0.clone(), m.0.clone())).collect();
        for m in &lib_macros {
            sc.macros.push((m.0.clone(), m.1, m.2, if m.2 { None } else { Some("L".to_string()) }));
        }
        for v in &lib_vars {
            sc.modvars.push(("L".to_string(), v.clone()));
        }
        if g.rng.chance(1, 3) {
            g.feat("module-printed");
            sc.modprint.push("L".to_string());
        }
        vec![Imp::Mod(lib_name.clone(), "L".into()), Imp::From(lib_name.clone(), from)]
    } else {
        let mut from = vec![];
        for m in &lib_macros {
            let alias = if g.rng.chance(1, 3) { g.feat("import-alias"); format!("{}a", m.0) } else { m.0.clone() };
            sc.macros.push((alias.clone(), m.1, m.2, None));
            from.push((m.0.clone(), alias));
        }
        for v in &lib_vars {
            g.feat("imported-variable");
            let alias = if g.rng.chance(1, 3) { format!("{v}a") } else { v.clone() };
            sc.strs.push(alias.clone());
            from.push((v.clone(), alias));
        }
        vec![Imp::From(lib_name.clone(), from)]
    };
    // ---- included template
    let inc_name = *g.rng.pick(&["inc.html", "parts/inc.xml", "inc.html", "parts/inc.xml", "inc.htm", "inc.txt"]);
    let mut inc = Tmpl { name: inc_name.into(), imports: imports.clone(), ..Default::default() };
    let mut isc = sc.clone();
    let n = 1 + g.rng.below(3) as usize;
    inc.body = g.block(n, 1, &mut isc);
    templates.push(inc);
    sc.includes.push(inc_name.to_string());
    // ---- main
    let main_name = g.rng.pick(&["main.html", "main.xml", "page.htm", "main.html.j2", "sub/main.xml.jinja", "main.html", "main.xml", "page.tpl", "main.txt"]).to_string();
    if g.rng.chance(1, 8) || main_name == "page.tpl" {
        // `Environment::set_auto_escape_callback`: a custom callback decides some names
        g.feat("custom-auto-escape-callback");
        if main_name == "page.tpl" || main_name == "main.txt" {
            cfg.modes.push((main_name.clone(), 'h'));
        }
        if g.rng.chance(1, 2) {
            cfg.modes.push((lib_name.clone(), *g.rng.pick(&['h', 'n'])));
        }
        if inc_name == "inc.txt" {
            cfg.modes.push((inc_name.to_string(), 'h'));
        }
        if cfg.modes.is_empty() {
            cfg.modes.push(("unused.txt".into(), 'h'));
        }
    }
    if g.rng.chance(1, 10) {
        g.feat("custom-formatter");
        cfg.fmt_none_undef = true;
    }
    if g.rng.chance(1, 4) {
        // `Environment::set_path_join_callback`: every reference (include / import / from / extends) is written
        // as an alias the callback resolves
        cfg.join = *g.rng.pick(&["noext", "otherext", "dir", "noext"]);
        g.feat(match cfg.join { "noext" => "path-join-noext", "otherext" => "path-join-otherext", _ => "path-join-dir" });
    }
    let mut main = Tmpl { name: main_name.clone(), imports: imports.clone(), ..Default::default() };
    let nm = g.rng.below(3);
    for _ in 0..nm {
        let uc = g.rng.chance(1, 3);
        let m = g.macro_def(&sc, uc);
        sc.macros.push((m.name.clone(), m.params.len(), m.uses_caller, None));
        main.macros.push(m);
    }
    let inherit = g.rng.chance(3, 10);
    let mut wrap_body = vec![];
    if inherit {
        g.feat("extends");
        // base: text + blocks; optional middle; main overrides
        let base_name = *g.rng.pick(&["base.html", "base.html", "layout.txt", "base.xml"]);
        let mut base = Tmpl { name: base_name.into(), imports: imports.clone(), ..Default::default() };
        let mut bsc = sc.clone();
        bsc.macros = sc.macros.iter().filter(|m| lib_macros.iter().any(|l| l.0 == m.0 || format!("{}a", l.0) == m.0)).cloned().collect();
        bsc.includes = sc.includes.clone();
        bsc.allow_include = true;
        let mut body = vec![];
        for bn in ["b1", "b2"] {
            let k = g.rng.below(2) as usize;
            body.extend(g.block(k, 1, &mut bsc.clone()));
            let k = 1 + g.rng.below(2) as usize;
            body.push(S::Block(bn.to_string(), g.block(k, 1, &mut bsc.clone())));
        }
        body.extend(g.block(1, 1, &mut bsc.clone()));
        base.body = body;
        templates.push(base);
        let mut parent = base_name.to_string();
        if g.rng.chance(1, 3) {
            g.feat("extends-3-levels");
            let mut mid = Tmpl { name: "mid.xml".into(), extends: Some(parent.clone()), imports: imports.clone(), ..Default::default() };
            let mut msc = bsc.clone();
            msc.sup = true;
            let k = 1 + g.rng.below(2) as usize;
            mid.body = vec![S::Block("b1".into(), g.block(k, 1, &mut msc))];
            templates.push(mid);
            parent = "mid.xml".into();
        }
        main.extends = Some(parent);
        let mut csc = sc.clone();
        csc.sup = true;
        csc.allow_include = true;
        // (the child's own macros are declared after these statements: only the imported ones are callable)
        let mut presc = sc.clone();
        presc.macros = bsc.macros.clone();
        // statements of the child outside blocks: executed with the output discarded, what they set is seen by the blocks
        if g.rng.chance(1, 2) {
            g.feat("child-statements-outside-blocks");
            let v = g.fresh("t");
            if g.rng.chance(1, 2) {
                let mut inner = presc.clone();
                let nb = 1 + g.rng.below(2) as usize;
                let b = g.block(nb, 0, &mut inner);
                main.pre.push(S::SetBlock(v.clone(), b, None));
            } else {
                main.pre.push(S::Set(v.clone(), g.str_expr(2, &presc)));
            }
            main.pre.push(S::Text(g.text()));
            main.pre.push(S::Emit(g.str_expr(2, &presc)));
            csc.strs.push(v);
        }
        let mut body = vec![];
        for bn in ["b1", "b2"] {
            if g.rng.chance(2, 3) {
                let k = 1 + g.rng.below(3) as usize;
                body.push(S::Block(bn.to_string(), g.block(k, 2, &mut csc.clone())));
            }
            if g.rng.chance(1, 4) {
                body.push(S::Text(g.text()));
            }
        }
        main.body = body;
    } else {
        let mut msc = sc.clone();
        msc.allow_include = true;
        let n = 2 + g.rng.below(5) as usize;
        main.body = g.block(n, 2, &mut msc);
        wrap_body = main.body.clone();
    }
    templates.push(main);
    let feats = g.feats.clone();
    (Program { templates, main: main_name, strs, lists, flags, tree, kinds, cfg }, feats, wrap_body, inherit)
}

fn tree_enc(ts: &[Tree]) -> String {
    format!(
        "L({})",
        ts.iter()
            .map(|t| format!("M({}=S0:{};{}={})", enc_str("name"), enc_str(&t.name), enc_str("children"), tree_enc(&t.children)))
            .collect::<Vec<_>>()
            .join(";")
    )
}

fn prog_ctx(p: &Program) -> serde_json::Map<String, serde_json::Value> {
    let mut ctx = serde_json::Map::new();
    for (n, s) in &p.strs {
        ctx.insert(n.clone(), json!(format!("S0:{}", enc_str(s))));
    }
    for (n, xs) in &p.lists {
        ctx.insert(n.clone(), json!(format!("L({})", xs.iter().map(|s| format!("S0:{}", enc_str(s))).collect::<Vec<_>>().join(";"))));
    }
    for (n, b) in &p.flags {
        ctx.insert(n.clone(), json!(format!("B:{}", *b as u8)));
    }
    for (n, e) in &p.kinds {
        ctx.insert(n.clone(), json!(e));
    }
    ctx.insert("tree".into(), json!(tree_enc(&p.tree)));
    ctx
}

/// case json of a program given as AST: template sources for the engine, S-expressions for the model
fn prog_case(stream: &str, templates: &[Tmpl], main: &str, ctx: &serde_json::Map<String, serde_json::Value>, strict: bool, extra: serde_json::Value) -> serde_json::Value {
    prog_case_cfg(stream, templates, main, ctx, strict, &Cfg::default(), extra)
}

fn prog_case_cfg(stream: &str, templates: &[Tmpl], main: &str, ctx: &serde_json::Map<String, serde_json::Value>, strict: bool, cfg: &Cfg, extra: serde_json::Value) -> serde_json::Value {
    let mut t = serde_json::Map::new();
    // path-join callback: written name -> resolved name (only the SOURCES use the written names)
    let mut join: BTreeMap<String, String> = BTreeMap::new();
    if !cfg.join.is_empty() {
        for tm in templates {
            let w = written_name(cfg.join, &tm.name, mode_char(&tm.name, cfg));
            if w != tm.name && !templates.iter().any(|x| x.name == w) && !join.contains_key(&w) {
                join.insert(w, tm.name.clone());
            }
        }
    }
    let inv: BTreeMap<String, String> = join.iter().map(|(w, n)| (n.clone(), w.clone())).collect();
    let f = |n: &str| inv.get(n).cloned().unwrap_or_else(|| n.to_string());
    for tm in templates {
        t.insert(tm.name.clone(), json!(if inv.is_empty() { tmpl_src(tm) } else { tmpl_src(&map_refs_tmpl(tm, &f)) }));
    }
    let mut case = json!({"s": stream, "main": main, "t": t, "ctx": ctx, "strict": strict as u8,
        "prog": prog_sx(templates, main, cfg), "ctxsx": ctx_sx(ctx)});
    if !cfg.join.is_empty() {
        case["join"] = json!(join);
        case["joinstyle"] = json!(cfg.join);
    }
    if !cfg.modes.is_empty() {
        let mut m = serde_json::Map::new();
        for (n, c) in &cfg.modes {
            m.insert(n.clone(), json!(c.to_string()));
        }
        case["modes"] = json!(m);
    }
    if cfg.fmt_none_undef {
        case["fmt"] = json!("noneundef");
    }
    if let Some(o) = extra.as_object() {
        for (k, v) in o {
            case[k] = v.clone();
        }
    }
    case
}

fn gen_programs(out: &mut impl Write, tier: &str) {
    let seed = seed_from_env();
    let n = if tier == "thorough" { 50_000 } else { 2_000 };
    let mut master = Rng::new(seed);
    for idx in 0..n {
        let (p, feats, wrap_body, inherit) = gen_program(master.next(), idx);
        let ctx = prog_ctx(&p);
        // entry-point axis: the same program through every way the host can render a template
        let entry = ["render", "captured", "captured_to", "named_str"][(idx % 4) as usize];
        let mut feats = feats;
        feats.push(match entry { "captured" => "entry-render_captured", "captured_to" => "entry-render_captured_to", "named_str" => "entry-render_named_str", _ => "entry-render" });
        // template source axis: registered up front or compiled on demand by a loader
        let source = ["owned", "borrowed", "loader"][((idx / 4) % 3) as usize];
        feats.push(match source { "loader" => "templates-from-loader", "borrowed" => "templates-borrowed", _ => "templates-owned" });
        let case = prog_case_cfg("P", &p.templates, &p.main, &ctx, true, &p.cfg, json!({"idx": idx, "seed": seed, "feats": feats, "entry": entry, "source": source}));
        let res = run_case(&case);
        writeln!(out, "{}\t{}", case, res).unwrap();
        // wrappers: the same body inside a capturing construct renders identically
        if !inherit && idx % 2 == 0 && res.starts_with("OK") {
            let kinds = ["set-block", "set-block-twice", "macro", "call-block", "filter-block", "include", "block", "block-super"];
            let kind = kinds[(idx / 2) as usize % kinds.len()];
            let mut ts: Vec<Tmpl> = p.templates.iter().filter(|x| x.name != p.main).cloned().collect();
            let mut main = p.templates.iter().find(|x| x.name == p.main).unwrap().clone();
            let b = wrap_body.clone();
            let mut wcfg = p.cfg.clone();
            match kind {
                "set-block" => main.body = vec![S::SetBlock("w".into(), b, None), S::Emit(E::Var("w".into()))],
                "set-block-twice" => main.body = vec![
                    S::SetBlock("w".into(), b, None),
                    S::SetBlock("w2".into(), vec![S::Emit(E::Var("w".into()))], None),
                    S::Emit(E::Var("w2".into())),
                ],
                "macro" => {
                    main.macros.push(MacroDef { name: "wm".into(), params: vec![], body: b, uses_caller: false });
                    main.body = vec![S::Emit(E::Call("wm".into(), vec![]))];
                }
                "call-block" => {
                    main.macros.push(MacroDef { name: "wc".into(), params: vec![], body: vec![S::Emit(E::Caller)], uses_caller: true });
                    main.body = vec![S::CallBlock("wc".into(), vec![], b)];
                }
                "filter-block" => main.body = vec![S::FilterBlock("string".into(), "string".into(), vec![], b)],
                "include" => {
                    // the included template must select the mode of the including one
                    let wname = format!("w_{}", p.main.replace('/', "_"));
                    if let Some((_, m)) = p.cfg.modes.iter().find(|(n, _)| *n == p.main) {
                        wcfg.modes.push((wname.clone(), *m));
                    }
                    main.body = vec![S::Include(wname.clone())];
                    ts.push(Tmpl { name: wname, extends: None, imports: main.imports.clone(), pre: main.pre.clone(), macros: std::mem::take(&mut main.macros), body: b });
                }
                "block" => {
                    ts.push(Tmpl { name: "wbase.html".into(), body: vec![S::Block("c".into(), vec![])], ..Default::default() });
                    main.extends = Some("wbase.html".into());
                    main.body = vec![S::Block("c".into(), b)];
                }
                _ => {
                    ts.push(Tmpl { name: "wbase.html".into(), extends: None, imports: main.imports.clone(), pre: main.pre.clone(), macros: std::mem::take(&mut main.macros), body: vec![S::Block("c".into(), b)] });
                    main.extends = Some("wbase.html".into());
                    main.body = vec![S::Block("c".into(), vec![S::Emit(E::Super)])];
                }
            }
            ts.push(main);
            let wcase = prog_case_cfg("W", &ts, &p.main, &ctx, true, &wcfg, json!({"idx": idx, "seed": seed, "kind": kind, "plain": res}));
            let wres = run_case(&wcase);
            writeln!(out, "{}\t{}", wcase, wres).unwrap();
        }
    }
}

fn main() {
    quiet_panics();
    let args: Vec<String> = std::env::args().collect();
    let stdout = std::io::stdout();
    let mut out = std::io::BufWriter::new(stdout.lock());
    match args.get(1).map(|s| s.as_str()) {
        Some("gen") => {
            let tier = args.get(2).map(|s| s.as_str()).unwrap_or("quick");
            gen_fc(&mut out, tier);
            if args.get(3).map(|s| s.as_str()) == Some("-") {
                // the table of registered callables (regenerated from the sources): `kind<TAB>name` lines
                let mut text = String::new();
                std::io::Read::read_to_string(&mut std::io::stdin(), &mut text).unwrap();
                let callables: Vec<(String, String)> = text.lines().filter_map(|l| l.split_once('\t')).map(|(k, n)| (k.to_string(), n.to_string())).collect();
                gen_generic(&mut out, &callables);
            }
            gen_modes(&mut out);
            gen_names(&mut out);
            gen_kinds(&mut out);
            gen_cross(&mut out);
            gen_blocks(&mut out);
            gen_exprs(&mut out);
            gen_formatter(&mut out);
            gen_programs(&mut out, tier);
            gen_numbers(&mut out);
            gen_x(&mut out);
        }
        Some("one") => {
            let case: serde_json::Value = serde_json::from_str(&args[2]).expect("case json");
            if let Some(t) = case["t"].as_object() {
                for (k, v) in t {
                    writeln!(out, "--- {k}\n{}", v.as_str().unwrap()).unwrap();
                }
            }
            writeln!(out, "--- ctx {}", case["ctx"]).unwrap();
            let res = run_case(&case);
            writeln!(out, "--- engine\n{res}").unwrap();
            let f: Vec<&str> = res.split('\t').collect();
            if f.len() == 3 && f[2] != "-" {
                writeln!(out, "--- output text\n{}", dec_str(f[2])).unwrap();
            }
            if let Some(m) = case["model"].as_str() {
                writeln!(out, "--- model program\n{m}").unwrap();
            }
            if let Some(m) = case["prog"].as_str() {
                writeln!(out, "--- model program (AST)\n{m}\n--- model context\n{}", case["ctxsx"].as_str().unwrap_or("")).unwrap();
            }
        }
        _ => {
            eprintln!("usage: c02 gen <quick|thorough> | one <case json>");
            std::process::exit(2);
        }
    }
}
