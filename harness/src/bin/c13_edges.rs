//! C13 edge stream: consumption adds up over every nested-evaluation edge, for every callee shape.
//!
//! A case is a PAIR of renders in one environment: `outer` = a template that reaches a callee
//! through one nested-evaluation edge (include forms, import, from-import, extends, block, super(),
//! self.block(), macro call, call block, imported macro, render_block / call_macro / Value::call
//! from Rust, filters and tests that call back into the VM, capture blocks) executed `m` times, and
//! `inner` = the callee rendered on its own the way the edge renders it (the included / imported /
//! extended template itself; the body of the macro / block / call block as a template).  The
//! property says consumption accumulates across nested evaluations, so
//!     consumed(outer) = (cost of the edge's own instructions) + m * consumed(inner)
//! where the first summand does not depend on the callee: the callee shapes include the degenerate
//! ones (empty, one piece of literal text, only a comment, whitespace stripped to nothing, only a
//! set, only a block, only macros, an extends-only child) for which an engine could be tempted to
//! skip the evaluation.
//!
//! Measured per render WITHOUT relying on hooks: `fuel_levels` at two sufficient budgets, the
//! threshold by bisection and a scan of every budget in [0, thr+2]; with the `hooks` feature also
//! the executed instruction trace.  The binary is built twice (with and without `verif_hooks`).
//!
//! usage: c13_edges gen <quick|thorough> | c13_edges one <hex>
use minijinja::value::Serde;
use minijinja::{Environment, Error, ErrorKind, State, Value};
use mjh::*;
use serde::{Deserialize, Serialize};
use serde_json::json;
use std::io::Write;

#[derive(Serialize, Deserialize, Clone)]
struct Case {
    /// marks the case format (lib/props/c13.py tells the streams apart by it)
    stream: String,
    edge: String,
    /// the callee kind: "template" (a whole template is the callee), "body" (the body of a macro / block /
    /// call block), "syntax" (the body of a capture / scope construct: no nested evaluation)
    kind: String,
    shape: String,
    /// how often the edge runs the callee
    m: u64,
    templates: Vec<(String, String)>,
    outer: String,
    inner: String,
    ctx: serde_json::Value,
}

#[cfg(feature = "hooks")]
thread_local! {
    static TRACE: std::cell::RefCell<Vec<String>> = const { std::cell::RefCell::new(Vec::new()) };
}

#[cfg(feature = "hooks")]
fn install_hook() {
    minijinja::verif_hooks::instructions::set_hook(Some(Box::new(|instr| {
        let name = match serde_json::to_value(instr) {
            Ok(v) => v.get("op").and_then(|x| x.as_str()).unwrap_or("?").to_string(),
            Err(_) => "?".to_string(),
        };
        TRACE.with(|t| t.borrow_mut().push(name));
    })));
}

fn rblock(state: &mut State, name: String) -> Result<Value, Error> {
    state.render_block(&name).map(Value::from)
}

fn cmacro(state: &mut State, name: String) -> Result<Value, Error> {
    state.call_macro(&name, &[]).map(Value::from)
}

fn apply(state: &mut State, f: Value) -> Result<Value, Error> {
    f.call(state, &[])
}

fn f_macro(state: &mut State, _v: Value, name: String) -> Result<String, Error> {
    state.call_macro(&name, &[])
}

fn t_macro(state: &mut State, _v: Value, name: String) -> Result<bool, Error> {
    state.call_macro(&name, &[]).map(|_| true)
}

fn build_env(case: &Case) -> Result<Environment<'static>, String> {
    let mut env = Environment::new();
    env.add_function("rblock", rblock);
    env.add_function("cmacro", cmacro);
    env.add_function("apply", apply);
    env.add_filter("f_macro", f_macro);
    env.add_test("t_macro", t_macro);
    for (name, src) in &case.templates {
        env.add_template_owned(name.clone(), src.clone()).map_err(|e| format!("{}: {:?}: {}", name, e.kind(), e))?;
    }
    Ok(env)
}

#[derive(Clone, PartialEq)]
enum Outcome {
    Ok(String),
    Err(String),
    Panic(String),
}

fn err_chain(e: &Error) -> String {
    let mut kinds = vec![format!("{:?}", e.kind())];
    let mut cur: &dyn std::error::Error = e;
    while let Some(next) = cur.source() {
        match next.downcast_ref::<Error>() {
            Some(me) => kinds.push(format!("{:?}", me.kind())),
            None => kinds.push("Foreign".to_string()),
        }
        cur = next;
    }
    kinds.join(">")
}

fn out_of_fuel(chain: &str) -> bool {
    let parts: Vec<&str> = chain.split('>').collect();
    parts.last() == Some(&"OutOfFuel") && parts[..parts.len() - 1].iter().all(|w| *w == "BadInclude" || *w == "EvalBlock")
}

/// one render of template `name` through render_captured: outcome, levels, executed trace
fn render(env: &mut Environment<'static>, name: &str, ctx: &serde_json::Value, fuel: Option<u64>) -> (Outcome, Option<(u64, u64)>, Vec<String>) {
    env.set_fuel(fuel);
    #[cfg(feature = "hooks")]
    TRACE.with(|t| t.borrow_mut().clear());
    let env_ref: &Environment<'static> = env;
    let res = guarded(|| -> Result<(String, Option<(u64, u64)>), Error> {
        if let Some(src) = name.strip_prefix("expr:") {
            // the entry point Expression::eval (no state comes back: no levels)
            let v = env_ref.compile_expression(src)?.eval(Value::from(Serde(ctx)))?;
            return Ok((format!("{:?}:{}", v.kind(), v), None));
        }
        let t = env_ref.get_template(name)?;
        let cap = t.render_captured(Value::from(Serde(ctx)))?;
        Ok((cap.output().to_string(), cap.state().fuel_levels()))
    });
    #[cfg(feature = "hooks")]
    let trace = TRACE.with(|t| t.borrow().clone());
    #[cfg(not(feature = "hooks"))]
    let trace = vec![];
    match res {
        Ok(Ok((s, lv))) => (Outcome::Ok(s), lv, trace),
        Ok(Err(e)) => (Outcome::Err(err_chain(&e)), None, trace),
        Err(m) => (Outcome::Panic(m), None, trace),
    }
}

fn tag(o: &Outcome, target: &Outcome) -> String {
    if o == target {
        return "same".into();
    }
    match o {
        Outcome::Ok(_) => "diff-output".into(),
        Outcome::Err(k) => format!("err:{}", k),
        Outcome::Panic(m) => format!("panic:{}", m),
    }
}

const BIG: u64 = 1 << 40;

fn measure(env: &mut Environment<'static>, name: &str, ctx: &serde_json::Value) -> serde_json::Value {
    let (unl, _, trace) = render(env, name, ctx, None);
    let mut res = match &unl {
        Outcome::Ok(s) => json!({"t": "ok", "out": s}),
        Outcome::Err(k) => json!({"t": "err", "kind": k}),
        Outcome::Panic(m) => json!({"t": "panic", "msg": m}),
    };
    res["hooks"] = json!(cfg!(feature = "hooks"));
    res["trace"] = json!(trace.join(" "));
    if !matches!(unl, Outcome::Ok(_)) {
        return res;
    }
    // levels at two sufficient budgets
    let mut lv = vec![];
    for b in [BIG, BIG + 7, u64::MAX] {
        let (o, l, _) = render(env, name, ctx, Some(b));
        lv.push(json!([b.to_string(), tag(&o, &unl), l.map(|x| x.0), l.map(|x| x.1.to_string())]));
    }
    res["levels"] = json!(lv);
    // threshold by bisection on "the unlimited output"
    let same = |env: &mut Environment<'static>, b: u64| render(env, name, ctx, Some(b)).0 == unl;
    let thr = if same(env, 0) {
        Some(0u64)
    } else {
        let mut hi = 1u64;
        while hi <= (1 << 20) && !same(env, hi) {
            hi *= 2;
        }
        if hi > (1 << 20) {
            None
        } else {
            let mut lo = hi / 2;
            while hi - lo > 1 {
                let mid = lo + (hi - lo) / 2;
                if same(env, mid) {
                    hi = mid;
                } else {
                    lo = mid;
                }
            }
            Some(hi)
        }
    };
    res["thr"] = json!(thr);
    // budget scan: every budget below the threshold is out of fuel, every one from it on succeeds
    let mut bad = vec![];
    if let Some(thr) = thr {
        let lo = thr.saturating_sub(300);
        for b in (0..=thr + 2).filter(|b| *b <= 40 || *b >= lo) {
            let (o, l, _) = render(env, name, ctx, Some(b));
            let t = tag(&o, &unl);
            let ok = if b < thr { matches!(&o, Outcome::Err(k) if out_of_fuel(k)) } else { t == "same" && l.map(|x| x.0.checked_add(x.1) == Some(b)).unwrap_or(name.starts_with("expr:")) };
            if !ok && bad.len() < 5 {
                bad.push(json!([b, t, l.map(|x| x.0), l.map(|x| x.1)]));
            }
        }
    }
    res["scan_bad"] = json!(bad);
    res
}

fn run_case(case: &Case) -> serde_json::Value {
    let mut env = match build_env(case) {
        Ok(e) => e,
        Err(e) => return json!({"compile_error": e}),
    };
    let outer = measure(&mut env, &case.outer, &case.ctx);
    let inner = measure(&mut env, &case.inner, &case.ctx);
    json!({"outer": outer, "inner": inner})
}

// ------------------------------------------------------------------------------------------------

/// callee shapes usable as a macro / block / call body as well: they name no variable from outside
/// (a macro's code depends on the free names of its body: one Enclose per name)
fn body_shapes(rng: &mut Rng, thorough: bool) -> Vec<(String, String)> {
    let mut v: Vec<(String, String)> = vec![
        ("empty", ""),
        ("raw", "plain text"),
        ("raw-multiline", "line one\nline two\n"),
        ("raw-special", "<b>&amp;\"'</b>"),
        ("raw-block", "{% raw %}{{ x }}{% endraw %}"),
        ("whitespace-only", "  \n "),
        ("comment", "{# only a comment #}"),
        ("stripped-to-nothing", "  {#- c -#}  "),
        ("stripped-set", "   {%- set q = 1 -%}   "),
        ("set", "{% set q = 1 %}"),
        ("two-raws", "a{# c #}b"),
        ("expr", "{{ 1 }}"),
        ("raw-expr-raw", "x{{ 2 }}y"),
        ("work3", "{{ 1 }}{{ 2 }}{{ 3 }}"),
        ("if", "{% if 1 %}A{% endif %}"),
        ("loop", "{% for i in [1, 2] %}{{ i }},{% endfor %}"),
        ("filter-block", "{% filter upper %}f{% endfilter %}"),
        ("include-raw", "{% include 'rawleaf' %}"),
        ("include-code", "{% include 'leaf' %}"),
        ("include-empty", "{% include 'emptyleaf' %}"),
    ]
    .into_iter()
    .map(|(a, b)| (a.to_string(), b.to_string()))
    .collect();
    let frags = ["txt", "{{ 1 }}", "{# c #}", "{% set q = 2 %}", "{% if 1 %}y{% endif %}", "{% for i in [1, 2] %}{{ i }}{% endfor %}",
                 "{% include 'rawleaf' %}", "{% include 'emptyleaf' %}", "{% filter upper %}f{% endfilter %}", " \n ", "{%- set z = 1 -%}",
                 "{% set cap %}c{% endset %}", "{% with w = 1 %}{{ w }}{% endwith %}", "{% raw %}{% x %}{% endraw %}"];
    for i in 0..if thorough { 60 } else { 8 } {
        let n = 1 + rng.below(4);
        let s: String = (0..n).map(|_| *rng.pick(&frags)).collect();
        v.push((format!("random{}", i), s));
    }
    v
}

/// callee shapes that only make sense for a whole template
fn template_shapes() -> Vec<(String, String)> {
    vec![
        ("block-only", "{% block a %}in block{% endblock %}"),
        ("empty-block", "{% block a %}{% endblock %}"),
        ("raw-block-raw", "x{% block a %}y{% endblock %}z"),
        ("macros-only", "{% macro mm() %}M{% endmacro %}"),
        ("extends-only", "{% extends 'gp' %}"),
        ("extends-override", "{% extends 'gp' %}{% block a %}o{% endblock %}"),
        ("extends-raw-parent", "{% extends 'rawleaf' %}"),
        ("context-expr", "x{{ a }}y"),
        ("context-loop", "{% for i in xs %}{{ i }}{% endfor %}"),
        ("context-if", "{% if c %}A{% else %}B{% endif %}"),
        ("import-only", "{% import 'lib0' as l0 %}"),
    ]
    .into_iter()
    .map(|(a, b)| (a.to_string(), b.to_string()))
    .collect()
}

fn aux() -> Vec<(String, String)> {
    vec![
        ("gp", "G{% block a %}ga{% endblock %}"),
        ("leaf", "leaf{{ 1 }}"),
        ("rawleaf", "raw leaf"),
        ("emptyleaf", ""),
        ("lib0", "{% macro m0() %}0{% endmacro %}"),
    ]
    .into_iter()
    .map(|(a, b)| (a.to_string(), b.to_string()))
    .collect()
}

/// edges whose callee is a whole template `t`: (edge, m, templates besides t)
fn template_edges() -> Vec<(&'static str, u64, Vec<(&'static str, &'static str)>)> {
    let wrap = "{% macro w() %}[{{ caller() }}]{% endmacro %}";
    let _ = wrap;
    vec![
        ("include", 1, vec![("main", "A{% include 't' %}B")]),
        ("include-notail", 1, vec![("main", "{% include 't' %}")]),
        ("include-twice", 2, vec![("main", "{% include 't' %}-{% include 't' %}")]),
        ("include-ignore-missing", 1, vec![("main", "A{% include 't' ignore missing %}B")]),
        ("include-list", 1, vec![("main", "A{% include ['nope', 't'] %}B")]),
        ("include-list-ignore-missing", 1, vec![("main", "A{% include ['nope', 't', 'nope2'] ignore missing %}B")]),
        ("include-dynamic", 1, vec![("main", "A{% include tname %}B")]),
        ("include-with-context", 1, vec![("main", "A{% include 't' with context %}B")]),
        ("include-loop", 3, vec![("main", "{% for i in [1, 2, 3] %}{% include 't' %}{% endfor %}")]),
        ("include-in-macro", 1, vec![("main", "{% macro mq() %}{% include 't' %}{% endmacro %}{{ mq() }}")]),
        ("include-in-block", 1, vec![("main", "<{% block zz %}{% include 't' %}{% endblock %}>")]),
        ("include-in-setblock", 1, vec![("main", "{% set x %}{% include 't' %}{% endset %}{{ x }}")]),
        ("include-in-filterblock", 1, vec![("main", "{% filter upper %}{% include 't' %}{% endfilter %}")]),
        ("include-in-autoescape", 1, vec![("main", "{% autoescape true %}{% include 't' %}{% endautoescape %}")]),
        ("include-in-callbody", 1, vec![("main", "{% macro w() %}[{{ caller() }}]{% endmacro %}{% call w() %}{% include 't' %}{% endcall %}")]),
        ("include-in-parent-block", 1, vec![("main", "{% extends 'base' %}{% block zz %}({{ super() }}){% endblock %}"), ("base", "<{% block zz %}{% include 't' %}{% endblock %}>")]),
        ("include-chain", 1, vec![("main", "m{% include 'mid' %}"), ("mid", "1{% include 't' %}2")]),
        ("import", 1, vec![("main", "{% import 't' as l %}x")]),
        ("import-in-loop", 2, vec![("main", "{% for i in [1, 2] %}{% import 't' as l %}x{% endfor %}")]),
        ("import-in-macro", 1, vec![("main", "{% macro mq() %}{% import 't' as l %}x{% endmacro %}{{ mq() }}")]),
        ("from-import", 1, vec![("main", "{% from 't' import q %}x")]),
        ("from-import-two", 1, vec![("main", "{% from 't' import q, mm as other %}x")]),
        ("extends", 1, vec![("main", "{% extends 't' %}")]),
        ("extends-dynamic", 1, vec![("main", "{% extends tname %}")]),
        ("extends-unrelated-block", 1, vec![("main", "{% extends 't' %}{% block unrelated %}u{% endblock %}")]),
        ("extends-chain", 1, vec![("main", "{% extends 'mid' %}"), ("mid", "{% extends 't' %}")]),
    ]
}

/// edges whose callee is a body: (edge, m, templates with the marker `@B@` where the body goes)
fn body_edges() -> Vec<(&'static str, u64, Vec<(&'static str, &'static str)>)> {
    vec![
        ("macro", 1, vec![("main", "{% macro m() %}@B@{% endmacro %}{{ m() }}")]),
        ("macro-twice", 2, vec![("main", "{% macro m() %}@B@{% endmacro %}{{ m() }}{{ m()|upper }}")]),
        ("macro-in-loop", 2, vec![("main", "{% macro m() %}@B@{% endmacro %}{% for i in [1, 2] %}{{ m() }}{% endfor %}")]),
        ("macro-in-set", 1, vec![("main", "{% macro m() %}@B@{% endmacro %}{% set x = m() %}{{ x }}")]),
        ("callblock", 1, vec![("main", "{% macro w() %}[{{ caller() }}]{% endmacro %}{% call w() %}@B@{% endcall %}")]),
        ("callblock-twice", 2, vec![("main", "{% macro w() %}[{{ caller() }}{{ caller() }}]{% endmacro %}{% call w() %}@B@{% endcall %}")]),
        ("imported-macro", 1, vec![("main", "{% import 'lib' as lib %}{{ lib.m() }}"), ("lib", "{% macro m() %}@B@{% endmacro %}")]),
        ("from-imported-macro", 1, vec![("main", "{% from 'lib' import m %}{{ m() }}"), ("lib", "{% macro m() %}@B@{% endmacro %}")]),
        ("block", 1, vec![("main", "<{% block a %}@B@{% endblock %}>")]),
        ("block-in-loop", 2, vec![("main", "{% for i in [1, 2] %}{% block a %}@B@{% endblock %}{% endfor %}")]),
        ("self-block", 2, vec![("main", "{% block a %}@B@{% endblock %}{{ self.a() }}")]),
        ("child-block", 1, vec![("main", "{% extends 'base' %}{% block a %}@B@{% endblock %}"), ("base", "<{% block a %}old{% endblock %}>")]),
        ("child-block-3", 1, vec![("main", "{% extends 'mid' %}{% block a %}@B@{% endblock %}"), ("mid", "{% extends 'base' %}{% block a %}mid{% endblock %}"), ("base", "<{% block a %}old{% endblock %}>")]),
        ("super", 1, vec![("main", "{% extends 'base' %}{% block a %}({{ super() }}){% endblock %}"), ("base", "<{% block a %}@B@{% endblock %}>")]),
        ("super-captured", 1, vec![("main", "{% extends 'base' %}{% block a %}{% set s = super() %}{{ s }}{% endblock %}"), ("base", "<{% block a %}@B@{% endblock %}>")]),
        ("super-twice", 2, vec![("main", "{% extends 'base' %}{% block a %}{{ super() }}{{ super()|upper }}{% endblock %}"), ("base", "<{% block a %}@B@{% endblock %}>")]),
        ("super3", 1, vec![("main", "{% extends 'mid' %}{% block a %}c({{ super() }}){% endblock %}"), ("mid", "{% extends 'base' %}{% block a %}m({{ super() }}){% endblock %}"), ("base", "<{% block a %}@B@{% endblock %}>")]),
        ("render_block", 2, vec![("main", "{% block a %}@B@{% endblock %}|{{ rblock('a') }}")]),
        ("call_macro", 1, vec![("main", "{% macro m() %}@B@{% endmacro %}{{ cmacro('m') }}")]),
        ("value-call", 1, vec![("main", "{% macro m() %}@B@{% endmacro %}{{ apply(m) }}")]),
        ("filter-callback", 1, vec![("main", "{% macro m() %}@B@{% endmacro %}{{ 1|f_macro('m') }}")]),
        ("test-callback", 1, vec![("main", "{% macro m() %}@B@{% endmacro %}{{ 1 is t_macro('m') }}")]),
        ("map-callback", 2, vec![("main", "{% macro m() %}@B@{% endmacro %}{{ [1, 2]|map('f_macro', 'm')|join }}")]),
        ("select-callback", 2, vec![("main", "{% macro m() %}@B@{% endmacro %}{{ [1, 2]|select('t_macro', 'm')|list|length }}")]),
        ("filterblock", 1, vec![("main", "{% filter upper %}@B@{% endfilter %}")]),
        ("setblock", 1, vec![("main", "{% set x %}@B@{% endset %}{{ x }}")]),
        ("autoescape", 1, vec![("main", "{% autoescape true %}@B@{% endautoescape %}")]),
        ("with", 1, vec![("main", "{% with w0 = 1 %}@B@{% endwith %}")]),
        ("if", 1, vec![("main", "{% if c %}@B@{% endif %}")]),
        ("loop-body", 3, vec![("main", "{% for j0 in [1, 2, 3] %}@B@{% endfor %}")]),
    ]
}

fn ctx() -> serde_json::Value {
    json!({"xs": [1, 2, 3], "c": true, "a": 7, "tname": "t"})
}

fn cases(thorough: bool) -> Vec<Case> {
    let mut rng = Rng::new(seed_from_env() ^ 0xed6e5);
    let bshapes = body_shapes(&mut rng, thorough);
    let mut tshapes = bshapes.clone();
    tshapes.extend(template_shapes());
    let mut v = vec![];
    for (edge, m, tpls) in template_edges() {
        for (shape, src) in &tshapes {
            // `from … import` evaluates the template with its output DISCARDED, and a CallBlock under a
            // discarding output does not run the block at all (the instructions are not executed, so
            // nothing is owed for them): such a callee is not rendered the way it is on its own
            if edge.starts_with("from-import") && (src.contains("{% block") || src.contains("extends 'gp'")) {
                continue;
            }
            let mut templates: Vec<(String, String)> = tpls.iter().map(|(n, s)| (n.to_string(), s.to_string())).collect();
            templates.push(("t".into(), src.clone()));
            templates.extend(aux());
            v.push(Case { stream: "edges".into(), edge: edge.into(), kind: "template".into(), shape: shape.clone(), m, templates, outer: "main".into(), inner: "t".into(), ctx: ctx() });
        }
    }
    for (edge, m, tpls) in body_edges() {
        for (shape, src) in &bshapes {
            let mut templates: Vec<(String, String)> = tpls.iter().map(|(n, s)| (n.to_string(), s.replace("@B@", src))).collect();
            templates.push(("body".into(), src.clone()));
            templates.extend(aux());
            // capture / scope constructs are no nested evaluations: a compiler may fold them for some
            // bodies; they are compared on the trace level only (kind "syntax")
            let kind = if matches!(edge, "filterblock" | "setblock" | "autoescape" | "with" | "if" | "loop-body") { "syntax" } else { "body" };
            v.push(Case { stream: "edges".into(), edge: edge.into(), kind: kind.into(), shape: shape.clone(), m, templates, outer: "main".into(), inner: "body".into(), ctx: ctx() });
        }
    }
    // the entry point `Expression::eval`: the same expression inside a template costs one Emit more,
    // whatever the expression is (compared on the trace / model level: kind "entry")
    let exprs = ["1", "'text'", "true", "none", "1.5", "[1, 2]", "{'k': 1}", "a", "xs", "missing", "(1)", "-1", "a + 1", "not c", "xs|length",
                 "a if c else 2", "xs|map('string')|list", "range(3)|sum", "a > 1 and c", "xs[0]", "[a, xs[1]]|max", "'x' ~ a"];
    for (i, e) in exprs.iter().enumerate() {
        let mut templates = vec![("main".to_string(), format!("{{{{ {e} }}}}"))];
        templates.extend(aux());
        v.push(Case { stream: "edges".into(), edge: "expr-entry".into(), kind: "entry".into(), shape: format!("expr{i}:{e}"), m: 1, templates,
                      outer: "main".into(), inner: format!("expr:{e}"), ctx: ctx() });
    }
    v
}

fn emit(case: &Case, out: &mut impl Write) {
    let res = run_case(case);
    writeln!(out, "{}\t{}", hex(serde_json::to_string(case).unwrap().as_bytes()), res).unwrap();
}

fn main() {
    quiet_panics();
    #[cfg(feature = "hooks")]
    install_hook();
    let _ = ErrorKind::OutOfFuel;
    let args: Vec<String> = std::env::args().collect();
    let stdout = std::io::stdout();
    let mut out = std::io::BufWriter::new(stdout.lock());
    match args.get(1).map(|s| s.as_str()) {
        Some("gen") => {
            let thorough = args.get(2).map(|s| s == "thorough").unwrap_or(false);
            for c in cases(thorough) {
                emit(&c, &mut out);
            }
        }
        Some("one") => {
            let c: Case = serde_json::from_slice(&unhex(&args[2])).expect("bad case");
            emit(&c, &mut out);
        }
        _ => {
            eprintln!("usage: c13_edges gen <quick|thorough> | c13_edges one <hex>");
            std::process::exit(2);
        }
    }
}
